#!/bin/bash
# eq-audit.sh <dir-with-*.diff> [outdir]: run every check against every behaviour-preserving patch of the directory
# (each on its own scratch copy, see bin/mutcheck) and list the checks that are not silent. Used for the false-alarm audits (DESIGN 10.5).
set -u
V=$(cd "$(dirname "$0")/.." && pwd)
D=$1
O=${2:-/tmp/epp/eqaudit}
mkdir -p "$O"
PROPS=C01,C02,C03,C04,C05,C06,C07,C08,C09,C10,C11,C12,C13,C14,C15,C16,C17,C18,C19,C20
ls "$D"/*.diff | xargs -P "${EQ_JOBS:-6}" -I{} sh -c "$V/bin/mutcheck --patch {} --props $PROPS > $O/\$(basename {} .diff).log 2>&1"
for f in "$O"/*.log; do
  bad=$(grep -E '^== C[0-9]+ exit=[^0]' "$f" | tr '\n' ' ')
  echo "$(basename "$f" .log): ${bad:-silent}"
done
