"""C16 — CounterRemover and ConditionalRemover detach listeners exactly when promised.

  W1 wrapper call operator, on every path: the counter is decremented exactly once / the condition is evaluated exactly once
     (with the trigger's arguments as lvalues when it accepts them); then, guarded only by that result, the wrapper removes
     its own handle from its own target; then the wrapped listener is called exactly once with the forwarded arguments;
     removal precedes the listener call (a re-entrant trigger from the listener must not run it again)
  W2 threshold normal form: the removal guard means "value after the single decrement <= 0" (=> max(n,1) invocations)
  W3 state lives with the listener: the wrapper holds a shared_ptr<Data> by value; Data refers to the target (not to the helper
     object); each add function stores in data->handle the handle returned by the add call made with a wrapper over that same data,
     and initialises the count/condition, target, event and listener from its own arguments
"""
from ..facts import AnalysisBroken, short
from ..paths import path, pstr, last_field, root_var_id, fields_in
from .. import formula as F
from .listrules import edge_dominates

EXPLANATION = 'C16: path rules over the wrapper call operators (single decrement / single condition evaluation, guard normal form, remove-own-handle before invoking), state ownership and handle def-use in the 12 add functions.'
ASSUMPTIONS = ['counts over histories follow from the per-invocation rules together with C01/C02; purity of the user condition is assumed']
UNITS = ['w_utils.cpp']

ADDS = ('appendListener', 'prependListener', 'insertListener', 'append', 'prepend', 'insert')


def check(ctx):
    ctx.rule('C16.W1', 'wrapper: one decrement / one condition evaluation, removal of own handle guarded by it, then one listener call')
    ctx.rule('C16.W2', 'removal threshold means "count after decrement <= 0"')
    ctx.rule('C16.W3', 'wrapper state is shared with the listener and initialised from the add call')
    import os
    from .. import witness, extract
    witness.check_static_unit(ctx, 'C16.W3', os.path.join(extract.VERIF, 'witness', 's_meta.cpp'), 'condition call-form detection (CanInvoke)', tag='C16')
    for tu in ctx.tus:
        from .listrules import check_invoked_in_place
        check_invoked_in_place(ctx, tu, 'C16.W1', lambda o_: o_.cls.split('::')[0] in ('CounterRemover', 'ConditionalRemover'))
        for f in tu.fns:
            o = f.skey
            if o in ('CounterRemover::Wrapper::operator()',):
                check_wrapper(ctx, tu, f, counter=True)
            elif o in ('ConditionalRemover::ItemByCondition::operator()',):
                check_wrapper(ctx, tu, f, counter=False)
            elif f.cls in ('CounterRemover', 'ConditionalRemover') and f.name in ADDS:
                check_add(ctx, tu, f)
    ctx.require_min('C16.W1', 3)
    ctx.require_min('C16.W2', 1)
    ctx.require_min('C16.W3', 12)


def data_field(p):
    """this.data->X  -> X"""
    if len(p) >= 4 and p[0] == 'this' and p[1] == '.data' and p[2] == '*':
        return p[3][1:] if p[3].startswith('.') else None
    return None


def condition_evals(f):
    """Evaluations of the removal condition in wrapper f: [(site node in f, innermost shouldRemove call, function holding it,
    argument sources as indices into f.params or None)]. A helper of the wrapper class that only returns the condition's
    result counts as an evaluation at its call site."""
    out = []
    pidx = {p['id']: i for i, p in enumerate(f.params)}
    for n in f.calls():
        if f.call_obj(n) and data_field(path(f, f.call_obj(n))) == 'shouldRemove':
            src = [pidx.get(root_var_id(path(f, a, resolve_refs=False))) for a in f.call_args(n)]
            out.append((n, n, f, src, all(f.nodes[f.strip(a)].get('vk') == 'l' for a in f.call_args(n))))
            continue
        for g in f.callee_fns(n):
            if g.cls != f.cls or g.id == f.id:
                continue
            inner = [m for m in g.calls() if g.call_obj(m) and data_field(path(g, g.call_obj(m))) == 'shouldRemove']
            rets = g.return_nodes()
            if len(inner) == 1 and len(rets) == 1 and g.strip_all_casts(g.kids(rets[0])[0]) == inner[0]:
                gidx = {p['id']: i for i, p in enumerate(g.params)}
                # helper parameter index -> wrapper parameter index through the call-site arguments
                site_args = f.call_args(n)
                src = []
                for a in g.call_args(inner[0]):
                    gi = gidx.get(root_var_id(path(g, a, resolve_refs=False)))
                    if gi is None or gi >= len(site_args):
                        src.append(None)
                    else:
                        src.append(pidx.get(root_var_id(path(f, site_args[gi], resolve_refs=False))))
                lv = all(g.nodes[g.strip(a)].get('vk') == 'l' for a in g.call_args(inner[0])) and \
                    all(f.nodes[f.strip(a)].get('vk') == 'l' for a in site_args if root_var_id(path(f, a, resolve_refs=False)) in pidx)
                out.append((n, inner[0], g, src, lv))
    return out


def check_wrapper(ctx, tu, f, counter):
    entry = (f.entry, 0)
    # listener call
    lcalls = [n for n in f.calls() if f.call_obj(n) and data_field(path(f, f.call_obj(n))) == 'listener' and f.nodes[n].get('op', '()') == '()']
    okl = len(lcalls) == 1 and f.pos_postdominates(f.pos(lcalls[0]), entry) and not f.block_reaches(f.pos(lcalls[0])[0], f.pos(lcalls[0])[0])
    ctx.ob('C16.W1', f, 'the wrapped listener is called exactly once on every path', okl, detail='%d call sites' % len(lcalls))
    if lcalls:
        args = f.call_args(lcalls[0])
        got = [root_var_id(path(f, a, resolve_refs=False)) for a in args]
        want = [p['id'] for p in f.params]
        ctx.ob('C16.W1', f, 'the listener receives the trigger\'s arguments in order', got == want,
               detail='passed %s' % [pstr(path(f, a)) for a in args])
    # removal
    def is_removal(h, n):
        return (h.callee(n) or {}).get('name') in ('removeListener', 'remove') and h.call_obj(n) and \
            data_field(path(h, h.call_obj(n))) in ('dispatcher', 'callbackList')
    # the removal may sit in a small private helper of the wrapper (doRemoveSelf()): the helper call is then the removal site
    deep = f.deep_calls(is_removal, depth=1)
    rcalls = sorted({t for (t, h, m) in deep})
    ctx.ob('C16.W1', f, 'the wrapper removes through exactly one call on its own target', len(rcalls) == 1 and len(deep) == 1, detail='%d removal calls' % len(deep))
    if len(rcalls) == 1 and len(deep) == 1:
        r = rcalls[0]
        rh, rm = deep[0][1], deep[0][2]
        a = rh.call_args(rm)
        fields = []
        for x in a:
            y = rh.strip_all_casts(x)
            while rh.is_construct(y) and len(rh.nodes[y].get('args', [])) == 1:
                y = rh.strip_all_casts(rh.nodes[y]['args'][0])
            fields.append(data_field(path(rh, y)))
        want = ['event', 'handle'] if rh.callee(rm)['name'] == 'removeListener' else ['handle']
        ctx.ob('C16.W1', f, 'the removed handle is the wrapper\'s own (data->handle%s)' % (', data->event' if len(want) == 2 else ''), fields == want,
               detail='removal arguments: %s' % fields, where=f.nloc(r))
        if lcalls:
            ctx.ob('C16.W1', f, 'the removal precedes the listener call',
                   f.pos_reaches(f.pos(r), f.pos(lcalls[0])) and not f.pos_reaches(f.pos(lcalls[0]), f.pos(r)),
                   detail='if the listener runs first, a nested trigger of the same event from inside the listener invokes it once more',
                   where=f.nloc(r))
        # the guard
        guards = []
        for bid, blk in f.blocks.items():
            c = blk.get('cond')
            if c and len(blk['succ']) == 2 and (edge_dominates(f, bid, 'true', f.pos(r)) or edge_dominates(f, bid, 'false', f.pos(r))):
                guards.append((bid, c, 'true' if edge_dominates(f, bid, 'true', f.pos(r)) else 'false'))
        ctx.ob('C16.W1', f, 'the removal is guarded by exactly one test', len(guards) == 1, detail='%d guards' % len(guards))
        if len(guards) == 1:
            bid, c, role = guards[0]
            if counter:
                check_threshold(ctx, f, c, role)
            else:
                # condition: the guard is (a helper returning) the call of data->shouldRemove
                cn = f.strip_all_casts(c)
                # the test may read a local that holds the call's result (`const bool remove = data->shouldRemove(...)`)
                if f.nodes[cn]['cls'] == 'DeclRefExpr' and f.decl(cn).get('kind') == 'var':
                    vd = f.var_decls().get(f.decl(cn)['id'])
                    vt = f.tu.type(vd['t']) if vd else None
                    if vd and vd.get('init') and vt and vt.get('const') and not vt.get('ref'):
                        cn = f.strip_all_casts(vd['init'])
                okc = any(site == cn for (site, _, _, _, _) in condition_evals(f)) and role == 'true'
                ctx.ob('C16.W1', f, 'the listener is removed exactly when the condition call returned true', bool(okc), where=f.nloc(c))
    if counter:
        decs = []
        from ..effects import writes
        for w in writes(f):
            if data_field(w['path']) == 'triggerCount':
                decs.append(w)
        okd = len(decs) == 1 and decs[0]['how'] in ('--', '-=') and f.pos_postdominates(decs[0]['pos'], entry)
        ctx.ob('C16.W1', f, 'the trigger count is decremented exactly once on every path', okd,
               detail='writes to the count: %s' % [(w['how'], f.nloc(w['node'])) for w in decs])
    else:
        evals = condition_evals(f)
        okc = len(evals) == 1 and f.pos_postdominates(f.pos(evals[0][0]), entry)
        ctx.ob('C16.W1', f, 'the condition is evaluated exactly once per trigger', okc, detail='%d evaluations' % len(evals))
        if evals:
            site, inner, g, src, lv = evals[0]
            want = list(range(len(f.params)))
            ctx.ob('C16.W1', f, 'the condition receives the trigger\'s arguments as lvalues (or none)', lv and (src == want or not src),
                   detail='argument sources (indices of the trigger\'s arguments) %s' % src)
            # a condition that accepts the trigger's arguments must get them (witness condition callable both ways)
            dt = tu.tstr(f.d.get('clst')) if f.d.get('clst') is not None else f.clsq
            if 'CondBothWays' in f.clsq and f.params:
                ctx.ob('C16.W1', f, 'a condition that accepts the trigger\'s arguments is called with them (not with none)', src == want,
                       detail='the witness condition is callable both with () and with the arguments; it was called with %d argument(s): a condition of that '
                              'kind never sees the real arguments' % len(src), key_detail='arguments if accepted')


def check_threshold(ctx, f, c, role):
    """Normalise the guard to 'value after the decrement <= 0' on the edge that leads to the removal."""
    n = f.strip_all_casts(c)
    o = f.nodes[n]
    form = None
    # a comparison through the standard function objects on built-in operands is the operator itself
    STD_CMP = {'std::less_equal': '<=', 'std::less': '<', 'std::greater': '>', 'std::greater_equal': '>=', 'std::equal_to': '=='}
    if o['cls'] == 'CXXOperatorCallExpr' and o.get('op') == '()' and len(f.call_args(n)) == 2:
        from ..facts import short as _short
        ck = _short((f.callee(n) or {}).get('cls', ''))
        if ck in STD_CMP and all((f.ntype(a) or {}).get('s', '').replace('const ', '').strip() in ('int', 'long', 'unsigned int', 'unsigned long', 'short', 'long long')
                                 for a in [f.strip_all_casts(x) for x in f.call_args(n)]):
            o = dict(o, cls='BinaryOperator', op=STD_CMP[ck], kids=list(f.call_args(n)))
    if o['cls'] == 'BinaryOperator' and o.get('op') in ('<=', '<', '>', '>=', '=='):
        l, r = o['kids'] if o is not f.nodes[n] else f.kids(n)
        ls, rs = f.strip_all_casts(l), f.strip_all_casts(r)

        def dec_of(x):
            xo = f.nodes[x]
            if xo['cls'] == 'UnaryOperator' and xo.get('op') == '--' and data_field(path(f, f.kids(x)[0])) == 'triggerCount':
                return 'post' if xo.get('postfix') else 'pre'
            if xo['cls'] == 'ParenExpr':
                return dec_of(f.kids(x)[0])
            if xo['cls'] == 'CompoundAssignOperator' and xo.get('op') == '-=' and f.nodes[f.strip_all_casts(f.kids(x)[1])].get('value') == 1:
                return 'pre'
            # a plain read of the counter: the decrement is a statement of its own, before (value seen = after the decrement) or after
            # the comparison (value seen = before it)
            if xo['cls'] in ('MemberExpr', 'DeclRefExpr') and data_field(path(f, x)) == 'triggerCount':
                decs = [m for m, mo in f.nodes.items()
                        if (mo['cls'] == 'UnaryOperator' and mo.get('op') == '--' and data_field(path(f, f.kids(m)[0])) == 'triggerCount')
                        or (mo['cls'] == 'CompoundAssignOperator' and mo.get('op') == '-=' and data_field(path(f, f.kids(m)[0])) == 'triggerCount'
                            and f.nodes[f.strip_all_casts(f.kids(m)[1])].get('value') == 1)]
                if len(decs) == 1 and f.pos(decs[0]) and f.pos(n):
                    if f.pos_dominates(f.pos(decs[0]), f.pos(n)) and f.pos(decs[0]) != f.pos(n):
                        return 'pre'
                    if f.pos_dominates(f.pos(n), f.pos(decs[0])) and f.pos(decs[0]) != f.pos(n):
                        return 'post'
            return None

        def const_of(x):
            xo = f.nodes[x]
            return xo.get('value', xo.get('cv'))
        op = o['op']
        d, k = dec_of(ls), const_of(rs)
        if d is None:
            d, k = dec_of(rs), const_of(ls)
            op = {'<=': '>=', '<': '>', '>': '<', '>=': '<=', '==': '=='}[op]
        if d is not None and k is not None:
            # (value seen by the comparison) op k ; value after decrement = seen (pre) or seen-1 (post)
            # removal edge: role 'true' -> comparison true
            # express as: after <= T
            if role == 'true':
                if op == '<=':
                    T = k if d == 'pre' else k - 1
                    form = T
                elif op == '<':
                    T = (k - 1) if d == 'pre' else k - 2
                    form = T
            else:
                if op == '>':
                    T = k if d == 'pre' else k - 1
                    form = T
                elif op == '>=':
                    T = (k - 1) if d == 'pre' else k - 2
                    form = T
    if form is None:
        raise AnalysisBroken('C16.W2: removal guard at %s is not in a recognised threshold form' % f.nloc(c))
    ctx.ob('C16.W2', f, 'the listener is removed exactly when the count after the decrement is <= 0', form == 0,
           detail='the guard removes when the count after the decrement is <= %d: a listener added with count n then runs %s times'
                  % (form, 'n+%d' % (-form) if form < 0 else ('max(n-%d,1)' % form)), where=f.nloc(c))


def check_add(ctx, tu, f):
    # auto data = make_shared<Data>(Data{...}); data->handle = target.add(..., Wrapper{data}, ...); return data->handle;
    datas = [(vid, vd) for vid, vd in f.var_decls().items() if vd['name'] == 'data' or 'shared_ptr' in tu.tstr(vd['t'])]
    datas = [(vid, vd) for vid, vd in datas if 'Data' in tu.tstr(vd['t'])]
    ctx.ob('C16.W3', f, 'the add function creates one shared state object', len(datas) == 1, detail='%d candidates' % len(datas))
    if len(datas) != 1:
        return
    did, dvd = datas[0]
    droot = 'v:%s#%d' % (dvd['name'], did)
    from ..effects import writes
    ws = [w for w in writes(f) if w['path'] == (droot, '*', '.handle') and w['how'] == 'assign']
    # the store may sit in a small helper `storeHandle(data, <handle>)`: it assigns its second parameter to first->handle and returns that member
    via = None
    if not ws:
        for n in f.calls():
            a = f.call_args(n)
            if len(a) != 2 or path(f, f.value_source(a[0]), resolve_refs=False) != (droot,):
                continue
            for g in f.callee_fns(n):
                if g.clsq != f.clsq or len(g.params) != 2:
                    continue
                p0 = 'v:%s#%d' % (g.params[0]['name'], g.params[0]['id'])
                gw = [w for w in writes(g) if w['how'] == 'assign']
                if len(gw) == 1 and gw[0]['path'] == (p0, '*', '.handle') and root_var_id(path(g, g.value_source(gw[0]['rhs']), resolve_refs=False)) == g.params[1]['id'] \
                        and len([x for x in writes(g)]) == 1:
                    grets = g.return_nodes()
                    if grets and all(g.kids(r) and path(g, g.value_source(g.kids(r)[0])) == (p0, '*', '.handle') and g.pos_dominates(gw[0]['pos'], g.pos(r)) for r in grets):
                        via = (n, a[1])
    ok = len(ws) == 1 or via is not None
    detail = '%d assignments to data->handle' % len(ws)
    if ok:
        rhs = f.strip_all_casts(ws[0]['rhs'] if ws else via[1])
        while f.is_construct(rhs) and len(f.nodes[rhs].get('args', [])) == 1:
            rhs = f.strip_all_casts(f.nodes[rhs]['args'][0])
        ok = f.is_call(rhs) and (f.callee(rhs) or {}).get('name') == f.name
        detail = 'handle assigned from %s' % (f.callee_key(rhs) if f.is_call(rhs) else f.nodes[rhs]['cls'])
        if ok:
            # the callback argument is a wrapper over the same data
            has_wrapper = False
            for d in f.descendants(rhs):
                od = f.nodes[d]
                if od['cls'] == 'InitListExpr' or f.is_construct(d):
                    t = tu.tstr(od.get('t'))
                    if ('Wrapper' in t or 'ItemByCondition' in t) and 'Data' not in t.split('::')[-1]:
                        for k in f.descendants(d):
                            if f.nodes[k]['cls'] == 'DeclRefExpr' and f.decl(k).get('id') == did:
                                has_wrapper = True
            # target: the helper's own target
            objp = path(f, f.call_obj(rhs)) if f.call_obj(rhs) else ()
            ok = has_wrapper and last_field(objp) in ('dispatcher', 'callbackList') and objp[0] == 'this'
            detail += '; wrapper over the same data: %s; target %s' % (has_wrapper, pstr(objp))
    ctx.ob('C16.W3', f, 'data->handle is the handle returned by the add call made with a wrapper over the same data, on the helper\'s target', ok, detail=detail)
    # returned value
    rets = f.return_nodes()
    okr = bool(rets)
    for r in rets:
        ks = f.kids(r)
        v = f.strip_all_casts(ks[0]) if ks else None
        while v and f.is_construct(v) and len(f.nodes[v].get('args', [])) == 1:
            v = f.strip_all_casts(f.nodes[v]['args'][0])
        if via is not None and v == via[0]:
            continue          # the helper returns first->handle (checked above)
        if not v or path(f, v) != (droot, '*', '.handle'):
            okr = False
    ctx.ob('C16.W3', f, 'the caller receives that handle', okr)
    # Data initialiser: first = own count/condition parameter, then the target, then (event,) listener from own parameters
    inits = [n for n, o in f.nodes.items() if o['cls'] == 'InitListExpr' and tu.tstr(o.get('t')).endswith('::Data')]
    host, binding = f, None
    if not inits:
        # the state may be built by a private helper that receives the add function's own arguments (doCreateData(count, event, listener))
        for n in f.calls():
            for g in f.callee_fns(n):
                gi = [m for m, o in g.nodes.items() if o['cls'] == 'InitListExpr' and tu.tstr(o.get('t')).endswith('::Data')]
                if gi and g.clsq == f.clsq:
                    host, inits = g, gi
                    binding = {p_['id']: path(f, f.value_source(a), resolve_refs=False) for p_, a in zip(g.params, f.call_args(n))}
    oki = len(inits) >= 1
    detail = ''
    if oki:
        il = inits[0]
        fields = host.nodes[il].get('fields', [])
        ks = host.kids(il)
        pids = f.param_ids()
        vals = {}
        for fld, k in zip(fields, ks):
            x = host.strip_all_casts(k)
            while host.is_construct(x) and len(host.nodes[x].get('args', [])) == 1:
                x = host.strip_all_casts(host.nodes[x]['args'][0])
            px = path(host, x)
            if binding is not None and len(px) == 1 and root_var_id(px) in binding:
                px = binding[root_var_id(px)]          # the helper's parameter stands for the add function's argument
            vals[fld] = px
        first = fields[0] if fields else None
        want_param = {'triggerCount': 'triggerCount', 'shouldRemove': 'condition'}.get(first)

        def is_param(p, name):
            return len(p) == 1 and root_var_id(p) in pids and pids[root_var_id(p)]['name'] == name
        oki = want_param is not None and is_param(vals.get(first, ()), want_param)
        tgt = 'dispatcher' if 'dispatcher' in fields else 'callbackList'
        oki = oki and vals.get(tgt) == ('this', '.' + tgt)
        oki = oki and is_param(vals.get('listener', ()), 'listener')
        if 'event' in fields:
            oki = oki and is_param(vals.get('event', ()), 'event')
        detail = 'Data{%s}' % ', '.join('%s=%s' % (k, pstr(v)) for k, v in vals.items())
    ctx.ob('C16.W3', f, 'the shared state is initialised from the add function\'s own count/condition, target, event and listener', oki, detail=detail)
