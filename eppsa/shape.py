"""A12 local shape analysis of the loop-free link routines of CallbackListBase.

The routines (append / prepend / insert / remove / ownsHandle and the helpers they call: doAppendNode, doInsert,
doFreeNode) are read as *pointer programs*: assignments between node-pointer access paths, null / equality tests,
writes of the generation counter. `PointerProgram` evaluates that transformer on every alias configuration of the cells
the routine can reach: lists of length 0..N with the operand node(s) at every position (and, for handle operands, the
"removed but still alive" and "expired" cases). Cells further away are an untouched frame. No library code is executed:
the evaluator interprets the extracted CFG and expression facts; any construct outside the pointer-program fragment
makes the analysis exit 2 (unsupported), never pass.
"""
from .facts import short, AnalysisBroken
from .paths import path, pstr

REMOVED = 0


class Unsupported(Exception):
    pass


class Node:
    __slots__ = ('name', 'previous', 'next', 'counter')

    def __init__(self, name, counter):
        self.name = name
        self.previous = None
        self.next = None
        self.counter = counter

    def __repr__(self):
        return self.name


class ListObj:
    def __init__(self):
        self.head = None
        self.tail = None
        self.gen = 0
        self.fresh = []

    def next_counter(self):
        self.gen += 1
        return self.gen


class Handle:
    """weak_ptr<Node>: node is what lock() yields (None when expired)."""

    def __init__(self, node):
        self.node = node


class Ref:
    """An lvalue: (object, attribute) or (environment dict, key)."""

    def __init__(self, obj, key):
        self.obj, self.key = obj, key

    def get(self):
        if isinstance(self.obj, dict):
            return self.obj[self.key]
        return getattr(self.obj, self.key)

    def set(self, v):
        if isinstance(self.obj, dict):
            self.obj[self.key] = v
        else:
            setattr(self.obj, self.key, v)


class PointerProgram:
    def __init__(self, tu):
        self.tu = tu
        self.steps = 0

    def call(self, fn, this, args, depth=0):
        """Interpret fn with receiver `this` and argument values/refs `args` (list aligned with fn.params)."""
        if depth > 6:
            raise Unsupported('call depth in %s' % fn.skey)
        env = {}
        for p, a in zip(fn.params, args):
            env[p['id']] = a
        b = fn.entry
        guard = 0
        while True:
            guard += 1
            if guard > 400:
                raise Unsupported('loop in %s (only loop-free link routines are supported)' % fn.skey)
            blk = fn.blocks[b]
            for e in blk['elems']:
                if e['k'] != 'stmt' or not e.get('n'):
                    continue
                n = e['n']
                o = fn.nodes[n]
                c = o['cls']
                self.steps += 1
                if c == 'ReturnStmt':
                    ks = fn.kids(n)
                    return self.value(fn, ks[0], this, env, depth) if ks else None
                if c == 'DeclStmt':
                    for v in o.get('decls', []):
                        t = self.tu.tstr(v['t'])
                        if 'lock_guard' in t or 'unique_lock' in t or 'scoped_lock' in t:
                            continue
                        init = v.get('init')
                        tt = self.tu.type(v['t'])
                        if init is None:
                            env[v['id']] = None
                        elif tt and tt['ref']:
                            env[v['id']] = self.lvalue(fn, init, this, env, depth)
                        else:
                            env[v['id']] = self.value(fn, init, this, env, depth)
                elif c == 'CXXOperatorCallExpr' and o.get('op') == '=' and self.is_top(fn, n):
                    self.value(fn, n, this, env, depth)
                elif c == 'BinaryOperator' and o.get('op') == '=' and self.is_top(fn, n):
                    ks = fn.kids(n)
                    self.lvalue(fn, ks[0], this, env, depth).set(self.value(fn, ks[1], this, env, depth))
                elif c in ('CXXMemberCallExpr', 'CallExpr') and self.is_top(fn, n):
                    self.value(fn, n, this, env, depth)
            succ = blk['succ']
            if b == fn.exit or not [s for s in succ if s is not None]:
                return None
            if len(succ) == 2 and blk.get('cond'):
                v = self.truth(self.value(fn, blk['cond'], this, env, depth))
                b = succ[0] if v else succ[1]
                if b is None:
                    raise Unsupported('pruned edge taken in %s' % fn.skey)
            else:
                b = [s for s in succ if s is not None][0]

    def is_top(self, fn, n):
        """n is not a sub-expression of another effectful expression (it is a statement of its own)."""
        p = fn.parent_map().get(n)
        while p is not None and fn.nodes[p]['cls'] in ('ExprWithCleanups', 'ParenExpr', 'ImplicitCastExpr', 'MaterializeTemporaryExpr', 'CXXBindTemporaryExpr'):
            p = fn.parent_map().get(p)
        return p is None or fn.nodes[p]['cls'] in ('CompoundStmt', 'IfStmt', 'WhileStmt', 'ForStmt')

    @staticmethod
    def truth(v):
        if isinstance(v, Ref):
            v = v.get()
        if isinstance(v, Handle):
            return v.node is not None
        return bool(v)

    def deref(self, v):
        if isinstance(v, Ref):
            v = v.get()
        return v

    def lvalue(self, fn, n, this, env, depth):
        n = fn.strip_all_casts(n)
        o = fn.nodes[n]
        c = o['cls']
        if c == 'DeclRefExpr':
            d = fn.decl(n)
            if d['kind'] in ('var', 'parm'):
                v = env.get(d['id'])
                if isinstance(v, Ref):
                    return v          # reference parameter / local reference
                return Ref(env, d['id'])
        if c == 'MemberExpr':
            d = fn.decl(n)
            if d['kind'] != 'field':
                raise Unsupported('member %s' % d['name'])
            base = fn.kids(n)[0]
            bo = fn.nodes[fn.strip_all_casts(base)]
            if bo['cls'] == 'CXXThisExpr':
                return Ref(this, d['name'])
            obj = self.deref(self.value(fn, base, this, env, depth))
            if obj is None:
                raise NullDeref('%s of null at %s' % (d['name'], fn.nloc(n)))
            return Ref(obj, d['name'])
        if c == 'CXXOperatorCallExpr' and o.get('op') in ('*',):
            return self.lvalue(fn, o['args'][0], this, env, depth)
        if c == 'CallExpr' and short((fn.callee(n) or {}).get('key', '')) in ('std::move', 'std::forward'):
            return self.lvalue(fn, o['args'][0], this, env, depth)
        if c == 'ConditionalOperator' and len(fn.kids(n)) == 3:
            ks = fn.kids(n)       # `(c ? a : b) = v`: the arm the condition selects
            return self.lvalue(fn, ks[1] if self.truth(self.value(fn, ks[0], this, env, depth)) else ks[2], this, env, depth)
        raise Unsupported('lvalue %s at %s' % (c, fn.nloc(n)))

    def consume(self, fn, n, this, env, depth, keep=None):
        """The move constructor / move assignment of a smart pointer leaves its source empty: when the source expression is an
        xvalue of a variable or field (std::move(x)), that storage now holds null."""
        m = fn.strip_all_casts(n)
        o = fn.nodes[m]
        if o['cls'] == 'CallExpr' and short((fn.callee(m) or {}).get('key', '')) in ('std::move', 'std::forward') and o.get('vk') == 'x':
            try:
                src = self.lvalue(fn, o['args'][0], this, env, depth)
            except Unsupported:
                return
            if keep is not None and isinstance(src, Ref) and isinstance(keep, Ref) and src.obj is keep.obj and src.key == keep.key:
                return
            if isinstance(self.deref(src), Handle):
                src.set(Handle(None))
            else:
                src.set(None)

    def value(self, fn, n, this, env, depth):
        n = fn.strip_all_casts(n)
        o = fn.nodes[n]
        c = o['cls']
        if c in ('DeclRefExpr',):
            d = fn.decl(n)
            if d['kind'] == 'enumc':
                return d.get('value')
            return self.deref(self.lvalue(fn, n, this, env, depth))
        if c == 'MemberExpr':
            return self.lvalue(fn, n, this, env, depth).get()
        if c == 'CXXThisExpr':
            return this
        if c in ('IntegerLiteral', 'CXXBoolLiteralExpr'):
            return o.get('value')
        if c == 'CXXNullPtrLiteralExpr':
            return None
        if 'cv' in o and c not in ('CallExpr', 'CXXMemberCallExpr', 'CXXOperatorCallExpr'):
            return o['cv']
        if c == 'ConditionalOperator':
            ks = fn.kids(n)
            return self.value(fn, ks[1] if self.truth(self.value(fn, ks[0], this, env, depth)) else ks[2], this, env, depth)
        if c == 'UnaryOperator' and o.get('op') == '!':
            return not self.truth(self.value(fn, fn.kids(n)[0], this, env, depth))
        if c == 'BinaryOperator':
            op = o.get('op')
            ks = fn.kids(n)
            if op == '&&':
                return self.truth(self.value(fn, ks[0], this, env, depth)) and self.truth(self.value(fn, ks[1], this, env, depth))
            if op == '||':
                return self.truth(self.value(fn, ks[0], this, env, depth)) or self.truth(self.value(fn, ks[1], this, env, depth))
            a, b = self.deref(self.value(fn, ks[0], this, env, depth)), self.deref(self.value(fn, ks[1], this, env, depth))
            if op == '==':
                return a == b if not isinstance(a, Node) and not isinstance(b, Node) else a is b
            if op == '!=':
                return a != b if not isinstance(a, Node) and not isinstance(b, Node) else a is not b
            if op in ('<', '>', '<=', '>='):
                return {'<': a < b, '>': a > b, '<=': a <= b, '>=': a >= b}[op]
            raise Unsupported('operator %s' % op)
        if c in ('CXXConstructExpr', 'CXXTemporaryObjectExpr'):
            cal = fn.callee(n)
            cls = short((cal or {}).get('cls', ''))
            args = [a for a in o.get('args', []) if fn.nodes[a]['cls'] != 'CXXDefaultArgExpr']
            if cls.endswith('Handle_') or 'weak_ptr' in cls:
                if not args:
                    return Handle(None)
                v = self.deref(self.value(fn, args[0], this, env, depth))
                return v if isinstance(v, Handle) else Handle(v)
            if 'shared_ptr' in cls:
                if not args:
                    return None
                v = self.deref(self.value(fn, args[0], this, env, depth))
                if (cal or {}).get('ctor') == 'move':
                    self.consume(fn, args[0], this, env, depth)
                return v.node if isinstance(v, Handle) else v
            raise Unsupported('construction of %s at %s' % (cls, fn.nloc(n)))
        if c == 'CXXOperatorCallExpr':
            op = o.get('op')
            a = o['args']
            if op in ('==', '!='):
                x, y = self.deref(self.value(fn, a[0], this, env, depth)), self.deref(self.value(fn, a[1], this, env, depth))
                return (x is y) if op == '==' else (x is not y)
            if op in ('->', '*'):
                return self.deref(self.value(fn, a[0], this, env, depth))
            if op == '=':
                v = self.value(fn, a[1], this, env, depth)
                dst = self.lvalue(fn, a[0], this, env, depth)
                if (fn.callee(n) or {}).get('assign') == 'move':
                    self.consume(fn, a[1], this, env, depth, keep=dst)
                dst.set(self.deref(v))
                return v
            raise Unsupported('operator%s at %s' % (op, fn.nloc(n)))
        if c == 'CXXMemberCallExpr':
            cal = fn.callee(n)
            name = cal['name'] if cal else '?'
            obj = o.get('obj')
            if name == 'lock' and obj:
                h = self.deref(self.value(fn, obj, this, env, depth))
                if isinstance(h, Handle):
                    return h.node
                raise Unsupported('lock() on a non-handle at %s' % fn.nloc(n))
            if name in ('operator bool',) and obj:
                return self.truth(self.value(fn, obj, this, env, depth))
            if name == 'get' and obj:
                return self.deref(self.value(fn, obj, this, env, depth))
            if name == 'reset' and obj:
                self.lvalue(fn, obj, this, env, depth).set(None)
                return None
            if name == 'expired' and obj:
                h = self.deref(self.value(fn, obj, this, env, depth))
                return h.node is None
            if cal and cal.get('lib') and cal.get('fid', -1) in fn.tu.by_id:
                g = fn.tu.by_id[cal['fid']]
                recv = this if (obj is None or fn.nodes[fn.strip_all_casts(obj)]['cls'] == 'CXXThisExpr') else self.deref(self.value(fn, obj, this, env, depth))
                if g.skey.endswith('::doAllocateNode'):
                    nd = Node('new%d' % (len(recv.fresh) + 1), recv.next_counter())
                    recv.fresh.append(nd)
                    return nd
                if g.skey.endswith('::getNextCounter'):
                    return recv.next_counter()
                args = []
                for p, a in zip(g.params, fn.call_args(n)):
                    t = self.tu.type(p['t'])
                    if t and t['ref'] and not (t.get('const') and False):
                        try:
                            args.append(self.lvalue(fn, a, this, env, depth))
                        except Unsupported:
                            args.append(self.value(fn, a, this, env, depth))
                    else:
                        args.append(self.value(fn, a, this, env, depth))
                return self.call(g, recv, args, depth + 1)
            raise Unsupported('call %s at %s' % (short(cal['key']) if cal else '?', fn.nloc(n)))
        if c == 'CallExpr':
            cal = fn.callee(n)
            k = short(cal['key']) if cal else '?'
            if k in ('std::move', 'std::forward'):
                return self.value(fn, o['args'][0], this, env, depth)
            if k == 'std::make_shared' and 'Node' in self.tu.tstr(o.get('t')):
                a = o.get('args', [])
                cnt = self.deref(self.value(fn, a[1], this, env, depth)) if len(a) > 1 else None
                if not isinstance(cnt, int):
                    raise Unsupported('node generation is not a counter value at %s' % fn.nloc(n))
                nd = Node('clone%d' % (len(this.fresh) + 1), cnt)
                this.fresh.append(nd)
                return nd
            if k == 'std::make_shared':
                raise Unsupported('make_shared of a non-node at %s' % fn.nloc(n))
            raise Unsupported('call %s at %s' % (k, fn.nloc(n)))
        raise Unsupported('expression %s at %s' % (c, fn.nloc(n)))


class NullDeref(Exception):
    pass


# ---------------------------------------------------------------------------------------------------
# configurations and postconditions

def build_list(n):
    L = ListObj()
    nodes = []
    for i in range(n):
        nd = Node('n%d' % i, L.next_counter())
        nodes.append(nd)
    for i, nd in enumerate(nodes):
        nd.previous = nodes[i - 1] if i > 0 else None
        nd.next = nodes[i + 1] if i + 1 < n else None
    L.head = nodes[0] if nodes else None
    L.tail = nodes[-1] if nodes else None
    return L, nodes


def sequence(L, limit=50):
    """Forward sequence from head, or an error string."""
    out = []
    nd = L.head
    while nd is not None:
        if nd in out or len(out) > limit:
            return 'cycle through %s' % nd
        out.append(nd)
        nd = nd.next
    return out


def well_formed(L):
    seq = sequence(L)
    if isinstance(seq, str):
        return seq
    if not seq:
        if L.head is not None or L.tail is not None:
            return 'empty list but head/tail not both null'
        return None
    if L.head is not seq[0] or L.head.previous is not None:
        return 'head is not the first node or has a previous'
    if L.tail is not seq[-1]:
        return 'tail is %s but the last linked node is %s' % (L.tail, seq[-1])
    if L.tail.next is not None:
        return 'tail has a next'
    for i, nd in enumerate(seq):
        if nd.counter == REMOVED:
            return 'removed node %s is still linked' % nd
        if i > 0 and nd.previous is not seq[i - 1]:
            return 'previous of %s is %s, expected %s' % (nd, nd.previous, seq[i - 1])
    return None
