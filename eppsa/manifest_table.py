"""Table from which MANIFEST.json is generated (bin/gen-manifest.py)."""

NOTES = ('Static analysis only: every verdict is computed from /repo\'s current source (type-checked AST, CFG, layouts) '
         'by the eppfacts extractor and the eppsa rules; nothing executes library code. Exit 0 pass, 1 VIOLATION, '
         '2 analysis broken (anchor vanished / rule matched fewer instances than confirmed). See DESIGN.md.')

COMMON_NOTE = ('Trusted: clang 14 parser/Sema/CFG builder, libstdc++ declarations, the frozen effect tables in eppsa/effects.py. '
               'Covers the template instantiations present in the witness units (thorough: also the unit-test TUs and '
               '-std=c++11/14/20). Decides the named structural clauses, which are necessary conditions of the property, '
               'not the behaviour itself. ')

CHECKS = {
    'C07': {
        'text': 'Condition-variable discipline on both queue classes, on every path of every instantiation: predicate-form waits '
                'under queueListMutex; the wait predicate formula is equivalent to what the property states (truth table over its atoms); '
                'every write that can enable the predicate is made under the waiters\' mutex and followed by notify; '
                'DisableQueueNotify ctor/dtor balanced and sole writers. A violation of any clause yields a schedule with a lost wake-up.',
        'note': COMMON_NOTE + 'Not decided: liveness under fair scheduling, notify_one vs many waiters, timing of waitFor.',
        'technique': 'lockset + dominance over clang CFG, predicate formula extraction with truth-table implication, call-graph notify-after rule',
    },
}

CHECKS['C06'] = {
    'text': 'Exclusive-ownership discipline of the two queue classes on every path of every instantiation: guarded-by for '
            'queueList/freeList (tolerated unlocked empty() pre-checks frozen by function), locked non-empty re-check dominating every '
            'single-element take, slot types neither copyable nor movable and slot contents touched only in thread-private or locked lists, '
            'queue mutexes never nested and no dispatch/predicate/slot destruction under them. Breaking a clause gives an interleaving '
            'that duplicates, loses or corrupts an event or deadlocks.',
    'note': COMMON_NOTE + 'Not decided: exactly-once/linearizability as such, per-producer order, the benign races of the pre-checks.',
    'technique': 'lockset (must/may) dataflow over clang CFG, guarded-by table, dominance of locked re-check, class special-member facts',
}
CHECKS['C11'] = {
    'text': 'emptyQueue() formula and evaluation order (list before counter), CounterGuard entered before every take that is followed by '
            'user code and held over dispatch and put-back, CounterGuard balanced and sole writer of queueEmptyCounter, '
            'time-out implication (!pred && enabled => empty) by truth table over the extracted predicate.',
    'note': COMMON_NOTE + 'Not decided: the weak-memory argument (seq_cst RMW + acquire load) that makes the ordering sufficient.',
    'technique': 'formula extraction + truth table, dominance/must-hold of scope guards over clang CFG, who-may-write rule',
}

NOT_APPLICABLE = {
}
for _i in range(1, 21):
    _p = 'C%02d' % _i
    if _p not in CHECKS:
        NOT_APPLICABLE[_p] = 'rules not completed yet (static rule set designed in DESIGN.md section 4; not claimed until implemented)'
