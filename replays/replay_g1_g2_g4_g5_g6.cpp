#include <eventpp/callbacklist.h>
#include <eventpp/eventdispatcher.h>
#include <eventpp/eventqueue.h>
#include <eventpp/hetereventqueue.h>
#include <eventpp/utilities/scopedremover.h>
#include <iostream>
#include <string>
#include <new>
#include <cstring>
using namespace eventpp;
int main(int argc, char**argv) {
  int which = atoi(argv[1]);
  if (which==1) { // C02 remove twice in callback, ownsHandle of removed, insert before removed
    using CL = CallbackList<void()>;
    CL cl; CL::Handle ha, hb, hc;
    std::string trace;
    ha = cl.append([&]{ trace += "A"; });
    hb = cl.append([&]{ trace += "B";
        bool r1 = cl.remove(hb);
        bool own = cl.ownsHandle(hb);
        bool r2 = cl.remove(hb);
        std::cout << "r1="<<r1<<" ownsRemoved="<<own<<" r2="<<r2<<"\n";
        cl.insert([&]{ trace += "X"; }, hb); // should append at back
    });
    hc = cl.append([&]{ trace += "C"; });
    cl(); std::cout << trace << "\n"; trace.clear();
    cl(); std::cout << "second: " << trace << " (expect ACX)\n"; trace.clear();
    cl.append([&]{ trace += "D"; });
    cl(); std::cout << "third: " << trace << " (expect ACXD)\n";
  }
  if (which==2) { // C04 by-value string key include-event
    struct P { using ArgumentPassingMode = ArgumentPassingIncludeEvent; };
    EventDispatcher<std::string, void(std::string, int), P> d;
    int hit=0; std::string seen;
    d.appendListener("hello-this-is-a-long-string-key-beyond-sso", [&](std::string s, int){ ++hit; seen=s; });
    d.dispatch(std::string("hello-this-is-a-long-string-key-beyond-sso"), 1);
    std::cout << "hit="<<hit<<" seen="<<seen<<"\n";
  }
  if (which==3) { // C10 copy-constructed queue on dirty storage
    using Q = EventQueue<int, void(int)>;
    Q src;
    alignas(Q) static unsigned char buf[sizeof(Q)];
    std::memset(buf, 0xAB, sizeof buf);
    Q* q = new (buf) Q(src);
    std::cout << "copied emptyQueue="<<q->emptyQueue()<<" (expect 1)\n";
    std::memset(buf, 0xAB, sizeof buf);
    Q* q2 = new (buf) Q(std::move(src));
    std::cout << "moved emptyQueue="<<q2->emptyQueue()<<" (expect 1)\n";
  }
  if (which==4) { // C14 processIf type confusion
    HeterEventQueue<int, HeterTuple<void(const std::string&), void(int,int,int,int,int,int,int,int)>> q;
    int n=0;
    q.appendListener(1, [&](const std::string&){ ++n; });
    q.appendListener(2, [&](int,int,int,int,int,int,int,int){ ++n; });
    q.enqueue(2, 1,2,3,4,5,6,7,8);
    q.enqueue(1, std::string("a-long-string-that-is-on-the-heap-xxxxxxxxxxxxxxxx"));
    bool r = q.processIf([](const std::string&){ return true; });
    std::cout << "processIf r="<<r<<" n="<<n<<"\n";
    q.process(); std::cout << "n="<<n<<"\n";
  }
  if (which==5) { // C15 move-assign into non-empty remover
    using CL = CallbackList<void()>;
    CL cl; int a=0,b=0;
    {
      ScopedRemover<CL> r1(cl), r2(cl);
      r1.append([&]{++a;}); r2.append([&]{++b;});
      r1 = std::move(r2);
    }
    cl(); std::cout << "a="<<a<<" b="<<b<<" (expect 0 0)\n";
  }
}
