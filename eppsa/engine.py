"""Rule engine: obligations, findings, known findings, evidence, exit codes."""
import importlib
import json
import os
import re
import sys
import time
import traceback
from collections import defaultdict, OrderedDict

from .facts import AnalysisBroken
from . import extract

VERIF = extract.VERIF
KNOWN_FILE = os.path.join(VERIF, 'KNOWN_FINDINGS.txt')


class Ctx:
    def __init__(self, prop, tier, tus, skipped):
        self.prop = prop
        self.tier = tier
        self.tus = tus
        self.skipped = skipped
        self.obligations = []          # dicts
        self.findings = OrderedDict()  # key -> dict
        self.rule_instances = defaultdict(set)   # rule -> set of patterns with a relevant event
        self.notes = []
        self.rules_doc = OrderedDict()
        self.samples = []
        self.extra = {}
        self.deferred_broken = []      # analysis-broken conditions that must not hide violations found by other rules

    # -- rule registration -------------------------------------------------------------
    def rule(self, rid, doc):
        self.rules_doc[rid] = doc

    # -- obligations --------------------------------------------------------------------
    def ob(self, rule, fn, what, ok, detail='', where=None, key_detail=None, tu=None, data=None):
        """Record one evaluated obligation. `fn` is a Fn (or a string naming a non-function subject).
        `key_detail` distinguishes several obligations of one rule in one pattern (stable words, no lines)."""
        if hasattr(fn, 'pattern'):
            pat = fn.pattern()
            inst = fn.q
            w = where or fn.where()
            tul = fn.tu.label()
        else:
            pat = str(fn)
            inst = str(fn)
            w = where or ''
            tul = tu.label() if tu is not None else ''
        o = {'rule': rule, 'pattern': pat, 'inst': inst, 'what': what, 'ok': bool(ok), 'where': w, 'tu': tul}
        if detail:
            o['detail'] = detail
        self.obligations.append(o)
        self.rule_instances[rule].add(pat)
        if not ok:
            key = '%s|%s|%s' % (rule, pat, key_detail if key_detail is not None else what)
            f = self.findings.get(key)
            if f is None:
                f = {'key': key, 'rule': rule, 'pattern': pat, 'what': what, 'where': w, 'detail': detail,
                     'instances': [], 'data': data}
                self.findings[key] = f
            if len(f['instances']) < 6:
                f['instances'].append({'inst': inst, 'tu': tul, 'where': w})
        return ok

    def note(self, msg):
        if msg not in self.notes:
            self.notes.append(msg)

    def sample(self, s):
        if len(self.samples) < 12:
            self.samples.append(s)

    def broken_later(self, msg):
        """Record an analysis-broken condition but let the remaining rules run: if they establish violations those are reported
        (exit 1); otherwise the check ends as analysis broken (exit 2)."""
        if msg not in self.deferred_broken:
            self.deferred_broken.append(msg)

    def require(self, cond, msg):
        if not cond:
            raise AnalysisBroken(msg)

    def require_min(self, rule, n):
        got = len(self.rule_instances.get(rule, ()))
        if got < n:
            raise AnalysisBroken('rule %s matched %d pattern instance(s), fewer than the %d confirmed by reading '
                                 '(anchor renamed or removed? the rule would pass vacuously)' % (rule, got, n))

    # -- helpers -----------------------------------------------------------------------
    def fns(self, skey):
        """All instantiations of pattern `skey` across the analysed units."""
        out = []
        for tu in self.tus:
            out.extend(tu.fns_named(skey))
        return out

    def need_fns(self, skey, line_filter=None):
        fs = self.fns(skey)
        if not fs:
            raise AnalysisBroken('anchor function %s has no instantiation in the analysed units '
                                 '(renamed, removed, or the witness units no longer reach it)' % skey)
        return fs


def load_known():
    known = {}
    fixed = []
    if not os.path.exists(KNOWN_FILE):
        return known, fixed
    for line in open(KNOWN_FILE):
        line = line.strip()
        if not line or line.startswith('#'):
            continue
        m = re.match(r'known:\s+property=(\S+)\s+key=(\S+)\s+(.*)$', line)
        if m:
            known.setdefault(m.group(1), {})[m.group(2)] = m.group(3)
            continue
        m = re.match(r'fixed:\s+property=(\S+)\s+(\S+)\s+(.*)$', line)
        if m:
            fixed.append((m.group(1), m.group(2), m.group(3)))
    return known, fixed


def sanitize(s):
    return re.sub(r'[^A-Za-z0-9_.#-]+', '_', s)[:150]


def run_property(prop, tier='quick', replay=None, quiet=False):
    t0 = time.time()
    seed = int(os.environ.get('VERIF_SEED', '0') or 0)
    mod = importlib.import_module('eppsa.rules.%s' % prop.lower())
    outroot = os.environ.get('EPP_OUT', VERIF)
    outdir = os.path.join(outroot, 'out', prop)
    os.makedirs(outdir, exist_ok=True)
    evpath = os.path.join(outroot, 'evidence', '%s.json' % prop)
    os.makedirs(os.path.dirname(evpath), exist_ok=True)
    status = 0
    ctx = None
    broken = None
    try:
        units = getattr(mod, 'UNITS', None)
        # source-level witnesses that need no extracted facts (programs that must build) are judged first: when the fact
        # extraction itself fails because the same library change breaks a witness unit, the established violation is reported
        # instead of a bare analysis-broken
        if hasattr(mod, 'precheck'):
            ctx = Ctx(prop, tier, [], [])
            mod.precheck(ctx)
        pre = ctx
        ctx = None
        try:
            tus, skipped = extract.load(tier, only_units=units)
        except AnalysisBroken:
            ctx = pre
            raise
        # access specifiers are taken from the witness units: the repository's test units compile the headers with
        # `#define private public`, which would make every internal helper look like a public entry point
        access = {}
        for tu in tus:
            if '/witness/' in tu.unit:
                for f in tu.fns:
                    access.setdefault((f.skey, f.line), f.access)
        for tu in tus:
            if '/witness/' not in tu.unit:
                for f in tu.fns:
                    a = access.get((f.skey, f.line))
                    if a is not None:
                        f.access = a
        if pre is not None:
            ctx = pre
            ctx.tus, ctx.skipped = tus, skipped
        else:
            ctx = Ctx(prop, tier, tus, skipped)
        mod.check(ctx)
        if ctx.deferred_broken:
            broken = '; '.join(ctx.deferred_broken)
    except AnalysisBroken as e:
        broken = str(e)
    except Exception:
        broken = 'internal error in the analysis:\n' + traceback.format_exc()

    known, fixed = load_known()
    known_p = known.get(prop, {})
    violations = []
    known_hits = []
    if ctx is not None:
        for key, f in ctx.findings.items():
            key = key.replace(' ', '_')
            f['key'] = key
            if key in known_p:
                known_hits.append((key, f))
            else:
                violations.append((key, f))

    if not quiet:
        print('eppcheck %s tier=%s repo=%s' % (prop, tier, extract.REPO))
        if ctx is not None:
            print('  units analysed: %d fact files, %d function instantiations; obligations evaluated: %d'
                  % (len(ctx.tus), sum(len(t.fns) for t in ctx.tus), len(ctx.obligations)))
            for rid, doc in ctx.rules_doc.items():
                obs = [o for o in ctx.obligations if o['rule'] == rid]
                bad = [o for o in obs if not o['ok']]
                print('  rule %-10s %4d obligations over %3d pattern(s), %d failing  - %s'
                      % (rid, len(obs), len(ctx.rule_instances.get(rid, ())), len(bad), doc))
            for n in ctx.notes:
                print('  note: ' + n)
    for key, f in known_hits:
        print('KNOWN-FINDING: property=%s %s [%s]' % (prop, known_p[key], key))
    if replay:
        # re-evaluate exactly one recorded finding on the current tree
        try:
            want = json.load(open(replay)).get('key', '').replace(' ', '_')
        except Exception as e:
            print('cannot read replay file %s: %s' % (replay, e))
            return 2
        hit = [(k, f) for k, f in violations + known_hits if k == want]
        if hit:
            k, f = hit[0]
            print('REPRODUCED property=%s key=%s' % (prop, want))
            print('  rule %s in %s (%s): %s' % (f['rule'], f['pattern'], f['where'], f['what']))
            if f.get('detail'):
                for ln in str(f['detail']).splitlines():
                    print('    ' + ln)
            print('VIOLATION property=%s replay=%s' % (prop, replay))
            return 1
        print('NOT-REPRODUCED property=%s key=%s (the rule instance holds on the current tree)' % (prop, want))
        return 2 if broken else 0
    for key, f in violations:
        rp = os.path.join(outdir, sanitize(key) + '.json')
        with open(rp, 'w') as fh:
            json.dump(f, fh, indent=1)
        print('VIOLATION property=%s replay=%s' % (prop, rp))
        print('  rule %s in %s (%s): %s' % (f['rule'], f['pattern'], f['where'], f['what']))
        if f.get('detail'):
            for ln in str(f['detail']).splitlines():
                print('    ' + ln)
        for i in f['instances'][:3]:
            print('    seen in %s  [%s]' % (i['inst'][:160], i['tu']))
    if broken:
        print('ANALYSIS-BROKEN property=%s: %s' % (prop, broken))
        status = 2
    if violations:
        status = 1      # violations that were established stand, even if a later rule could not be evaluated

    # evidence
    wall = time.time() - t0
    ev = {
        'property_id': prop, 'tier': tier, 'seed': seed, 'level': 'other',
        'coverage': {}, 'assumptions': list(getattr(mod, 'ASSUMPTIONS', [])), 'wall_s': round(wall, 2),
        'violations': len(violations),
    }
    cov = ev['coverage']
    if ctx is not None:
        nontrivial = set()
        for o in ctx.obligations:
            nontrivial.add((o['rule'], o['pattern'], o['what']))
        per_rule = {}
        for rid, doc in ctx.rules_doc.items():
            obs = [o for o in ctx.obligations if o['rule'] == rid]
            per_rule[rid] = {'doc': doc, 'obligations': len(obs), 'patterns': sorted(ctx.rule_instances.get(rid, ())),
                             'failing': len([o for o in obs if not o['ok']])}
        samples = list(ctx.samples)
        seen = set()
        for o in ctx.obligations:
            k = (o['rule'], o['pattern'])
            if k in seen:
                continue
            seen.add(k)
            if len(samples) < 14:
                samples.append({k2: o[k2] for k2 in ('rule', 'pattern', 'what', 'ok', 'where', 'tu') if k2 in o})
        cov.update({
            'explanation': getattr(mod, 'EXPLANATION', '') + ' Decided statically from the type-checked AST and CFG of '
                           'every instantiation in the analysed units; no library code is executed.',
            'evaluations': len(ctx.obligations),
            'distinct_nontrivial': len(nontrivial),
            'rule': 'one evaluation = one rule obligation on one function instantiation (or one witness/static_assert); '
                    'distinct_nontrivial = distinct (rule, pattern function, obligation) triples in which the rule '
                    'found a relevant construct to judge',
            'samples': samples,
            'rules': per_rule,
            'fact_files': [t.label() + ' ' + t.std for t in ctx.tus],
            'functions_analysed': sum(len(t.fns) for t in ctx.tus),
            'units_skipped': [list(s) for s in ctx.skipped],
            'known_findings_reproduced': [k for k, _ in known_hits],
            'notes': ctx.notes,
            'exhaustive': False,
        })
        cov.update(ctx.extra)
    if broken:
        cov['analysis_broken'] = broken
        cov.setdefault('explanation', 'analysis broken: ' + broken)
        cov.setdefault('evaluations', 1)
        cov.setdefault('distinct_nontrivial', 0)
    with open(evpath, 'w') as fh:
        json.dump(ev, fh, indent=1)
    if not quiet:
        print('  result: %s  (%.1fs)  evidence: %s' % ({0: 'PASS', 1: 'VIOLATION', 2: 'ANALYSIS BROKEN'}[status], wall, evpath))
    return status
