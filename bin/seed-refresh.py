#!/usr/bin/env python3
"""Re-runs the checks against every seeded change (scratch copies via bin/mutcheck) and refreshes meta.json 'checks'/'detected'."""
import glob, json, os, subprocess, sys
from concurrent.futures import ThreadPoolExecutor
V = os.path.dirname(os.path.dirname(os.path.abspath(__file__)))


def one(meta):
    d = json.load(open(meta))
    props = sorted(set(list(d.get('checks', {})) + [d['breaks_property']]))
    r = subprocess.run([os.path.join(V, 'bin', 'mutcheck'), '--patch', os.path.join(os.path.dirname(meta), 'patch.diff'), '--props', ','.join(props)],
                       stdout=subprocess.PIPE, stderr=subprocess.STDOUT, text=True)
    det = {}
    cur = None
    for l in r.stdout.splitlines():
        if l.startswith('== '):
            cur = l.split()[1]
            det[cur] = {'exit': int(l.split('exit=')[1]), 'violations': []}
        elif 'VIOLATION' in l and cur:
            det[cur]['violations'].append(l.strip().split('/')[-1])
    d['checks'] = det
    d['detected'] = any(v['exit'] == 1 for v in det.values())
    d['detected_by_own_property'] = det.get(d['breaks_property'], {}).get('exit') == 1
    json.dump(d, open(meta, 'w'), indent=1)
    return d['id'], d['detected'], d['detected_by_own_property']


metas = sorted(glob.glob(os.path.join(V, 'seeded', '*', 'meta.json')))
if len(sys.argv) > 1:
    metas = [m for m in metas if any(a in m for a in sys.argv[1:])]
with ThreadPoolExecutor(max_workers=int(os.environ.get('SEED_JOBS', '6'))) as ex:
    for r in ex.map(one, metas):
        print(r)
