"""A11 boolean-formula extraction for small side-effect-free functions.

`formula(fn)` symbolically evaluates the CFG of a loop-free function returning bool and yields a
formula tree:  ('and',a,b) ('or',a,b) ('not',a) ('const',bool) ('atom', text)
Library callees that are themselves small pure functions are inlined (receiver/parameter
substitution), everything else becomes an atom named by its normalised access path / operator.
"""
import itertools

from .facts import AnalysisBroken, short
from .paths import path, pstr

MAX_PATHS = 4096

IGNORED_ARG_TYPES = ('std::memory_order',)


class Unsupported(Exception):
    pass


def term(fn, n, env, depth=0):
    """Canonical text of a (non-boolean) term."""
    n = fn.strip_all_casts(n)
    o = fn.nodes[n]
    c = o['cls']
    if c == 'IntegerLiteral':
        return str(o.get('value'))
    if c == 'CXXBoolLiteralExpr':
        return 'true' if o.get('value') else 'false'
    if c == 'CXXNullPtrLiteralExpr':
        return 'nullptr'
    if c == 'DeclRefExpr':
        d = fn.decl(n)
        if d['kind'] == 'enumc':
            return str(d.get('value'))
        if d['kind'] in ('parm', 'var'):
            if d['id'] in env:
                return env[d['id']]
            if d['kind'] == 'parm' and d['id'] in getattr(fn, 'param_subst', {}):
                of, an = fn.param_subst[d['id']]        # collapsed forwarder: the parameter is a member of the object (facts.TU._collapse_forwarders)
                return term(of, an, {}, depth + 1)
            if d['kind'] == 'var':
                fv = fn.var_decl_any(d['id'])
                vt = fn.tu.type(d['t'])
                if fv and fv[1].get('init') and vt and vt.get('ref') and depth < 30:
                    return term(fv[0], fv[1]['init'], env if fv[0] is fn else {}, depth + 1)      # a local reference is another name of its initialiser
            return d['name']
    if 'cv' in o and c not in ('CXXMemberCallExpr', 'CallExpr', 'CXXOperatorCallExpr'):
        return str(o['cv'])
    if c == 'CXXThisExpr':
        return env.get('this', 'this')
    if c == 'LambdaExpr':
        return '<lambda>'
    if c == 'MemberExpr':
        d = fn.decl(n)
        b = term(fn, fn.kids(n)[0], env, depth + 1) if fn.kids(n) else '?'
        if b == 'this':
            return d['name']
        return b + '.' + d['name']
    if c in ('CXXMemberCallExpr', 'CXXOperatorCallExpr', 'CallExpr'):
        cal = fn.callee(n)
        if cal is None:
            raise Unsupported('indirect call at %s' % fn.nloc(n))
        args = []
        for a in fn.call_args(n):
            t = fn.ntype(a)
            if t and any(x in t['s'] for x in IGNORED_ARG_TYPES):
                continue
            if fn.nodes[a]['cls'] == 'CXXDefaultArgExpr':
                continue
            args.append(term(fn, a, env, depth + 1))
        obj = o.get('obj')
        name = cal['name']
        if obj:
            b = term(fn, obj, env, depth + 1)
            if o['cls'] == 'CXXOperatorCallExpr' and o.get('op') in ('->', '*') and not args:
                return b
            if name.startswith('operator ') and not args:   # conversion operator
                return b
            if b == 'this':
                return '%s(%s)' % (name, ','.join(args))
            return '%s.%s(%s)' % (b, name, ','.join(args))
        k = short(cal['key'])
        if k in ('std::move', 'std::forward') and len(args) == 1:
            return args[0]
        return '%s(%s)' % (k, ','.join(args))
    if c in ('CXXConstructExpr', 'CXXTemporaryObjectExpr'):
        a = o.get('args', [])
        if len(a) == 1:
            return term(fn, a[0], env, depth + 1)
        cal = fn.callee(n)
        return '%s(%s)' % (short(cal['cls']) if cal else '?', ','.join(term(fn, x, env, depth + 1) for x in a))
    if c == 'UnaryOperator':
        return '%s(%s)' % (o.get('op'), term(fn, fn.kids(n)[0], env, depth + 1))
    if c == 'BinaryOperator':
        ks = fn.kids(n)
        return '(%s %s %s)' % (term(fn, ks[0], env, depth + 1), o.get('op'), term(fn, ks[1], env, depth + 1))
    raise Unsupported('term %s at %s' % (c, fn.nloc(n)))


CMP_FLIP = {'<': '>', '>': '<', '<=': '>=', '>=': '<=', '==': '==', '!=': '!='}


def mk_cmp(op, a, b):
    """Normalise comparisons: '!=' -> not '=='; '>' -> swapped '<'; '>=' -> not '<'; '<=' -> not swapped '<'."""
    if op == '!=':
        return ('not', mk_cmp('==', a, b))
    if op == '==':
        x, y = sorted([a, b])
        return ('atom', '%s == %s' % (x, y))
    if op == '<':
        return ('atom', '%s < %s' % (a, b))
    if op == '>':
        return ('atom', '%s < %s' % (b, a))
    if op == '>=':
        return ('not', ('atom', '%s < %s' % (a, b)))
    if op == '<=':
        return ('not', ('atom', '%s < %s' % (b, a)))
    raise Unsupported('comparison ' + op)


def boolexpr(fn, n, env, inline, depth=0):
    """Formula of a boolean-valued expression node."""
    if depth > 30:
        raise Unsupported('too deep')
    n = fn.strip_all_casts(n)
    o = fn.nodes[n]
    c = o['cls']
    if c == 'CXXBoolLiteralExpr':
        return ('const', bool(o.get('value')))
    if c == 'IntegerLiteral':
        return ('const', bool(o.get('value')))
    if c == 'UnaryOperator' and o.get('op') == '!':
        return ('not', boolexpr(fn, fn.kids(n)[0], env, inline, depth + 1))
    if c == 'BinaryOperator':
        op = o.get('op')
        ks = fn.kids(n)
        if op == '&&':
            return ('and', boolexpr(fn, ks[0], env, inline, depth + 1), boolexpr(fn, ks[1], env, inline, depth + 1))
        if op == '||':
            return ('or', boolexpr(fn, ks[0], env, inline, depth + 1), boolexpr(fn, ks[1], env, inline, depth + 1))
        if op in CMP_FLIP:
            return mk_cmp(op, term(fn, ks[0], env), term(fn, ks[1], env))
        if op == ',':
            return boolexpr(fn, ks[1], env, inline, depth + 1)
    if c == 'CXXOperatorCallExpr' and o.get('op') in CMP_FLIP:
        a = o.get('args', [])
        if len(a) == 2:
            cal = fn.callee(n)
            fs = fn.callee_fns(n)
            if fs and inline:
                return inline_call(fn, n, fs[0], env, inline, depth)
            return mk_cmp(o.get('op'), term(fn, a[0], env), term(fn, a[1], env))
    if c in ('CXXMemberCallExpr', 'CallExpr', 'CXXOperatorCallExpr'):
        fs = fn.callee_fns(n)
        if fs and inline:
            return inline_call(fn, n, fs[0], env, inline, depth)
        return ('atom', term(fn, n, env))
    if c == 'DeclRefExpr':
        d = fn.decl(n)
        # a local bool that carries the result (`bool r = false; if(c) r = x; return r;`): its value on this path (see formula())
        if d.get('kind') == 'var' and d.get('id') in env.get('__bool__', {}):
            return env['__bool__'][d['id']]
        # a local `const bool x = <expr>;` stands for its initialiser (it cannot change afterwards)
        if d.get('kind') == 'var' and d.get('id') not in env:
            vd = fn.var_decls().get(d['id'])
            vt = fn.tu.type(vd['t']) if vd else None
            if vd and vd.get('init') and vt and vt.get('const') and not vt.get('ref') and vt.get('s', '').replace('const ', '').strip() == 'bool':
                return boolexpr(fn, vd['init'], env, inline, depth + 1)
    if c == 'DeclRefExpr' or c == 'MemberExpr':
        return ('atom', term(fn, n, env))
    if c == 'ConditionalOperator':
        ks = fn.kids(n)
        cnd = boolexpr(fn, ks[0], env, inline, depth + 1)
        return ('or', ('and', cnd, boolexpr(fn, ks[1], env, inline, depth + 1)),
                ('and', ('not', cnd), boolexpr(fn, ks[2], env, inline, depth + 1)))
    # pointer / smart pointer in boolean context
    return ('atom', term(fn, n, env))


def inline_call(fn, n, callee_fn, env, inline, depth):
    o = fn.nodes[n]
    cenv = {}
    obj = o.get('obj')
    if obj:
        cenv['this'] = term(fn, obj, env)
    args = fn.call_args(n)
    for p, a in zip(callee_fn.params, args):
        if fn.nodes[a]['cls'] == 'CXXDefaultArgExpr':
            continue
        cenv[p['id']] = term(fn, a, env)
    return formula(callee_fn, cenv, inline, depth + 1)


def formula(fn, env=None, inline=True, depth=0):
    """Formula of the boolean result of loop-free function `fn`."""
    env0 = dict(env or {})
    env0.pop('__bool__', None)
    if depth > 12:
        raise Unsupported('inlining too deep at %s' % fn.skey)
    # path enumeration over the CFG; each block's terminator condition is a boolean expression
    results = []
    count = [0]

    def is_plain_bool(tidx):
        t = fn.tu.type(tidx)
        return bool(t) and not t.get('ref') and t.get('ptr') is None and t.get('s', '').strip() == 'bool'

    def walk(b, conds, visited, benv=None):
        benv = dict(benv or {})
        env = dict(env0)
        env['__bool__'] = benv
        count[0] += 1
        if count[0] > MAX_PATHS:
            raise Unsupported('too many paths in %s' % fn.skey)
        if b in visited:
            raise Unsupported('loop in %s' % fn.skey)
        blk = fn.blocks[b]
        # return statement in this block?
        for e in blk['elems']:
            if e['k'] != 'stmt' or not e.get('n'):
                continue
            eo = fn.nodes[e['n']]
            if eo['cls'] == 'DeclStmt':
                # single-exit style: a non-const local bool carries the result along the path
                for v in eo.get('decls', []):
                    if is_plain_bool(v['t']) and v.get('init'):
                        benv[v['id']] = boolexpr(fn, v['init'], env, inline, 0)
            elif eo['cls'] == 'BinaryOperator' and eo.get('op') == '=':
                ks = fn.kids(e['n'])
                lhs = fn.strip_all_casts(ks[0])
                if fn.nodes[lhs]['cls'] == 'DeclRefExpr' and (fn.decl(lhs) or {}).get('kind') == 'var' and fn.decl(lhs)['id'] in benv:
                    benv[fn.decl(lhs)['id']] = boolexpr(fn, ks[1], env, inline, 0)
            if fn.nodes[e['n']]['cls'] == 'ReturnStmt':
                ks = fn.kids(e['n'])
                if not ks:
                    raise Unsupported('void return in %s' % fn.skey)
                val = boolexpr(fn, ks[0], env, inline, 0)
                results.append((list(conds), val))
                return
        succ = blk['succ']
        if b == fn.exit:
            return
        tc = blk.get('termcls')
        if len(succ) == 2 and blk.get('cond') and tc in ('IfStmt', 'ConditionalOperator', 'BinaryOperator'):
            # short-circuit operators are branches on their left operand (succ[0] = operand true)
            cnd = boolexpr(fn, blk['cond'], env, inline, 0)
            if succ[0] is not None:
                walk(succ[0], conds + [cnd], visited | {b}, benv)
            if succ[1] is not None:
                walk(succ[1], conds + [('not', cnd)], visited | {b}, benv)
        elif len(succ) == 2 and tc == 'CXXBindTemporaryExpr':
            # conditional destruction of a temporary: both edges rejoin, neither constrains the result
            for s_ in succ:
                if s_ is not None:
                    walk(s_, conds, visited | {b}, benv)
        elif len(succ) == 1:
            if succ[0] is not None:
                walk(succ[0], conds, visited | {b}, benv)
        elif len(succ) == 0:
            return
        else:
            raise Unsupported('terminator %s in %s' % (tc, fn.skey))

    walk(fn.entry, [], frozenset())
    if not results:
        raise Unsupported('no boolean return in %s' % fn.skey)
    f = None
    for conds, val in results:
        t = val
        for cnd in reversed(conds):
            t = ('and', cnd, t)
        f = t if f is None else ('or', f, t)
    return f


def atoms(f, acc=None):
    acc = acc if acc is not None else []
    if f[0] == 'atom':
        if f[1] not in acc:
            acc.append(f[1])
    elif f[0] in ('and', 'or'):
        atoms(f[1], acc)
        atoms(f[2], acc)
    elif f[0] == 'not':
        atoms(f[1], acc)
    return acc


def evaluate(f, val):
    k = f[0]
    if k == 'const':
        return f[1]
    if k == 'atom':
        return val[f[1]]
    if k == 'not':
        return not evaluate(f[1], val)
    if k == 'and':
        return evaluate(f[1], val) and evaluate(f[2], val)
    if k == 'or':
        return evaluate(f[1], val) or evaluate(f[2], val)
    raise ValueError(k)


def show(f):
    k = f[0]
    if k == 'const':
        return 'true' if f[1] else 'false'
    if k == 'atom':
        return '[' + f[1] + ']'
    if k == 'not':
        return '!' + show(f[1])
    return '(' + show(f[1]) + (' && ' if k == 'and' else ' || ') + show(f[2]) + ')'


def equivalent(f, g, names=None):
    """Truth-table equivalence over the union of atoms. Returns (bool, counterexample or None)."""
    A = atoms(f)
    for a in atoms(g):
        if a not in A:
            A.append(a)
    for bits in itertools.product([False, True], repeat=len(A)):
        val = dict(zip(A, bits))
        if evaluate(f, val) != evaluate(g, val):
            return False, val
    return True, None
