"""A2 events: reads / writes / calls over access paths, user-code classification, fault points."""
from .facts import short, MOVE_LIKE
from .paths import path, pstr, last_field

ASSIGN_OPS = {'=', '+=', '-=', '*=', '/=', '|=', '&=', '^=', '<<=', '>>=', '%='}
INCDEC = {'++', '--'}


def writes(fn):
    """List of write events in fn: dict(node, path, how, pos).
    how: 'assign' | '++' | '--' | 'call:<method>' (non-const member call) | 'arg:<callee>' (bound to a
    non-const reference parameter) | 'guard' (CounterGuard over the path)."""
    out = []
    for n, o in fn.nodes.items():
        c = o['cls']
        if c == 'BinaryOperator' or c == 'CompoundAssignOperator':
            if o.get('op') in ASSIGN_OPS:
                out.append({'node': n, 'path': path(fn, fn.kids(n)[0]), 'how': 'assign' if o.get('op') == '=' else o.get('op'), 'rhs': fn.kids(n)[1]})
        elif c == 'UnaryOperator' and o.get('op') in INCDEC:
            out.append({'node': n, 'path': path(fn, fn.kids(n)[0]), 'how': o.get('op'), 'postfix': o.get('postfix')})
        elif c == 'CXXOperatorCallExpr':
            op = o.get('op')
            a = o.get('args', [])
            if op in ASSIGN_OPS and a:
                out.append({'node': n, 'path': path(fn, a[0]), 'how': 'assign' if op == '=' else op, 'rhs': a[1] if len(a) > 1 else None})
            elif op in INCDEC and a:
                out.append({'node': n, 'path': path(fn, a[0]), 'how': op, 'postfix': len(a) > 1})
            elif o.get('obj'):
                cal = fn.callee(n)
                if cal and cal.get('method') and not cal.get('const') and op not in ('->', '*', '()', '[]'):
                    out.append({'node': n, 'path': path(fn, o['obj']), 'how': 'call:operator' + op})
        elif c == 'CXXMemberCallExpr':
            cal = fn.callee(n)
            obj = o.get('obj')
            if cal and obj and not cal.get('const') and not cal.get('static'):
                out.append({'node': n, 'path': path(fn, obj), 'how': 'call:' + cal['name']})
        if c in ('CallExpr', 'CXXMemberCallExpr', 'CXXOperatorCallExpr', 'CXXConstructExpr', 'CXXTemporaryObjectExpr'):
            cal = fn.callee(n)
            if cal:
                args = fn.call_args(n) if c not in ('CXXConstructExpr', 'CXXTemporaryObjectExpr') else o.get('args', [])
                k = short(cal['key'])
                if k in MOVE_LIKE:
                    continue
                scls = short(cal.get('cls', ''))
                if cal.get('ctor') and scls in fn.tu.counter_guard_classes() and args:
                    # a counter guard of the library (whatever its name): the write is to the counter it reaches from its argument
                    out.append({'node': n, 'path': fn.tu.guard_counter_path(scls, path(fn, args[0])), 'how': 'guard', 'argnode': args[0]})
                    continue
                for p, a in zip(cal['params'], args):
                    if p['pass'] == 'lref':
                        how = 'guard' if (scls == 'CounterGuard' or (cal.get('ctor') and scls in fn.tu.counter_guard_classes())) else 'arg:' + k
                        out.append({'node': n, 'path': path(fn, a), 'how': how, 'argnode': a})
    for w in out:
        w['pos'] = fn.pos(w['node'])
    return out


def field_refs(fn, field):
    """All MemberExpr nodes naming field `field` (any base)."""
    out = []
    for n, o in fn.nodes.items():
        if o['cls'] == 'MemberExpr':
            d = fn.decl(n)
            if d['kind'] == 'field' and d['name'] == field:
                out.append(n)
    return out


def fields_read_transitively(fn, cls_fields=None, depth=0, seen=None):
    """Names of data members (of any library class) referenced in fn and its library callees."""
    seen = seen if seen is not None else set()
    if fn.id in seen or depth > 10:
        return set()
    seen.add(fn.id)
    out = set()
    for n, o in fn.nodes.items():
        if o['cls'] == 'MemberExpr':
            d = fn.decl(n)
            if d['kind'] == 'field':
                out.add(d['name'])
        if fn.is_call(n) or fn.is_construct(n):
            for g in fn.callee_fns(n):
                out |= fields_read_transitively(g, cls_fields, depth + 1, seen)
    return out


# --------------------------------------------------------------------------------------------
# user code / fault classification (A6)

USER_INVOKE = 'user-invoke'     # runs a user callable (callback, listener, filter, predicate, policy function)
USER_COPY = 'user-copy'         # constructs / assigns / compares / hashes a user object
USER_DESTROY = 'user-destroy'   # destroys a user object (destructors are noexcept unless the user says otherwise)
ALLOC = 'alloc'                 # may allocate memory
NOFAULT = 'nofault'
UNKNOWN = 'unknown'

LOCK_METHODS = {'lock', 'unlock', 'try_lock'}
# operations of user-supplied threading-policy primitives (Mutex, ConditionVariable, Atomic): part of the policy contract, not
# callbacks/listeners/predicates; like std::mutex / std::condition_variable / std::atomic they are outside the exception model
POLICY_PRIMITIVE_METHODS = {'wait', 'wait_for', 'wait_until', 'notify_one', 'notify_all', 'load', 'store', 'exchange',
                            'fetch_add', 'fetch_sub', 'operator++', 'operator--', 'test_and_set', 'clear'}

# standard-library callees by (short key prefix) -> effect set. Frozen after reading the call sites.
STD_NOFAULT_PREFIX = (
    'std::move', 'std::forward', 'std::get', 'std::addressof', 'std::swap', 'std::static_pointer_cast',
    'std::shared_ptr::operator', 'std::shared_ptr::get', 'std::shared_ptr::reset', 'std::shared_ptr::shared_ptr',
    'std::shared_ptr::~', 'std::shared_ptr::swap', 'std::__shared_ptr',
    'std::weak_ptr::', 'std::__weak_ptr', 'std::operator==', 'std::operator!=',
    'std::list::splice', 'std::list::swap', 'std::list::empty', 'std::list::begin', 'std::list::end', 'std::list::front',
    'std::list::back', 'std::list::size', 'std::list::list', 'std::list::~list',
    'std::_List_iterator', 'std::_List_const_iterator', 'std::__detail', 'std::_Rb_tree_iterator', 'std::_Rb_tree_const_iterator',
    'std::__atomic_base', 'std::atomic', 'std::atomic_flag', 'std::mutex', 'std::lock_guard', 'std::unique_lock', 'std::scoped_lock',
    'std::condition_variable', 'std::array', 'std::tuple_size', 'std::chrono', 'std::__get_helper',
    'std::unordered_map::end', 'std::map::end', 'std::unordered_map::begin', 'std::map::begin',
    'std::vector::begin', 'std::vector::end', 'std::vector::clear', 'std::vector::vector', 'std::vector::~vector',
    'std::vector::operator=',   # only move assignment is used (checked by rule C15)
    'std::__normal_iterator', '__gnu_cxx::__normal_iterator', '__gnu_cxx::operator',
    'std::unique_ptr', 'std::pair::pair', 'std::function::operator bool', 'std::function::function',
    'std::function::~function', 'std::exchange', 'std::declval', 'std::integral_constant',
    'std::initializer_list', 'std::is_', 'std::default_delete', 'std::tuple::tuple', 'std::tuple::~tuple',
    'std::_Tuple_impl', 'std::_Head_base', 'std::hash', 'std::less', 'std::equal_to', 'std::allocator',
    'std::basic_string', 'std::operator<', 'std::char_traits', 'std::to_string', 'std::max', 'std::min',
)
STD_ALLOC_PREFIX = (
    'std::make_shared', 'std::allocate_shared', 'std::list::emplace_back', 'std::list::push_back', 'std::list::emplace_front',
    'std::list::insert', 'std::list::emplace', 'std::vector::push_back', 'std::vector::emplace_back', 'std::vector::insert',
    'std::map::operator[]', 'std::unordered_map::operator[]', 'std::map::map', 'std::unordered_map::unordered_map',
    'std::map::operator=', 'std::unordered_map::operator=', 'std::list::operator=', 'std::list::sort',
    'std::function::operator=', 'std::make_unique', 'std::vector::reserve', 'std::vector::resize',
)
STD_USERCOPY_PREFIX = (
    'std::map::find', 'std::unordered_map::find', 'std::find_if', 'std::vector::erase',
)


STD_ALGORITHMS_WITH_CALLABLE = ('std::for_each', 'std::find_if', 'std::find_if_not', 'std::any_of', 'std::all_of', 'std::none_of', 'std::count_if')


def _starts(k, prefixes):
    return any(k.startswith(p) for p in prefixes)


def classify_callee(fn, n):
    """Effect classes of the call/construct node n *itself* (not through library callee bodies).
    Returns (set of effects, description)."""
    o = fn.nodes[n]
    cal = fn.callee(n)
    if cal is None:
        # indirect call through a pointer / callable of unknown static target
        ce = o.get('calleeExpr')
        p = path(fn, ce) if ce else ('?',)
        lf = last_field(p)
        if lf in ('dtor', 'free', 'deleter'):
            return {USER_DESTROY}, 'indirect:' + pstr(p)
        if lf in ('moveConstruct',):
            return {USER_COPY}, 'indirect:' + pstr(p)
        if lf == 'dispatcher':
            return {USER_INVOKE, ALLOC}, 'indirect:' + pstr(p)
        return {USER_INVOKE, ALLOC}, 'indirect:' + pstr(p)
    k = short(cal['key'])
    is_ctor = fn.is_construct(n)
    if cal.get('lib'):
        if cal.get('fid', -1) >= 0 or cal.get('virt'):
            return {'lib'}, k
        # library function without body in this TU (defaulted / trivial)
        return {NOFAULT}, k
    if not cal.get('sys'):
        # user code in the analysed unit (witness policies, listeners, predicates)
        if cal['name'] in LOCK_METHODS and not cal['params']:
            return {NOFAULT}, k
        if cal['name'] in POLICY_PRIMITIVE_METHODS and cal.get('method'):
            return {NOFAULT}, k
        # compiler-generated moves of a user policy type (e.g. a Map derived from a standard container) move their members;
        # the library's noexcept moves presuppose exactly that these do not throw
        if (cal.get('ctor') in ('move', 'default') or cal.get('assign') == 'move') and (cal.get('implicit') or cal.get('defaulted')):
            return {NOFAULT}, k      # ('default': threading-policy primitives are default-constructed like std::mutex / std::condition_variable)
        if cal.get('dtor'):
            return {USER_DESTROY}, k
        if is_ctor or cal.get('assign') or cal['name'] in ('operator==', 'operator<', 'operator!='):
            return {USER_COPY}, k
        return {USER_INVOKE, ALLOC}, k
    # standard library
    if k.startswith('std::function::operator()') or k == 'std::function::operator()':
        return {USER_INVOKE, ALLOC}, k
    if k.startswith('std::function::function'):
        # copying / wrapping a callable allocates and copies user state unless it is the default/move/nullptr form
        if cal.get('ctor') in ('default', 'move'):
            return {NOFAULT}, k
        args = o.get('args', [])
        if args:
            t = fn.ntype(args[0])
            if t and 'nullptr' in t['s']:
                return {NOFAULT}, k
        return {ALLOC, USER_COPY}, k
    if k.startswith('std::tuple::tuple') or k.startswith('std::pair::pair') or k.startswith('std::_Tuple_impl'):
        if cal.get('ctor') in ('default',):
            return {NOFAULT}, k
        return {USER_COPY}, k
    if k.startswith('std::basic_string::basic_string'):
        if cal.get('ctor') in ('default', 'move'):
            return {NOFAULT}, k
        return {ALLOC}, k
    if k.startswith('std::list::sort'):
        return {USER_INVOKE}, k     # runs the comparator
    # moving a standard container steals its storage (same allocator): no allocation, no element copy
    if k.startswith(('std::map::', 'std::unordered_map::', 'std::list::', 'std::vector::', 'std::array::')) and \
            (cal.get('ctor') == 'move' or cal.get('assign') == 'move'):
        return {NOFAULT}, k
    if cal.get('nothrow') and not k.startswith('std::make_shared'):
        return {NOFAULT}, k
    if _starts(k, STD_ALLOC_PREFIX):
        eff = {ALLOC}
        if 'map' in k:
            eff.add(USER_COPY)
        if 'make_shared' in k or 'push_back' in k or 'emplace' in k:
            eff.add(USER_COPY)
        return eff, k
    if _starts(k, STD_USERCOPY_PREFIX):
        return {USER_COPY}, k
    if cal.get('nothrow'):
        return {NOFAULT}, k
    if _starts(k, STD_NOFAULT_PREFIX):
        return {NOFAULT}, k
    if k.startswith('operator new'):
        return {ALLOC}, k
    return {UNKNOWN}, k


class Summaries:
    """Bottom-up effect summaries over the library call graph of one TU."""

    def __init__(self, tu):
        self.tu = tu
        self._eff = {}
        self._stack = set()

    def effects(self, fn):
        """Transitive effect set of calling fn: subset of {USER_INVOKE, USER_COPY, ALLOC, UNKNOWN}."""
        if fn.id in self._eff:
            return self._eff[fn.id]
        if fn.id in self._stack:
            return set()
        self._stack.add(fn.id)
        eff = set()
        for n in fn.nodes:
            if fn.is_call(n) or fn.is_construct(n):
                eff |= self.node_effects(fn, n)
        # implicit destructor calls in the CFG
        for b in fn.blocks.values():
            for e in b['elems']:
                if e['k'] in ('autodtor', 'tempdtor', 'memberdtor', 'basedtor') and 'c' in e:
                    eff |= self.decl_effects(fn, e['c'])
        self._stack.discard(fn.id)
        self._eff[fn.id] = eff
        return eff

    def decl_effects(self, fn, declidx):
        d = fn.tu.decls[declidx]
        fid = d.get('fid', -1)
        if d.get('lib') and fid >= 0 and fid in fn.tu.by_id:
            return set(self.effects(fn.tu.by_id[fid]))
        if not d.get('lib') and not d.get('sys') and d.get('dtor'):
            return {USER_DESTROY}
        return set()

    def node_effects(self, fn, n):
        eff, _ = classify_callee(fn, n)
        out = set()
        if 'lib' in eff:
            for g in fn.callee_fns(n):
                out |= self.effects(g)
            # virtual dispatch inside the library
            cal = fn.callee(n)
            if cal and cal.get('virt'):
                for g in self.tu.fns:
                    if g.name == cal['name'] and g.d.get('virtual') and g.id != cal.get('fid'):
                        out |= self.effects(g)
        else:
            out |= (eff - {NOFAULT})
        # a lambda passed as argument runs inside the callee: handled because the callee body calls it directly. A standard algorithm
        # has no body here: it runs its callable argument in place, so the call has the effects of that callable's body
        cal = fn.callee(n)
        if cal and cal.get('sys') and short(cal.get('key', '')) in STD_ALGORITHMS_WITH_CALLABLE:
            for a in fn.call_args(n):
                t = fn.ntype(a)
                if not t or not (t.get('rec') or (self.tu.type(t.get('base')) or {}).get('rec')):
                    continue
                g = fn.functor_body(a)
                if g is not None:
                    out.discard(UNKNOWN)
                    out |= self.effects(g)
        return out
