"""Helpers shared by the queue rules (C05, C06, C07, C08, C11, C13)."""
from ..facts import short, AnalysisBroken
from ..paths import path, pstr, last_field, root_var_id, fields_in
from ..locks import ScopeInfo, mutex_name
from ..effects import writes, Summaries, USER_INVOKE, USER_COPY, ALLOC

QUEUES = ('EventQueueBase', 'HeterEventQueueBase')
LIST_FIELDS = ('queueList', 'freeList')
MUTEX_OF = {'queueList': 'queueListMutex', 'freeList': 'freeListMutex'}
SLOT_CLASSES = ('BufferedItem', 'BufferedUnion')
READ_METHODS = {'begin', 'end', 'front', 'back', 'empty', 'size', 'cbegin', 'cend'}
ADD_METHODS = {'splice', 'emplace_back', 'push_back', 'emplace_front', 'push_front', 'insert', 'emplace', 'merge'}
REMOVE_METHODS = {'clear', 'pop_front', 'pop_back', 'erase', 'remove', 'remove_if'}
LIFETIME = ('ctor', 'dtor')



def queue_of(fn):
    k = fn.outermost().skey
    for q in QUEUES:
        if k.startswith(q + '::'):
            return q
    return None


def is_lifetime(fn):
    o = fn.outermost()
    return o.kind in LIFETIME or o.name == 'operator=' or o.name == 'swap'


class TUInfo:
    """Per-TU caches."""

    def __init__(self, tu):
        self.tu = tu
        self._scopes = {}
        self.summ = Summaries(tu)
        self._writes = {}

    def scopes(self, fn):
        if fn.id not in self._scopes:
            self._scopes[fn.id] = ScopeInfo(fn)
        return self._scopes[fn.id]

    def writes(self, fn):
        if fn.id not in self._writes:
            self._writes[fn.id] = writes(fn)
        return self._writes[fn.id]

    def members(self, q):
        return [f for f in self.tu.fns if queue_of(f) == q]

    # ---- locks held at entry of internal helpers (A4/A5) --------------------------------------
    def entry_locks(self, fn, must=True, _stack=None):
        """Mutex paths (relative to the callee's `this`) held at entry: intersection (must) or union (may) over all
        library call sites. Public functions and functions without library callers start with nothing held."""
        key = (fn.id, must)
        if not hasattr(self, '_entry'):
            self._entry = {}
        if key in self._entry:
            return self._entry[key]
        _stack = _stack or set()
        if fn.id in _stack:
            return frozenset()
        callers = self.tu.callers().get(fn.id, [])
        if fn.access == 'public' and must and fn.kind != 'lambda':
            self._entry[key] = frozenset()
            return self._entry[key]
        res = None
        if fn.kind == 'lambda':
            # a closure runs where it is invoked: inside a library helper that received it (`withLock(mutex, [&]{...})`), or inside a standard
            # algorithm called by the function that wrote it. What is held there, expressed in the closure's own frame (its `this` is the
            # enclosing object): locks of the helper on its parameters are the arguments of the helper's call; plus what the writer holds
            sites = self.closure_sites(fn)
            if sites:
                for (P, cn, g, inv) in sites:
                    sp = self.scopes(P)
                    held = set(sp.held_must(P.pos(cn), 'lock') if must else sp.held_may(P.pos(cn), 'lock'))
                    held |= set(self.entry_locks(P, must, _stack | {fn.id}))
                    if g is not None:
                        sg = self.scopes(g)
                        gh = set(sg.held_must(g.pos(inv), 'lock') if must else sg.held_may(g.pos(inv), 'lock'))
                        pidx = {pp['id']: i for i, pp in enumerate(g.params)}
                        args = P.call_args(cn)
                        for m in gh:
                            vid = root_var_id(m)
                            if vid is not None and vid in pidx and pidx[vid] < len(args):
                                held.add(tuple(path(P, args[pidx[vid]])) + tuple(m[1:]))
                    if res is None:
                        res = set(held)
                    elif must:
                        res &= held
                    else:
                        res |= held
                res = frozenset(res or ())
                self._entry[key] = res
                return res
        for (g, n) in callers:
            si = self.scopes(g)
            pos = g.pos(n)
            held = set(si.held_must(pos, 'lock') if must else si.held_may(pos, 'lock'))
            held |= set(self.entry_locks(g, must, _stack | {fn.id}))
            obj = g.nodes[n].get('obj')
            recv = path(g, obj) if obj else ('this',)
            mapped = set()
            for m in held:
                if tuple(m[:len(recv)]) == tuple(recv):
                    mapped.add(('this',) + tuple(m[len(recv):]))
                elif not must:
                    mapped.add(('caller',) + tuple(m[1:]))     # held by the caller on another object: kept for may-analyses
            if res is None:
                res = mapped
            elif must:
                res &= mapped
            else:
                res |= mapped
        res = frozenset(res or ())
        self._entry[key] = res
        return res

    def closure_sites(self, fn):
        """Where the closure fn runs: [(writer function P, call node in P that receives the lambda expression, library helper g with a body
        (or None for a standard algorithm), node in g that invokes its closure parameter)]. Empty when the lambda is stored or its use
        cannot be followed."""
        P = fn.parent_fn()
        if P is None:
            return []
        lam = [n for n, o in P.nodes.items() if o['cls'] == 'LambdaExpr' and o.get('fid') == fn.id]
        if len(lam) != 1:
            return []
        out = []
        for cn in P.calls():
            args = P.call_args(cn)
            ks = [i for i, a in enumerate(args) if P.value_source(a) == lam[0]]
            if not ks:
                continue
            cal = P.callee(cn) or {}
            from ..effects import STD_ALGORITHMS_WITH_CALLABLE
            if cal.get('sys') and short(cal.get('key', '')) in STD_ALGORITHMS_WITH_CALLABLE:
                out.append((P, cn, None, None))
                continue
            gs = P.callee_fns(cn)
            if len(gs) != 1 or ks[0] >= len(gs[0].params):
                return []
            g = gs[0]
            fid = g.params[ks[0]]['id']
            inv = [m for m in g.calls() if g.nodes[m]['cls'] == 'CXXOperatorCallExpr' and g.nodes[m].get('op') == '()' and g.nodes[m].get('obj') is not None
                   and root_var_id(path(g, g.value_source(g.nodes[m]['obj']), resolve_refs=False)) == fid]
            if not inv:
                return []
            for m in inv:
                out.append((P, cn, g, m))
        return out

    def held_names(self, fn, pos, must=True):
        si = self.scopes(fn)
        ps = set(si.held_must(pos, 'lock') if must else si.held_may(pos, 'lock')) | set(self.entry_locks(fn, must))
        return {mutex_name(p) for p in ps}


def list_uses(fn, field):
    """Uses of the list data member `field` of *this* queue: list of dict(node=use node, how, member=MemberExpr node).
    how: 'call:<method>' (member call on the list), 'arg:<callee>' (passed to a function), 'other'."""
    out = []
    pm = fn.parent_map()

    def classify(start):
        # climb through transparent wrappers to the using node
        cur = start
        use = None
        while cur in pm:
            p = pm[cur]
            po = fn.nodes[p]
            if po['cls'] in ('ImplicitCastExpr', 'ParenExpr', 'MaterializeTemporaryExpr', 'ExprWithCleanups', 'CXXBindTemporaryExpr'):
                cur = p
                continue
            if po['cls'] == 'MemberExpr':
                # list.method  -> the call is the parent of this MemberExpr
                pd = fn.decl(p)
                if pd['kind'] == 'func' and p in pm:
                    use = (pm[p], 'call:' + pd['name'])
                else:
                    use = (p, 'other')
                break
            if fn.is_call(p) or fn.is_construct(p):
                cal = fn.callee(p)
                use = (p, 'arg:' + (short(cal['key']) if cal else '?'))
                break
            use = (p, 'other:' + po['cls'])
            break
        if use is None:
            use = (start, 'other')
        return use

    for n, o in fn.nodes.items():
        if o['cls'] != 'MemberExpr':
            continue
        d = fn.decl(n)
        if d['kind'] != 'field' or d['name'] != field:
            continue
        use = classify(n)
        if use[1] == 'other:DeclStmt':
            # `List & pending = queueList;` binds a name and reads nothing: the uses of that name are the uses of the list
            refvar = None
            for v in fn.nodes[use[0]].get('decls', []):
                vt = fn.tu.type(v['t'])
                if vt and vt.get('ref') and v.get('init') and n in ([v['init']] + fn.descendants(v['init'])) and fn.strip_all_casts(v['init']) == n:
                    refvar = v['id']
            if refvar is not None:
                for m, om in fn.nodes.items():
                    if om['cls'] == 'DeclRefExpr' and (fn.decl(m) or {}).get('id') == refvar:
                        u2 = classify(m)
                        out.append({'node': u2[0], 'how': u2[1], 'member': n, 'pos': fn.pos(u2[0])})
                continue
        out.append({'node': use[0], 'how': use[1], 'member': n, 'pos': fn.pos(use[0])})
    return out


# The ordering policy's comparator runs inside the container's own splice/sort; it is part of the
# container (must not re-enter the queue) and is not a dispatch, predicate or listener.
CONTAINER_CALLEES = ('OrderedQueueList::',)


def invoke_calls(info, fn):
    """Call nodes in fn whose (transitive) effect includes running user callables."""
    out = []
    for n in fn.nodes:
        if fn.is_call(n) or fn.is_construct(n):
            ck = fn.callee_key(n) or ''
            if ck.startswith(CONTAINER_CALLEES):
                continue
            if USER_INVOKE in info.summ.node_effects(fn, n):
                # a member helper of the queue that reaches user callables through container operations only (`lock; list.splice(..)`
                # extracted into a step: the ordered list's comparator) is a container operation as well
                gs = [g for g in fn.callee_fns(n) if g.kind != 'lambda' and g.d.get('lib', True)]
                if gs and all(_only_container_invokes(info, g) for g in gs):
                    continue
                out.append(n)
    return out


def _only_container_invokes(info, g, depth=3, _seen=None):
    _seen = _seen if _seen is not None else set()
    if g.id in _seen or depth < 0:
        return False
    _seen.add(g.id)
    if queue_of(g) is None:
        return False
    for n in g.nodes:
        if not (g.is_call(n) or g.is_construct(n)):
            continue
        ck = g.callee_key(n) or ''
        if ck.startswith(CONTAINER_CALLEES):
            continue
        if USER_INVOKE in info.summ.node_effects(g, n):
            hs = [h for h in g.callee_fns(n) if h.kind != 'lambda' and h.d.get('lib', True)]
            if not hs or not all(_only_container_invokes(info, h, depth - 1, _seen) for h in hs):
                return False
    return True


def slot_calls(fn, names=('set', 'get', 'clear')):
    out = []
    for n in fn.calls():
        cal = fn.callee(n)
        if cal and cal.get('method') and short(cal.get('cls', '')) in SLOT_CLASSES and cal['name'] in names:
            out.append(n)
    return out


def check_counter_zero(ctx, tu, rule):
    """Both queue counters count guard objects alive *on this queue* (CounterGuard for queueEmptyCounter, DisableQueueNotify for
    queueNotifyCounter): each guard keeps a pointer/reference to the queue it incremented and decrements that one only. A queue under
    construction has no such guard, so every constructor has to start both counters at zero - a value taken from another queue would
    never be decremented (emptyQueue() false for ever, or wait() blocked for ever). Accepted forms: a literal 0, or value-initialisation
    that is not indeterminate (judged separately)."""
    n = 0
    for f in tu.fns:
        if f.cls not in ('EventQueueBase', 'HeterEventQueueBase') or f.kind != 'ctor' or f.d.get('delegating'):
            continue
        inits = {i.get('member'): i for i in f.d.get('inits', []) if i.get('kind') == 'member'}
        bad = []
        for fld in ('queueEmptyCounter', 'queueNotifyCounter'):
            i = inits.get(fld)
            if not i or not i.get('n'):
                bad.append('%s: no initialiser' % fld)
                continue
            x = f.strip_all_casts(i['n'])
            if f.nodes[x]['cls'] == 'CXXDefaultInitExpr':      # default member initialiser: judge that expression
                kids = [k for k in f.nodes[x].get('kids', []) if k]
                if not kids:
                    bad.append('%s: default member initialiser not visible' % fld)
                    continue
                x = f.strip_all_casts(kids[0])
            while f.nodes[x]['cls'] == 'InitListExpr' and len([k for k in f.nodes[x].get('kids', []) if k]) == 1:
                x = f.strip_all_casts([k for k in f.nodes[x]['kids'] if k][0])
            if f.nodes[x]['cls'] == 'InitListExpr' and not [k for k in f.nodes[x].get('kids', []) if k]:
                args = []
            elif f.is_construct(x):
                args = [a for a in f.nodes[x].get('args', []) if f.nodes[a]['cls'] != 'CXXDefaultArgExpr']
            else:
                args = [x]
            ok = not args and not i.get('indet')
            if len(args) == 1:
                a = f.strip_all_casts(args[0])
                while f.nodes[a]['cls'] == 'InitListExpr' and len([k for k in f.nodes[a].get('kids', []) if k]) == 1:
                    a = f.strip_all_casts([k for k in f.nodes[a]['kids'] if k][0])
                ao = f.nodes[a]
                val = ao.get('value') if ao['cls'] == 'IntegerLiteral' else ao.get('cv')
                # a compile-time constant zero that reads no object (no member access, no call)
                reads = any(f.nodes[d]['cls'] in ('MemberExpr', 'CallExpr', 'CXXMemberCallExpr', 'CXXOperatorCallExpr')
                            for d in [a] + f.descendants(a))
                ok = val == 0 and val is not False and not reads
                if not ok:
                    bad.append('%s is initialised from a %s at %s' % (fld, ao['cls'], f.nloc(a)))
            elif not ok:
                bad.append('%s: %d-argument initialiser' % (fld, len(args)))
        n += 1
        ctx.ob(rule, f, 'a new queue starts with both guard counters at zero (no guard object can refer to it yet)', not bad,
               detail='; '.join(bad) + ' - guards alive on the source only ever decrement the source, so the new queue never gets back to zero',
               key_detail='counters zero')
    return n


# ---- derived emptiness state ("cached" flag / count next to the list) --------------------------------------------------------------
LIST_MUTATORS = {'splice', 'emplace_back', 'push_back', 'emplace_front', 'push_front', 'insert', 'emplace', 'merge', 'clear', 'pop_front',
                 'pop_back', 'erase', 'remove', 'remove_if', 'swap', 'operator='}
EMPTINESS_SOURCES = ('queueList', 'queueEmptyCounter', 'queueNotifyCounter', 'queueListMutex', 'queueListConditionVariable')


def derived_emptiness_fields(tu, q):
    """Data members of queue class q, other than the list and the two guard counters, that emptyQueue() / doCanProcess() / the wait
    predicates read: state *derived* from the list (a cached flag or count)."""
    from ..effects import fields_read_transitively
    own = set()
    for c in tu.classes_by_key.get(q, []):
        own |= {fl['name'] for fl in c.get('fields', [])}
    out = set()
    for name in ('emptyQueue', 'doCanProcess'):
        for f in tu.fns_named(q + '::' + name):
            out |= fields_read_transitively(f)
    for name in ('wait', 'waitFor'):
        for f in tu.fns_named(q + '::' + name):
            for g in tu.lambdas_of.get(f.id, []):
                out |= fields_read_transitively(g)
    return sorted(x for x in out if x in own and x not in EMPTINESS_SOURCES)


def _writes_field(info, h, fld, depth=2, _seen=None):
    _seen = _seen if _seen is not None else set()
    if h.id in _seen:
        return False
    _seen.add(h.id)
    if any(x['path'][:2] == ('this', '.' + fld) and x['how'] != 'guard' and (x['how'] in ('assign', '++', '--', '+=', '-=') or x['how'].startswith('call:'))
           for x in info.writes(h)):
        return True
    if depth > 0:
        for n in h.calls():
            for k in h.callee_fns(n):
                if k.kind == 'method' and queue_of(k) == queue_of(h) and _writes_field(info, k, fld, depth - 1, _seen):
                    return True
    return False


def check_derived_emptiness(ctx, tu, info, q, rule):
    """Necessary condition for any state the emptiness tests read instead of (or besides) the list itself: every critical section that
    changes queueList also re-establishes that state before it ends - otherwise there is a moment (and, when no later writer comes, a
    final state) in which emptyQueue() / the wait predicate describe a list that is not the one held."""
    derived = derived_emptiness_fields(tu, q)
    fns = [g for g in info.members(q) if g.kind not in ('ctor', 'dtor')]
    if not fns or not tu.fns_named(q + '::emptyQueue'):
        return []
    n_sites = 0
    for g in fns:
        ws = info.writes(g)
        muts = [w for w in ws if w['path'] == ('this', '.queueList') and
                (w['how'].startswith('call:') and w['how'][5:] in LIST_MUTATORS or w['how'] in ('arg:std::swap', 'assign'))]
        if not muts:
            continue
        si = info.scopes(g)
        for w in muts:
            n_sites += 1
            if not derived:
                continue
            for fld in derived:
                cand = [x for x in ws if x['path'][:2] == ('this', '.' + fld) and x['how'] != 'guard' and
                        (x['how'] in ('assign', '++', '--', '+=', '-=') or x['how'].startswith('call:'))]
                # ... or a member helper that writes it (`doAdjustCount(+1)`)
                for cn in g.calls():
                    for h in g.callee_fns(cn):
                        if h.kind == 'method' and queue_of(h) == q and _writes_field(info, h, fld):
                            cand.append({'node': cn, 'pos': g.pos(cn), 'how': 'helper:' + h.name, 'path': ('this', '.' + fld)})
                refresh = [x for x in cand
                           if (x['pos'] == w['pos'] or g.pos_reaches(w['pos'], x['pos']) or g.pos_reaches(x['pos'], w['pos']))
                           and {mutex_name(m) for m in si.node_held_must(x['node'])} & {mutex_name(m) for m in si.node_held_must(w['node'])}]
                # the refreshed value must not be computed from a list that was emptied just before (`count += tempList.size()` after
                # `queueList.splice(queueList.begin(), tempList)` adds nothing)
                for x in refresh:
                    for m in [x['node']] + g.descendants(x['node']):
                        if not g.is_call(m) or (g.callee(m) or {}).get('name') not in ('size', 'empty') or not g.call_obj(m):
                            continue
                        lp = path(g, g.call_obj(m))
                        if root_var_id(lp) is None:
                            continue
                        for c in ws:
                            if c['path'] == lp and c['how'].startswith('arg:') and c['how'].endswith('splice') and len(g.call_args(c['node'])) == 2 \
                                    and g.pos_dominates(c['pos'], g.pos(m)) and c['pos'] != g.pos(m) \
                                    and not any(y['path'] == lp and y is not c and g.pos_reaches(c['pos'], y['pos']) and g.pos_reaches(y['pos'], g.pos(m)) for y in ws):
                                ctx.ob(rule, g, 'the value written to %s is not taken from a list that was emptied just before' % fld, False,
                                       detail='%s at %s is evaluated after the whole list was spliced away at %s: it is always %s, so %s does not account for the '
                                              'events that were just linked' % (pstr(lp) + '.' + g.callee(m)['name'] + '()', g.nloc(m), g.nloc(c['node']),
                                                                               '0' if g.callee(m)['name'] == 'size' else 'true', fld),
                                       where=g.nloc(m), key_detail='%s from emptied list' % fld)
                ctx.ob(rule, g, 'a critical section that changes queueList also refreshes %s, which the emptiness tests read' % fld, bool(refresh),
                       detail='%s at %s changes the list under the mutex, and nothing in that critical section writes %s: emptyQueue() / the wait predicate '
                              'then answer for a list that is no longer the one held (an event pending but reported empty, a waiter never released)'
                              % (w['how'], g.nloc(w['node']), fld),
                       where=g.nloc(w['node']), key_detail='%s stale after %s' % (fld, w['how'].split(':')[-1]))
    if not derived:
        ctx.ob(rule, (tu.fns_named(q + '::emptyQueue') or fns)[0], 'the emptiness tests read only the list and the guard counters (no derived state to keep coherent); '
               '%d list-changing sites' % n_sites, True)
    return derived
