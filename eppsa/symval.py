"""Value numbering of small branch-free scalar member functions (the SingleThreading::Atomic operations): the returned value
and the final value of every field as terms over the initial field values and the arguments, with library helpers inlined
(explicit-object parameters, reference parameters and local references are followed). Anything else raises Unsupported.

Terms: 'F:<field>' initial field value, 'A:<k>' k-th argument, int constants, ('+', term, k)."""
from .facts import short, MOVE_LIKE


class Unsupported(Exception):
    pass


class Obj(dict):
    pass


def add(t, k):
    if isinstance(t, int):
        return t + k
    if isinstance(t, tuple) and t[0] == '+':
        t, k = t[1], t[2] + k
    return t if k == 0 else ('+', t, k)


class Eval:
    def __init__(self, tu, max_depth=6):
        self.tu = tu
        self.max_depth = max_depth
        self.inlined = []

    def run(self, fn, this, args, depth=0):
        if depth > self.max_depth:
            raise Unsupported('helper chain deeper than %d at %s' % (self.max_depth, fn.skey))
        if fn.body is None or fn.nodes[fn.body]['cls'] != 'CompoundStmt':
            raise Unsupported('no body: %s' % fn.skey)
        if len(args) != len(fn.params):
            raise Unsupported('arity of %s' % fn.skey)
        env = {}
        for p, a in zip(fn.params, args):
            env[p['id']] = a
        for st in fn.kids(fn.body):
            c = fn.nodes[st]['cls']
            if c == 'ReturnStmt':
                ks = fn.kids(st)
                return self.ev(fn, ks[0], this, env, depth) if ks else None
            if c == 'DeclStmt':
                for v in fn.nodes[st].get('decls', []):
                    t = self.tu.type(v['t'])
                    if v.get('init') is None:
                        env[v['id']] = None
                    elif t and t['ref']:
                        env[v['id']] = self.lv(fn, v['init'], this, env, depth)
                    else:
                        env[v['id']] = self.ev(fn, v['init'], this, env, depth)
                continue
            if c in ('IfStmt', 'WhileStmt', 'ForStmt', 'DoStmt', 'SwitchStmt', 'CXXForRangeStmt', 'CXXTryStmt', 'CompoundStmt', 'GotoStmt'):
                raise Unsupported('%s in %s' % (c, fn.skey))
            self.ev(fn, st, this, env, depth)
        return None

    # lvalues are (container, key)
    def lv(self, fn, n, this, env, depth):
        n = fn.strip_all_casts(n)
        o = fn.nodes[n]
        c = o['cls']
        if c == 'DeclRefExpr':
            d = fn.decl(n)
            if d and d['kind'] in ('var', 'parm'):
                v = env.get(d['id'])
                if isinstance(v, tuple) and v and v[0] == 'ref':
                    return v
                if isinstance(v, Obj):
                    return ('obj', v)
                return ('ref', env, d['id'])
        if c == 'CXXThisExpr':
            return ('obj', this)
        if c == 'UnaryOperator' and o.get('op') == '*':
            return self.lv(fn, fn.kids(n)[0], this, env, depth)
        if c == 'MemberExpr':
            d = fn.decl(n)
            if d and d['kind'] == 'field':
                b = self.lv(fn, fn.kids(n)[0], this, env, depth)
                if b[0] == 'obj':
                    return ('ref', b[1], d['name'])
        if c == 'CallExpr' and short((fn.callee(n) or {}).get('key', '')) in MOVE_LIKE:
            return self.lv(fn, o['args'][0], this, env, depth)
        if c in ('UnaryOperator', 'BinaryOperator', 'CompoundAssignOperator') and o.get('vk') == 'l':
            self.ev(fn, n, this, env, depth)
            return self.lv(fn, fn.kids(n)[0], this, env, depth) if c != 'UnaryOperator' or o.get('op') in ('++', '--') else self._bad(fn, n)
        return self._bad(fn, n)

    def _bad(self, fn, n):
        raise Unsupported('%s at %s' % (fn.nodes[n]['cls'], fn.nloc(n)))

    @staticmethod
    def read(l):
        if l[0] == 'obj':
            return l[1]
        return l[1][l[2]]

    def ev(self, fn, n, this, env, depth):
        n = fn.strip_all_casts(n)
        o = fn.nodes[n]
        c = o['cls']
        if 'cv' in o and c not in ('CallExpr', 'CXXMemberCallExpr', 'CXXOperatorCallExpr'):
            return o['cv']
        if c in ('IntegerLiteral', 'CXXBoolLiteralExpr') and 'value' in o:
            return int(o['value'])
        if c in ('DeclRefExpr', 'MemberExpr', 'CXXThisExpr'):
            return self.read(self.lv(fn, n, this, env, depth))
        if c == 'UnaryOperator':
            op = o.get('op')
            if op in ('++', '--'):
                l = self.lv(fn, fn.kids(n)[0], this, env, depth)
                old = self.read(l)
                new = add(old, 1 if op == '++' else -1)
                l[1][l[2]] = new
                return old if o.get('postfix') else new
            if op == '*':
                return self.read(self.lv(fn, n, this, env, depth))
            if op == '+':
                return self.ev(fn, fn.kids(n)[0], this, env, depth)
        if c in ('BinaryOperator', 'CompoundAssignOperator'):
            op = o.get('op')
            ks = fn.kids(n)
            if op == '=':
                v = self.ev(fn, ks[1], this, env, depth)
                l = self.lv(fn, ks[0], this, env, depth)
                if l[0] != 'ref':
                    self._bad(fn, n)
                l[1][l[2]] = v
                return v
            if op in ('+=', '-=', '+', '-'):
                r = self.ev(fn, ks[1], this, env, depth)
                if not isinstance(r, int):
                    self._bad(fn, n)
                if op in ('+', '-'):
                    return add(self.ev(fn, ks[0], this, env, depth), r if op == '+' else -r)
                l = self.lv(fn, ks[0], this, env, depth)
                v = add(self.read(l), r if op == '+=' else -r)
                l[1][l[2]] = v
                return v
            if op == ',':
                self.ev(fn, ks[0], this, env, depth)
                return self.ev(fn, ks[1], this, env, depth)
        if fn.is_construct(n):
            v = fn.value_source(n)
            if v != n:
                return self.ev(fn, v, this, env, depth)
        if c in ('CallExpr', 'CXXMemberCallExpr'):
            key = short((fn.callee(n) or {}).get('key', ''))
            if key in MOVE_LIKE:
                return self.ev(fn, o['args'][0], this, env, depth)
            gs = fn.callee_fns(n)
            if len(gs) == 1:
                g = gs[0]
                obj = fn.call_obj(n)
                recv = this
                if obj is not None:
                    b = self.lv(fn, obj, this, env, depth)
                    if b[0] != 'obj':
                        self._bad(fn, n)
                    recv = b[1]
                args = []
                aa = list(fn.call_args(n))
                if len(aa) != len(g.params):
                    self._bad(fn, n)
                for a, p in zip(aa, g.params):
                    if fn.nodes[a]['cls'] == 'CXXDefaultArgExpr':
                        args.append('D:%s' % p.get('name', '?'))      # a defaulted argument (memory order): an opaque value
                        continue
                    t = self.tu.type(p['t'])
                    if t and t['ref']:
                        try:
                            l = self.lv(fn, a, this, env, depth)
                            args.append(l[1] if l[0] == 'obj' else l)
                            continue
                        except Unsupported:
                            pass
                    args.append(self.ev(fn, a, this, env, depth))
                self.inlined.append(g.skey)
                return self.run(g, recv, args, depth + 1)
        return self._bad(fn, n)
