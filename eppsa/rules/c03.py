"""C03 — Listener management and dispatch are thread-safe (necessary lock discipline; linearizability itself is not decided).

  L1 guarded writes: head/tail/node links/node counter under the list mutex; eventCallbackListMap under listenerMutex;
     callbackListList writes under callbackListListMutex
  L2 guarded structural reads of head/tail/links (tolerated: empty()->head, documented in the source)
  L3 one critical section per mutating operation; in remove/insert the handle is resolved inside that critical section
  L4 lock-order graph over all library mutexes is acyclic; no stored callback/filter/predicate/policy is invoked under any
  L5 no erase/clear/rehash on eventCallbackListMap outside lifetime operations (pointers to elements escape the lock)
  L6 SpinLock: lock() spins on test_and_set with acquire-or-stronger, unlock() clears with release-or-stronger
  L7 the generation counter is advanced only by an atomic read-modify-write
"""
from collections import defaultdict

from .. import witness, extract
import os
from ..facts import AnalysisBroken, short
from ..paths import path, pstr, last_field, root_var_id, fields_in
from ..locks import mutex_name
from ..effects import USER_INVOKE, classify_callee
from .qcommon import TUInfo, is_lifetime, CONTAINER_CALLEES

EXPLANATION = ('C03: guarded-by for list links / listener map / heterogeneous list table, single critical section per mutation with the handle '
               'resolved inside it, acyclic lock order, no user callable under a library mutex, stable map elements, SpinLock orders, atomic generation RMW.')
ASSUMPTIONS = ['linearizability, progress and weak-memory behaviour beyond the SpinLock orders are not decided',
               'the unlocked read of head in empty() is tolerated as documented in the source']
UNITS = None

LINK_FIELDS = ('head', 'tail', 'previous', 'next', 'counter')
LIST_LIFETIME_HELPERS = ('cloneFrom', 'doFreeAllNodes')
MUTATORS = ('append', 'prepend', 'insert', 'remove')
MAP_OK_METHODS = {'operator[]', 'find', 'end', 'cend', 'begin', 'cbegin', 'at', 'count', 'size', 'empty'}
MEMORY_ORDER = {0: 'relaxed', 1: 'consume', 2: 'acquire', 3: 'release', 4: 'acq_rel', 5: 'seq_cst'}


def cls_of(fn):
    return fn.outermost().skey.split('::')[0]


def check(ctx):
    ctx.rule('C03.L1', 'guarded writes')
    ctx.rule('C03.L2', 'guarded structural reads')
    ctx.rule('C03.L3', 'one critical section per mutating list operation, handle resolved inside it')
    ctx.rule('C03.L4', 'lock order acyclic; no user callable invoked under a library mutex')
    ctx.rule('C03.L5', 'no invalidating operation on eventCallbackListMap outside lifetime operations')
    ctx.rule('C03.L6', 'SpinLock memory orders')
    ctx.rule('C03.L7', 'generation counter advanced by atomic RMW only')
    edges = defaultdict(set)
    for tu in ctx.tus:
        info = TUInfo(tu)
        check_list(ctx, tu, info)
        check_maps(ctx, tu, info)
        check_user_under_lock(ctx, tu, info, edges)
        check_spinlock(ctx, tu)
    # lock order
    order_ok, cyc = acyclic(edges)
    ctx.ob('C03.L4', 'lock-order graph', 'acquired-while-holding graph is acyclic: %s' % sorted((a, sorted(b)) for a, b in edges.items()),
           order_ok, detail='cycle: %s' % ' -> '.join(cyc), key_detail='lock order')
    ctx.extra['lock_order_edges'] = {a: sorted(b) for a, b in edges.items()}
    ctx.require_min('C03.L1', 8)
    ctx.require_min('C03.L2', 4)
    ctx.require_min('C03.L3', 4)
    witness.check_static_unit(ctx, 'C03.L6', os.path.join(extract.VERIF, 'witness', 's_meta.cpp'), 'threading policy selection', tag='C03')
    ctx.require_min('C03.L4', 10)
    ctx.require_min('C03.L5', 4)
    ctx.require_min('C03.L6', 2)
    ctx.require_min('C03.L7', 1)


def acyclic(edges):
    color = {}
    stack = []

    def dfs(u):
        color[u] = 1
        stack.append(u)
        for v in edges.get(u, ()):
            if color.get(v) == 1:
                return stack[stack.index(v):] + [v]
            if color.get(v) is None:
                r = dfs(v)
                if r:
                    return r
        stack.pop()
        color[u] = 2
        return None
    for u in list(edges):
        if color.get(u) is None:
            r = dfs(u)
            if r:
                return False, r
    return True, []


def is_list_lifetime(fn):
    o = fn.outermost()
    return is_lifetime(o) or o.name in LIST_LIFETIME_HELPERS


def check_list(ctx, tu, info):
    for f in tu.fns:
        if cls_of(f) != 'CallbackListBase' or f.skey.startswith('CallbackListBase::Node'):
            continue
        if is_list_lifetime(f):
            continue
        # helpers reachable only from lifetime operations are lifetime too
        callers = tu.callers().get(f.id, [])
        if callers and all(is_list_lifetime(g) for g, _ in callers) and f.access != 'public':
            continue
        ws = info.writes(f)
        for w in ws:
            flds = fields_in(w['path'])
            if not flds or flds[-1] not in LINK_FIELDS or w['path'][-1] != '.' + flds[-1]:
                continue
            if w['how'].startswith('call:') and w['how'][5:] in ('get', 'operator bool', 'use_count', 'lock', 'load'):
                continue
            if w['how'].startswith('arg:') and 'operator==' in w['how']:
                continue
            if flds[-1] == 'counter' and w['path'][0] == 'this' and len(w['path']) == 2:
                continue
            held = 'mutex' in info.held_names(f, w['pos'])
            ctx.ob('C03.L1', f, 'write to %s is made with the list mutex held' % flds[-1], held,
                   detail='%s %s at %s without the mutex: concurrent append/remove/traversal can observe or produce a broken link'
                          % (w['how'], pstr(w['path']), f.nloc(w['node'])),
                   where=f.nloc(w['node']), key_detail='write ' + flds[-1])
        # reads
        for n, o in f.nodes.items():
            if o['cls'] != 'MemberExpr':
                continue
            d = f.decl(n)
            if d['kind'] != 'field' or d['name'] not in ('head', 'tail', 'previous', 'next'):
                continue
            if short(d.get('cls', '')) not in ('CallbackListBase', 'CallbackListBase::Node'):
                continue
            pos = f.pos(n)
            held = 'mutex' in info.held_names(f, pos)
            if not held and f.outermost().name == 'empty' and d['name'] == 'head':
                ctx.ob('C03.L2', f, 'unlocked read of head in empty() is the documented tolerated case', True, where=f.nloc(n), key_detail='tolerated empty')
                continue
            ctx.ob('C03.L2', f, 'structural read of %s is made with the list mutex held' % d['name'], held,
                   detail='%s read at %s without the mutex' % (d['name'], f.nloc(n)), where=f.nloc(n), key_detail='read ' + d['name'])
    # L3
    for name in MUTATORS:
        for f in tu.fns_named('CallbackListBase::' + name):
            si = info.scopes(f)
            acq = [a for a in si.acquires if a[1] == 'lock' and mutex_name(a[2]) == 'mutex']
            structural = []
            for w in info.writes(f):
                flds = fields_in(w['path'])
                if flds and flds[-1] in LINK_FIELDS and w['path'][-1] == '.' + flds[-1] and not (w['how'].startswith('call:') and w['how'][5:] in ('get', 'lock')):
                    structural.append(w['node'])
            for n in f.calls():
                ck = f.callee_key(n) or ''
                if ck in ('CallbackListBase::doInsert', 'CallbackListBase::doFreeNode', 'CallbackListBase::doAppend', 'CallbackListBase::doAppendNode'):
                    structural.append(n)
            direct_acq = len(acq)
            # the fallback `return append(callback)` in insert is a separate complete operation
            ok = direct_acq <= 1 and (not structural or direct_acq == 1) and \
                all(any(x[2] == acq[0][3] for x in si.held_must_full(f.pos(n))) for n in structural) if acq else not structural
            ctx.ob('C03.L3', f, 'all structural writes of %s lie in one critical section' % name, ok,
                   detail='%d acquisitions of the list mutex, %d structural steps' % (direct_acq, len(structural)))
            if name in ('remove', 'insert'):
                # handle.lock() (the decision which node is meant / whether it is alive) inside the critical section
                locks = [n for n in f.calls() if (f.callee(n) or {}).get('name') == 'lock' and f.call_obj(n)
                         and root_var_id(path(f, f.call_obj(n))) in f.param_ids()]
                for n in locks:
                    held = 'mutex' in info.held_names(f, f.pos(n))
                    # tolerated: resolving `before` early in insert, as long as the liveness decision is re-made under the mutex (C02.T1)
                    if name == 'insert' and not held:
                        ctx.ob('C03.L3', f, 'insert resolves the before-handle early; the decision is re-made under the mutex (see C02.T1)', True,
                               where=f.nloc(n), key_detail='early resolve')
                        continue
                    ctx.ob('C03.L3', f, 'the handle is resolved inside the critical section that removes the node', held,
                           detail='handle.lock() at %s happens before the mutex is taken: two threads removing the same handle both succeed'
                                  % f.nloc(n), where=f.nloc(n), key_detail='resolve under lock')
    # L2 (mutators): no structural decision on the documented-racy empty() / operator bool outside the critical section
    for name in MUTATORS:
        for f in tu.fns_named('CallbackListBase::' + name):
            for n in f.calls():
                if (f.callee_key(n) or '') in ('CallbackListBase::empty', 'CallbackListBase::operator bool') and \
                        (f.nodes[n].get('obj') is None or path(f, f.nodes[n]['obj']) == ('this',)):
                    held = 'mutex' in info.held_names(f, f.pos(n))
                    ctx.ob('C03.L2', f, '%s does not steer its linking by the unlocked empty() test' % name, held,
                           detail='empty() at %s reads head without the mutex; another thread can add or remove the last callback before the lock is taken, '
                                  'so the chosen linking path no longer fits the list (null dereference or misplaced node)' % f.nloc(n),
                           where=f.nloc(n), key_detail='unlocked empty in mutator')
    # L3 (insert): the decision that the before-node is still in the list is taken under the mutex that links the new node
    from . import listrules as LR
    for f in tu.fns_named('CallbackListBase::insert'):
        hv = LR.handle_locked_vars(f)
        for vid, (vname, hid, decl) in hv.items():
            for n in f.calls():
                if (f.callee_key(n) or '') == 'CallbackListBase::doInsert' and any(root_var_id(path(f, a)) == vid for a in f.call_args(n)):
                    ok = LR.live_dominating(f, info, vid, vname, f.pos(n), need_lock=True)
                    ctx.ob('C03.L3', f, 'insert decides under the list mutex that the before-callback is still in the list', ok,
                           detail='the removed-mark test of `%s` is not made inside the critical section that links the new node at %s: a concurrent '
                                  'remove between the test and the lock links the new callback to a node that is no longer in the list' % (vname, f.nloc(n)),
                           where=f.nloc(n), key_detail='insert decision under lock')
    # L7
    for f in tu.fns:
        if cls_of(f) != 'CallbackListBase' or is_list_lifetime(f):
            continue
        for w in info.writes(f):
            if w['path'] == ('this', '.currentCounter'):
                how = w['how']
                if how.startswith('call:') and how[5:] in ('load',):
                    continue
                ctx.ob('C03.L7', f, 'currentCounter is advanced by an atomic increment', how == '++' and not w.get('postfix') or how == '++',
                       detail='%s at %s: a load followed by a store hands the same generation to two concurrent appends' % (how, f.nloc(w['node'])),
                       where=f.nloc(w['node']), key_detail='rmw')


def check_maps(ctx, tu, info):
    for f in tu.fns:
        c = cls_of(f)
        if c in ('EventDispatcherBase', 'HeterEventDispatcherBase'):
            for n, o in f.nodes.items():
                if o['cls'] != 'MemberExpr' or f.decl(n)['kind'] != 'field' or f.decl(n)['name'] != 'eventCallbackListMap':
                    continue
                if is_lifetime(f):
                    continue
                # binding a local reference to the member (`Map & map = eventCallbackListMap;`) reads nothing: the uses of that
                # reference are the accesses
                pm = f.parent_map()
                q = pm.get(n)
                while q and f.nodes[q]['cls'] in ('ImplicitCastExpr', 'ParenExpr'):
                    q = pm.get(q)
                refvar = None
                if q and f.nodes[q]['cls'] == 'DeclStmt':
                    for v in f.nodes[q].get('decls', []):
                        vt = tu.type(v['t'])
                        if vt and vt.get('ref') and v.get('init') and n in ([v['init']] + f.descendants(v['init'])):
                            refvar = v['id']
                if refvar is not None:
                    for m, om in f.nodes.items():
                        if om['cls'] == 'DeclRefExpr' and (f.decl(m) or {}).get('id') == refvar:
                            held = 'listenerMutex' in info.held_names(f, f.pos(m))
                            ctx.ob('C03.L1', f, 'eventCallbackListMap is accessed with listenerMutex held', held,
                                   detail='access at %s (through the local reference) without listenerMutex: a concurrent appendListener may rehash/rebalance the map' % f.nloc(m),
                                   where=f.nloc(m), key_detail='map access')
                    continue
                held = 'listenerMutex' in info.held_names(f, f.pos(n))
                ctx.ob('C03.L1', f, 'eventCallbackListMap is accessed with listenerMutex held', held,
                       detail='access at %s without listenerMutex: a concurrent appendListener may rehash/rebalance the map' % f.nloc(n),
                       where=f.nloc(n), key_detail='map access')
                # method applied
                pm = f.parent_map()
                p = pm.get(n)
                while p and f.nodes[p]['cls'] in ('ImplicitCastExpr', 'ParenExpr'):
                    p = pm.get(p)
                meth = None
                if p and f.nodes[p]['cls'] == 'MemberExpr' and f.decl(p)['kind'] == 'func':
                    meth = f.decl(p)['name']
                elif p and f.nodes[p]['cls'] == 'CXXOperatorCallExpr':
                    meth = 'operator' + f.nodes[p].get('op', '')
                if meth is not None:
                    ctx.ob('C03.L5', f, 'eventCallbackListMap is only searched or extended (%s)' % meth, meth in MAP_OK_METHODS,
                           detail='%s at %s can destroy or move listener lists that other threads reach through pointers obtained under the lock'
                                  % (meth, f.nloc(n)), where=f.nloc(n), key_detail='map method ' + meth)
        elif c == 'HeterCallbackListBase' and not is_lifetime(f):
            for w in info.writes(f):
                flds = fields_in(w['path'])
                if 'callbackListList' in flds and w['how'] in ('assign',):
                    held = 'callbackListListMutex' in info.held_names(f, w['pos'])
                    ctx.ob('C03.L1', f, 'callbackListList slot is created with callbackListListMutex held', held,
                           detail='assignment at %s' % f.nloc(w['node']), where=f.nloc(w['node']), key_detail='slot write')
                    # double-checked creation: the emptiness of the slot is (re-)tested inside the critical section that creates it
                    from .listrules import edge_dominates
                    si = info.scopes(f)
                    rechecked = False
                    for bid, blk in f.blocks.items():
                        cnd = blk.get('cond')
                        if not cnd or len(blk['succ']) != 2:
                            continue
                        n = f.strip_all_casts(cnd)
                        neg = False
                        while f.nodes[n]['cls'] == 'UnaryOperator' and f.nodes[n].get('op') == '!':
                            neg = not neg
                            n = f.strip_all_casts(f.kids(n)[0])
                        # `slot == nullptr` / `slot != nullptr` (built-in or shared_ptr's operator): the same test spelled out
                        if f.nodes[n]['cls'] in ('BinaryOperator', 'CXXOperatorCallExpr') and f.nodes[n].get('op') in ('==', '!='):
                            ops = [f.strip_all_casts(x) for x in (f.nodes[n].get('args') or f.kids(n))]
                            nulls = [x for x in ops if f.nodes[x]['cls'] in ('CXXNullPtrLiteralExpr', 'GNUNullExpr') or
                                     any(f.nodes[y]['cls'] == 'CXXNullPtrLiteralExpr' for y in f.descendants(x))]
                            if len(ops) == 2 and len(nulls) == 1:
                                if f.nodes[n].get('op') == '==':
                                    neg = not neg
                                n = [x for x in ops if x not in nulls][0]
                        tested = None
                        for d in [n] + f.descendants(n):
                            if f.nodes[d]['cls'] == 'MemberExpr' and f.decl(d)['kind'] == 'field' and f.decl(d)['name'] == 'callbackListList':
                                tested = d
                            elif f.nodes[d]['cls'] == 'DeclRefExpr' and f.decl(d).get('kind') == 'var':
                                # a local *reference* to the slot (`auto & slot = callbackListList[i]`): testing it reads the slot itself
                                vd = f.var_decls().get(f.decl(d)['id'])
                                vt = f.tu.type(vd['t']) if vd else None
                                if vd and vd.get('init') and vt and vt.get('ref'):
                                    for e in [vd['init']] + f.descendants(vd['init']):
                                        if f.nodes[e]['cls'] == 'MemberExpr' and f.decl(e)['kind'] == 'field' and f.decl(e)['name'] == 'callbackListList':
                                            tested = d
                        if tested is None:
                            continue
                        role = 'true' if neg else 'false'      # edge on which the slot is empty
                        if not edge_dominates(f, bid, role, w['pos']):
                            continue
                        a = {x for x in si.held_must_full(f.pos(cnd)) if x[0] == 'lock' and mutex_name(x[1]) == 'callbackListListMutex'}
                        b = {x for x in si.held_must_full(w['pos']) if x[0] == 'lock' and mutex_name(x[1]) == 'callbackListListMutex'}
                        if a & b:
                            rechecked = True
                    ctx.ob('C03.L3', f, 'a per-prototype list is created only after its slot was found empty inside the same critical section', rechecked,
                           detail='the creating assignment at %s relies on a test made before callbackListListMutex was taken: two threads racing on the first use of a '
                                  'prototype both create a list and the second replaces the first (its callbacks are lost)' % f.nloc(w['node']),
                           where=f.nloc(w['node']), key_detail='slot re-check')


def mutex_id(fn, p):
    """Class-qualified mutex name used as lock-order node."""
    name = mutex_name(p)
    owner = cls_of(fn)
    if p[0] == 'this' and len(p) == 2:
        return '%s.%s' % (owner, name)
    return '%s@%s.%s' % (pstr(p[:-1]), owner, name)


def acquires_trans(info, fn, seen=None, depth=0):
    """Mutex ids acquired by fn or its library callees."""
    seen = seen if seen is not None else set()
    if fn.id in seen or depth > 14:
        return set()
    seen.add(fn.id)
    out = set()
    si = info.scopes(fn)
    for a in si.acquires:
        if a[1] == 'lock':
            out.add('%s.%s' % (cls_of(fn), mutex_name(a[2])))
    for n in fn.nodes:
        if fn.is_call(n) or fn.is_construct(n):
            for g in fn.callee_fns(n):
                out |= acquires_trans(info, g, seen, depth + 1)
    return out


def check_user_under_lock(ctx, tu, info, edges):
    for f in tu.fns:
        si = info.scopes(f)
        # lock order edges
        for a in si.acquires:
            if a[1] != 'lock':
                continue
            new = '%s.%s' % (cls_of(f), mutex_name(a[2]))
            for hp in si.held_may(a[0], 'lock'):
                edges['%s.%s' % (cls_of(f), mutex_name(hp))].add(new)
        for n in f.nodes:
            if not (f.is_call(n) or f.is_construct(n)):
                continue
            pos = f.pos(n)
            heldp = si.held_may(pos, 'lock')
            if not heldp:
                continue
            for g in f.callee_fns(n):
                for m in acquires_trans(info, g):
                    for hp in heldp:
                        edges['%s.%s' % (cls_of(f), mutex_name(hp))].add(m)
        # user callables under a lock
        for n in f.nodes:
            if not (f.is_call(n) or f.is_construct(n)):
                continue
            ck = f.callee_key(n) or ''
            if ck.startswith(CONTAINER_CALLEES):
                continue
            eff, desc = classify_callee(f, n)
            if USER_INVOKE not in eff:
                continue
            if f.outermost().skey.startswith('OrderedQueueList::'):
                continue
            held = info.held_names(f, f.pos(n), must=False) - {None}
            ctx.ob('C03.L4', f, 'user callable is invoked with no library mutex held', not held,
                   detail='%s at %s runs while %s may be held: a callback that re-enters the library self-deadlocks'
                          % (desc, f.nloc(n), ', '.join(sorted(held))), where=f.nloc(n), key_detail='user call under lock')


def check_spinlock(ctx, tu):
    for f in tu.fns_named('SpinLock::lock'):
        calls = [n for n in f.calls() if (f.callee(n) or {}).get('name') == 'test_and_set']
        ok = len(calls) == 1
        detail = ''
        if ok:
            n = calls[0]
            args = f.call_args(n)
            order = 5
            if args and f.nodes[args[0]]['cls'] != 'CXXDefaultArgExpr':
                a = f.strip_all_casts(args[0])
                order = f.nodes[a].get('cv', f.decl(a).get('value') if f.nodes[a]['cls'] == 'DeclRefExpr' else None)
            pos = f.pos(n)
            blk = f.blocks[pos[0]]
            # loop: the block testing the flag reaches itself, and leaves the loop only on the false edge
            loops = f.block_reaches(pos[0], pos[0])
            # the loop is left only over the edge on which test_and_set returned false (whatever the loop is written as: while(tas()),
            # for(;;) { if(!tas()) return; }, a local holding the result ...)
            cond_ok = False
            for bid, b2 in f.blocks.items():
                c = b2.get('cond')
                if not c or len(b2['succ']) != 2 or b2['succ'][0] is None or b2['succ'][1] is None:
                    continue
                core, neg = f.cond_core(c)
                if core != n:
                    continue
                held_edge, free_edge = (1, 0) if neg else (0, 1)          # successor index taken when the flag was already set / was clear
                back = b2['succ'][held_edge] == pos[0] or f.block_reaches(b2['succ'][held_edge], pos[0])
                out = not (b2['succ'][free_edge] == pos[0] or f.block_reaches(b2['succ'][free_edge], pos[0]))
                cond_ok = back and out
            ok = order in (2, 4, 5) and loops and bool(cond_ok)
            detail = 'order=%s loop=%s exits-only-when-clear=%s' % (MEMORY_ORDER.get(order, order), loops, bool(cond_ok))
        ctx.ob('C03.L6', f, 'lock() spins until test_and_set returns false, with acquire or stronger ordering', ok, detail=detail)
    for f in tu.fns_named('SpinLock::unlock'):
        calls = [n for n in f.calls() if (f.callee(n) or {}).get('name') == 'clear']
        ok = len(calls) == 1
        detail = ''
        if ok:
            args = f.call_args(calls[0])
            order = 5
            if args and f.nodes[args[0]]['cls'] != 'CXXDefaultArgExpr':
                a = f.strip_all_casts(args[0])
                order = f.nodes[a].get('cv', f.decl(a).get('value') if f.nodes[a]['cls'] == 'DeclRefExpr' else None)
            ok = order in (3, 5)
            detail = 'order=%s' % MEMORY_ORDER.get(order, order)
        ctx.ob('C03.L6', f, 'unlock() clears the flag with release or stronger ordering', ok, detail=detail)
