// static_assert witnesses for the helper metafunctions the properties rest on (tags `// @Cxx` as in s_select.cpp: a property's check
// judges only its own asserts). Each detector is compared with what it is supposed to detect, written independently with the standard
// traits / the void_t idiom, over families of argument kinds - a detector that is tightened, loosened or mis-indexed disagrees somewhere.
#include "common.h"
#include <eventpp/utilities/anyid.h>
#include <eventpp/utilities/anydata.h>
#include <tuple>

namespace wit_meta {
using namespace eventpp;
using namespace eventpp::internal_;
using wit::Payload;

template <typename ...> struct VoidT { using type = void; };

// ---- CanInvoke<F, Args...>  ==  "F can be called with Args..." -----------------------------------------------------------------------
template <typename F, typename Enable, typename ...A> struct CallableImpl : std::false_type {};
template <typename F, typename ...A> struct CallableImpl<F, typename VoidT<decltype(std::declval<F>()(std::declval<A>()...))>::type, A...> : std::true_type {};
template <typename F, typename ...A> struct Callable : CallableImpl<F, void, A...> {};
struct FNone { void operator()() const; };
struct FInt { void operator()(int) const; };
struct FRef { void operator()(std::string &) const; };
struct FCRef { void operator()(const std::string &) const; };
struct FRRef { void operator()(std::string &&) const; };
struct FBoth { bool operator()() const; bool operator()(int, const std::string &) const; };
struct FAny { template <typename ...A> void operator()(A && ...) const; };
struct FMut { void operator()(int); };       // non-const call operator
#define WIT_CI(F, ...) static_assert(bool(CanInvoke<F, ##__VA_ARGS__>::value) == Callable<F, ##__VA_ARGS__>::value, "CanInvoke agrees with callability: " #F " (" #__VA_ARGS__ ")")
#define WIT_CI_ROW(F) WIT_CI(F); WIT_CI(F, int); WIT_CI(F, int &); WIT_CI(F, std::string); WIT_CI(F, std::string &); WIT_CI(F, const std::string &); WIT_CI(F, std::string &&); WIT_CI(F, int, const std::string &); WIT_CI(F, int, int, int)
WIT_CI_ROW(FNone);   // @C14 @C16 @C05 @C01
WIT_CI_ROW(FInt);   // @C14 @C16 @C05 @C01
WIT_CI_ROW(FRef);   // @C14 @C16 @C05 @C01
WIT_CI_ROW(FCRef);   // @C14 @C16 @C05 @C01
WIT_CI_ROW(FRRef);   // @C14 @C16 @C05 @C01
WIT_CI_ROW(FBoth);   // @C14 @C16 @C05 @C01
WIT_CI_ROW(FAny);   // @C14 @C16 @C05 @C01
WIT_CI_ROW(FMut);   // @C14 @C16 @C05 @C01
WIT_CI_ROW(const FMut);   // @C14 @C16 @C05 @C01
WIT_CI_ROW(void (*)(int));   // @C14 @C16 @C05 @C01
WIT_CI_ROW(std::function<void (const std::string &)>);   // @C14 @C16 @C05 @C01
static_assert(bool(CanInvoke<FBoth>::value) && bool(CanInvoke<FBoth, int, const std::string &>::value) && !bool(CanInvoke<FBoth, int>::value), "both call forms of a two-way condition are seen");   // @C16 @C14

// ---- function type surgery ------------------------------------------------------------------------------------------------------------
static_assert(std::is_same<TransformArguments<void (int, const std::string &, Payload &&), std::decay>::Type, void (int, std::string, Payload)>::value, "TransformArguments maps every parameter, in order");   // @C05 @C14
static_assert(std::is_same<TransformArguments<int (), std::decay>::Type, int ()>::value, "TransformArguments on a nullary prototype");   // @C05 @C14
static_assert(std::is_same<ReplaceReturnType<void (int, std::string &), bool>::Type, bool (int, std::string &)>::value, "ReplaceReturnType keeps the parameters");   // @C12
// (ShiftTuple and intToConstant are not used by the library: nothing is asserted about them)

// ---- policy detection: present exactly when the policy declares the member -------------------------------------------------------------
struct PNone {};
struct PThreading { using Threading = SingleThreading; };
struct PCallback { using Callback = std::function<void ()>; };
struct PMap { template <typename K, typename V> using Map = std::map<K, V>; };
struct PQueueList { template <typename I> using QueueList = std::list<I>; };
struct PMixins { using Mixins = MixinList<MixinFilter>; };
struct PArgMode { using ArgumentPassingMode = ArgumentPassingIncludeEvent; };
static_assert(HasTypeThreading<PThreading>::value && !HasTypeThreading<PNone>::value && !HasTypeThreading<PCallback>::value, "HasTypeThreading");   // @C20 @C03
static_assert(HasTypeCallback<PCallback>::value && !HasTypeCallback<PNone>::value && !HasTypeCallback<PThreading>::value, "HasTypeCallback");   // @C20
static_assert(HasTemplateMap<PMap>::value && !HasTemplateMap<PNone>::value && !HasTemplateMap<PQueueList>::value, "HasTemplateMap");   // @C04 @C20
static_assert(HasTemplateQueueList<PQueueList>::value && !HasTemplateQueueList<PNone>::value && !HasTemplateQueueList<PMap>::value, "HasTemplateQueueList");   // @C13
static_assert(HasTypeMixins<PMixins>::value && !HasTypeMixins<PNone>::value, "HasTypeMixins");   // @C12
static_assert(std::is_same<SelectThreading<PThreading, true>::Type, SingleThreading>::value && std::is_same<SelectThreading<PNone, false>::Type, MultipleThreading>::value, "SelectThreading");   // @C20 @C03
static_assert(std::is_same<SelectMap<int, char, PMap, true>::Type, std::map<int, char> >::value, "SelectMap takes the policy's map with key and value in order");   // @C04 @C20
static_assert(std::is_same<SelectQueueList<char, PQueueList, true>::Type, std::list<char> >::value && std::is_same<SelectQueueList<char, PNone, false>::Type, std::list<char> >::value, "SelectQueueList");   // @C13
static_assert(std::is_same<SelectMixins<PMixins, true>::Type, MixinList<MixinFilter> >::value && std::is_same<SelectMixins<PNone, false>::Type, MixinList<> >::value, "SelectMixins");   // @C12
static_assert(std::is_same<SelectCallback<PCallback, true, int>::Type, std::function<void ()> >::value && std::is_same<SelectCallback<PNone, false, long>::Type, long>::value, "SelectCallback");   // @C20

// canContinueInvoking detection == callability
template <typename P, typename Enable, typename ...A> struct CanCallCCImpl : std::false_type {};
template <typename P, typename ...A> struct CanCallCCImpl<P, typename VoidT<decltype(P::canContinueInvoking(std::declval<A>()...))>::type, A...> : std::true_type {};
template <typename P, typename ...A> struct CanCallCC : CanCallCCImpl<P, void, A...> {};
struct CCValue { static bool canContinueInvoking(int, std::string) { return true; } };
struct CCRef { static bool canContinueInvoking(int, std::string &) { return true; } };
struct CCTemplate { template <typename ...A> static bool canContinueInvoking(A && ...) { return true; } };
#define WIT_CC(P, ...) static_assert(bool(HasFunctionCanContinueInvoking<P, ##__VA_ARGS__>::value) == CanCallCC<P, ##__VA_ARGS__>::value, "canContinueInvoking detection agrees with callability: " #P " (" #__VA_ARGS__ ")")
#define WIT_CC_ROW(P) WIT_CC(P, int, std::string); WIT_CC(P, int, std::string &); WIT_CC(P, int, const std::string &); WIT_CC(P, int &, std::string &); WIT_CC(P, int); WIT_CC(P)
WIT_CC_ROW(CCValue);   // @C12
WIT_CC_ROW(CCRef);   // @C12
WIT_CC_ROW(CCTemplate);   // @C12
WIT_CC_ROW(PNone);   // @C12

// mixin chain: the first listed mixin is the outermost class, the root the innermost; every listed mixin appears once
template <typename B> struct MA : B {};
template <typename B> struct MB : B {};
struct Root {};
static_assert(std::is_same<InheritMixins<Root, MixinList<MA, MB> >::Type, MA<MB<Root> > >::value && std::is_same<InheritMixins<Root, MixinList<> >::Type, Root>::value && std::is_same<InheritMixins<Root, MixinList<MB> >::Type, MB<Root> >::value, "InheritMixins nests the mixins in list order");   // @C12

// ---- AnyId detectors ---------------------------------------------------------------------------------------------------------------------
namespace ai = eventpp::anyid_internal_;
struct SNone {};
struct SEq { bool operator == (const SEq &) const; };
struct SLess { bool operator < (const SLess &) const; };
struct SBoth { bool operator == (const SBoth &) const; bool operator < (const SBoth &) const; };
struct SIntLess { int operator == (const SIntLess &) const; int operator < (const SIntLess &) const; };      // legacy: results convertible to bool
struct SFree {}; bool operator == (const SFree &, const SFree &); bool operator < (const SFree &, const SFree &);
static_assert(!ai::HasEqual<SNone>::value && ai::HasEqual<SEq>::value && !ai::HasEqual<SLess>::value && ai::HasEqual<SBoth>::value && ai::HasEqual<SIntLess>::value && ai::HasEqual<SFree>::value && ai::HasEqual<int>::value && ai::HasEqual<std::string>::value, "HasEqual: member, free and built-in ==, any bool-convertible result");   // @C18
static_assert(!ai::HasLess<SNone>::value && !ai::HasLess<SEq>::value && ai::HasLess<SLess>::value && ai::HasLess<SBoth>::value && ai::HasLess<SIntLess>::value && ai::HasLess<SFree>::value && ai::HasLess<int>::value && ai::HasLess<std::string>::value, "HasLess: member, free and built-in <, any bool-convertible result");   // @C18
static_assert(!ai::HasEqual<EmptyAnyStorage>::value && !ai::HasLess<EmptyAnyStorage>::value, "the default storage has neither == nor <");   // @C18
static_assert(std::is_same<AnyId<>::DigestType, std::size_t>::value, "the default digest type is what std::hash returns");   // @C18

// ---- AnyData helpers ----------------------------------------------------------------------------------------------------------------------
namespace ad = eventpp::anydata_internal_;
static_assert(std::is_same<ad::RemoveCvRef<const int &>::Type, int>::value && std::is_same<ad::RemoveCvRef<volatile int &&>::Type, int>::value && std::is_same<ad::RemoveCvRef<const std::string>::Type, std::string>::value && std::is_same<ad::RemoveCvRef<int>::Type, int>::value, "RemoveCvRef strips the reference, then the qualifiers");   // @C17
static_assert(ad::MaxSizeOf<char>::value == 1 && ad::MaxSizeOf<char, double, short>::value == sizeof(double) && ad::MaxSizeOf<double, char>::value == sizeof(double) && ad::MaxSizeOf<char, short, char[7]>::value == 7, "MaxSizeOf is the maximum, whatever the position of the largest type");   // @C17
static_assert(eventpp::maxSizeOf<char, char[3], char[9], char[5]>() == 9, "maxSizeOf");   // @C17

} // namespace wit_meta
