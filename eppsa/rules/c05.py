"""C05 — EventQueue consumes every queued event exactly once, in FIFO order.

  P  slot protocol and list invariants (abstract interpretation A9, eppsa/slots.py) over doEnqueue, process, processOne,
     processIf, processUntil, peekEvent, takeEvent, clearEvents (and the heterogeneous siblings): every slot taken out of
     queueList is either handed back FULL or get->clear'ed exactly once and recycled EMPTY; nothing is read after clear,
     nothing is set on a FULL slot
  O  positions: enqueue splices at end(); single takes use begin()/front(); declined events go back at begin()
  1  one take per call, before the first dispatch: events enqueued by listeners stay for a later call
  D  every queued dispatch is directDispatch(slot.event, get<0>(slot.arguments), get<1>(...), ...) in index order
  V  queued arguments are stored by value (static_assert witness)
  B  a true result is control-dependent on a non-empty dispatched/found set
  M  no use-after-move on the enqueue path (the stored values are the caller's values)
"""
import os
import re

from ..facts import AnalysisBroken, short
from ..paths import path, pstr, last_field, root_var_id, fields_in
from ..moves import MoveAnalysis, vtag
from .. import formula as F
from .. import witness, extract
from ..slots import SlotInterp, State
from .qcommon import *
from .listrules import edge_dominates

EXPLANATION = ('C05: abstract interpretation of the slot EMPTY/FULL protocol and list contents over every processing function (helpers '
               'interpreted at the call site), positional rules for FIFO, single take before dispatch, dispatch argument mapping, result rules, R-MOVE on enqueue.')
ASSUMPTIONS = ['FIFO across arbitrary histories follows from the positional invariants (enqueue at end, take at begin, put-back at begin); argument values are not tracked']
UNITS = ['w_queue.cpp', 'w_heter.cpp', 'w_utils.cpp']

PROCESSING = {
    'EventQueueBase': ('doEnqueue', 'process', 'processOne', 'processIf', 'processUntil', 'peekEvent', 'takeEvent', 'clearEvents'),
    'HeterEventQueueBase': ('doEnqueueItem', 'process', 'processOne', 'doProcessIf', 'clearEvents'),
}
ENQUEUE_MOVE_FNS = ('EventQueueBase::enqueue', 'EventQueueBase::doEnqueue', 'HeterEventQueueBase::doEnqueueItem', 'BufferedItem::set',
                    'EventQueueBase::doInvokeFuncWithQueuedEvent', 'EventQueueBase::doInvokeFuncWithQueuedEventHelper', 'EventQueueBase::doDispatchQueuedEvent',
                    'EventQueueBase::processIf', 'EventQueueBase::processUntil', 'EventQueueBase::process', 'EventQueueBase::processOne',
                    'BufferedUnion::set', 'EventQueueBase::takeEvent', 'EventQueueBase::peekEvent')    # heterogeneous enqueue/doEnqueue: C14.M

KIND_TEXT = {
    'P-get': 'a slot is read only while FULL',
    'P-clear': 'a slot is cleared exactly once, while FULL',
    'P-set': 'a slot is filled only while EMPTY',
    'P-into-queueList': 'only FULL slots enter queueList',
    'P-into-freeList': 'only EMPTY slots are recycled into freeList',
    'P-swap-queueList': 'the list swapped with queueList is empty',
    'P-swap-freeList': 'the list swapped with freeList holds EMPTY slots',
    'P-untracked': 'every slot operation is attributable to a list',
    'P-unsupported': 'slots move between lists by splice/swap only',
    'P-shared-add': 'slots are created in local lists',
    'O-enqueue-end': 'new events enter queueList at end()',
    'O-putback-begin': 'handed-back events re-enter queueList at begin()',
    'O-take-front': 'single takes use the front of the list',
    'O-own': 'a spliced element belongs to the named source list',
    'O-append-local': 'local splices',
    'O-drop': 'no pending event dies with a local list (every FULL slot is dispatched, taken, cleared or handed back)',
    'B-true': '`return true` only after at least one event was consumed',
}


def run_slot_rules(ctx, rule_p, rule_o, tu, only_kinds=None, rule_b=None, classes=None, fn_filter=None):
    """Run the slot interpretation over the processing functions of tu; report under rule_p / rule_o."""
    n = 0

    def report(kind, fn, node, ok, msg):
        if only_kinds and not any(kind.startswith(k) for k in only_kinds):
            return
        rule = rule_o if kind.startswith('O-') else rule_p
        if kind.startswith('B-'):
            rule = rule_b
            if fn.outermost().name in ('peekEvent',):
                return      # peek consumes nothing; judged by the dominance rule in check_results
            if not ok:
                # `if(doProcessIf<Next>(func)) return true;` - the next prototype level consumed the event (judged there)
                for bid, blk in fn.blocks.items():
                    c = blk.get('cond')
                    if c and fn.is_call(fn.strip_all_casts(c)) and (fn.callee_key(fn.strip_all_casts(c)) or '') == fn.skey \
                            and edge_dominates(fn, bid, 'true', fn.pos(node)):
                        ok = True
        if rule is None or kind == 'O-append-local':
            return
        if kind in ('P-untracked', 'P-unsupported') and not ok:
            # the interpretation lost track of a slot / met an operation outside the transfer-only fragment: it cannot decide, which is
            # not the same as the code being wrong (a correct scope-exit helper object is outside the fragment as well)
            ctx.broken_later('%s: slot interpretation cannot attribute an operation in %s (%s at %s)' % (rule, fn.pattern(), msg, fn.nloc(node)))
            return
        ctx.ob(rule, fn, KIND_TEXT.get(kind, kind), ok, detail='%s at %s' % (msg, fn.nloc(node)), where=fn.nloc(node), key_detail=kind)
    interp = SlotInterp(tu, report)
    for q, names in PROCESSING.items():
        if classes and q not in classes:
            continue
        for nm in names:
            for f in tu.fns_named('%s::%s' % (q, nm)):
                if f.kind == 'lambda':
                    continue
                if fn_filter and not fn_filter(f):
                    continue
                # helpers that receive lists by reference are interpreted from their callers only
                if any(interp.is_slot_list_type(p['t']) for p in f.params):
                    continue
                interp.run(f, State(), {})
                n += 1
    ctx.extra['slot_interpretation'] = {'functions': ctx.extra.get('slot_interpretation', {}).get('functions', 0) + interp.stats['functions'],
                                        'events': ctx.extra.get('slot_interpretation', {}).get('events', 0) + interp.stats['events']}
    return n


def check(ctx):
    ctx.rule('C05.P', 'slot protocol and list invariants (abstract interpretation)')
    ctx.rule('C05.O', 'FIFO positions: enqueue at end, take at begin, put-back at begin')
    ctx.rule('C05.1', 'one take per call, before the first dispatch')
    ctx.rule('C05.D', 'queued dispatch = directDispatch(slot.event, stored arguments in order)')
    ctx.rule('C05.V', 'queued arguments are stored by value')
    ctx.rule('C05.B', 'boolean results')
    ctx.rule('C05.M', 'no use-after-move on the enqueue / take path')
    total = 0
    for tu in ctx.tus:
        info = TUInfo(tu)
        total += run_slot_rules(ctx, 'C05.P', 'C05.O', tu, rule_b='C05.B')
        check_takes(ctx, tu, info)
        check_dispatch(ctx, tu)
        check_results(ctx, tu, info)
        ma = MoveAnalysis(tu)
        for f in tu.fns:
            if f.outermost().skey in ENQUEUE_MOVE_FNS:
                vs, pairs = ma.violations(f)
                names = sorted({vtag(v) for v in vs})
                ctx.ob('C05.M', f, 'arguments are never read after (or unsequenced with) being moved from', not vs,
                       detail='\n'.join(v['msg'] for v in vs[:3]), key_detail='move ' + ','.join(names),
                       where=f.nloc(vs[0]['site']['consumer']) if vs else None)
    ctx.require(total >= 20, 'C05.P: fewer than 20 processing-function instantiations were interpreted (%d)' % total)
    ctx.require_min('C05.P', 10)
    ctx.require_min('C05.O', 6)
    ctx.require_min('C05.1', 6)
    ctx.require_min('C05.D', 2)
    ctx.require_min('C05.B', 6)
    ctx.require_min('C05.M', 4)
    witness.check_static_unit(ctx, 'C05.V', os.path.join(extract.VERIF, 'witness', 's_meta.cpp'), 'argument decay and callable detection for predicates', tag='C05')
    witness.check_static_unit(ctx, 'C05.V', os.path.join(extract.VERIF, 'witness', 's_select.cpp'), 'QueuedEvent stores decayed copies; index sequence order', tag='C05')


def takes_of(info, f):
    out = []
    for w in info.writes(f):
        if w['path'][-1:] != ('.queueList',) or w['path'][0] != 'this':
            continue
        how = w['how']
        meth = how.split(':', 1)[1].split('::')[-1] if ':' in how else how
        if (how.startswith('arg:') and meth in ('splice', 'swap')) or (how.startswith('call:') and meth == 'swap'):
            out.append(w)
    return out


def check_takes(ctx, tu, info, rule='C05.1', queues=None, only_dest=False):
    for q in (queues or QUEUES):
        for f in info.members(q):
            if f.kind == 'lambda' or is_lifetime(f):
                continue
            takes = takes_of(info, f)
            if not takes:
                continue
            # the events taken belong to this call alone: they go into a list that is a local variable of the call (a data member would be
            # shared by nested calls from listeners and by other consumer threads, whose takes put this call's batch back into the queue)
            for t in takes:
                n = t['node']
                ops = ([f.call_obj(n)] if f.call_obj(n) else []) + list(f.call_args(n))
                dest = [p_ for p_ in (path(f, x) for x in ops) if p_ and p_ != ('this', '.queueList') and not p_[-1].endswith('()')]
                dest = [p_ for p_ in dest if p_[0] == 'this' or p_[0].startswith('v:')]
                member = [p_ for p_ in dest if p_[0] == 'this' and len(p_) == 2 and p_[1] not in ('.queueList',)]
                ctx.ob(rule, f, 'events are taken into a list local to the call', not member,
                       detail='taken into the data member %s at %s' % (', '.join(pstr(p_) for p_ in member), f.nloc(n)),
                       where=f.nloc(n), key_detail='take destination local')
            if only_dest:
                continue
            inv = invoke_calls(info, f)
            one = len(takes) == 1 and not f.block_reaches(takes[0]['pos'][0], takes[0]['pos'][0])
            ctx.ob(rule, f, 'events are taken out of queueList at exactly one site, outside any loop', one,
                   detail='%d take sites (%s): events enqueued by listeners during the call would be consumed by the same call'
                          % (len(takes), ', '.join(f.nloc(t['node']) for t in takes)))
            # what stands between a call and the pending events is only "is there any?": a take guarded by anything else (notification
            # state, counters ...) makes the call skip events that are pending - clearEvents would leave them, process* would report false
            if one:
                from .listrules import edge_dominates
                extra = []
                tpos = takes[0]['pos']
                for bid, blk in f.blocks.items():
                    c = blk.get('cond')
                    if not c or len(blk['succ']) != 2 or f.block_reaches(bid, bid):
                        continue
                    if not (edge_dominates(f, bid, 'true', tpos) or edge_dominates(f, bid, 'false', tpos)):
                        continue
                    try:
                        ats = F.atoms(F.boolexpr(f, c, {}, True))
                    except F.Unsupported:
                        ats = ['(not extractable)']
                    for a in ats:
                        if not (a.replace('this.', '').replace('this->', '') in ('queueList.empty()',) or a.endswith('queueList.empty()')):
                            extra.append('%s at %s' % (a, f.nloc(c)))
                ctx.ob(rule, f, 'the take is guarded by nothing but "queueList is not empty"', not extra,
                       detail='also depends on %s' % '; '.join(extra[:3]), key_detail='take guard')
            if one and inv:
                # recursion into the next prototype level (heterogeneous doProcessIf) is a separate call with its own take
                later = [n for n in inv if f.pos_reaches(f.pos(n), takes[0]['pos']) and (f.callee_key(n) or '') != f.skey]
                ctx.ob(rule, f, 'no dispatch / predicate call can be followed by the take', not later,
                       detail='user code at %s can run before the take at %s' % (', '.join(f.nloc(n) for n in later), f.nloc(takes[0]['node'])))


def get_index(fn, n):
    """Index I of a std::get<I>(x) call (from the callee's qualified name)."""
    cal = fn.callee(n)
    if not cal:
        return None
    m = re.match(r'std::get<(\d+)', cal.get('q', ''))
    return int(m.group(1)) if m else None


def check_dispatch(ctx, tu):
    for f in tu.fns:
        if f.skey not in ('EventQueueBase::doDispatchQueuedEvent', 'HeterEventQueueBase::doDispatchQueuedItem'):
            continue
        calls = [n for n in f.calls() if (f.callee(n) or {}).get('name') == 'directDispatch']
        ok = len(calls) == 1
        detail = '%d directDispatch calls' % len(calls)
        if ok:
            n = calls[0]
            item = f.params[0]['id']
            args = f.call_args(n)
            p0 = path(f, args[0]) if args else ()
            ok = bool(args) and root_var_id(p0) == item and last_field(p0) == 'event'
            idx = []
            for a in args[1:]:
                x = f.value_source(a)
                if f.is_call(x) and short((f.callee(x) or {}).get('key', '')) == 'std::get':
                    src = path(f, f.call_args(x)[0])
                    idx.append(get_index(f, x) if root_var_id(src) == item and last_field(src) == 'arguments' else None)
                else:
                    idx.append(None)
            ok = ok and idx == list(range(len(idx)))
            detail = 'event from %s, argument indices %s' % (pstr(p0), idx)
        ctx.ob('C05.D', f, 'a queued event is dispatched through directDispatch with its own event and its stored arguments in order', ok, detail=detail)
    # every dispatch of a queue slot goes through that helper
    for f in tu.fns:
        if queue_of(f) and f.outermost().name in ('process', 'processOne', 'processIf', 'processUntil', 'doProcessIf', 'dispatch') and f.kind != 'lambda':
            dd = [n for n in f.calls() if (f.callee(n) or {}).get('name') == 'directDispatch']
            ctx.ob('C05.D', f, 'processing functions dispatch only through the queued-event helper', not dd,
                   detail='direct call at %s' % ', '.join(f.nloc(n) for n in dd), key_detail='no direct directDispatch')


def check_results(ctx, tu, info):
    """peekEvent consumes nothing: its `return true` must be dominated by the locked non-empty test of queueList.
    (process*/takeEvent are judged by the slot interpretation: `return true` needs a certainly consumed slot.)"""
    for f in tu.fns_named('EventQueueBase::peekEvent'):
        bad = []
        for r in f.return_nodes():
            ks = f.kids(r)
            v = f.strip_all_casts(ks[0]) if ks else None
            if not (v and f.nodes[v]['cls'] == 'CXXBoolLiteralExpr' and f.nodes[v].get('value')):
                continue
            dom = False
            for bid, blk in f.blocks.items():
                c = blk.get('cond')
                if not c or len(blk['succ']) != 2:
                    continue
                try:
                    fm = F.boolexpr(f, c, {}, False)
                except F.Unsupported:
                    continue
                neg = False
                while fm[0] == 'not':
                    neg = not neg
                    fm = fm[1]
                if fm == ('atom', 'queueList.empty()') and edge_dominates(f, bid, 'true' if neg else 'false', f.pos(r)):
                    dom = True
            if not dom:
                bad.append(f.nloc(r))
        ctx.ob('C05.B', f, 'peekEvent reports an event only when queueList was found non-empty', not bad,
               detail='return true at %s' % ', '.join(bad))


def self_consumed_list(f, lst, nm):
    """The list whose non-emptiness guards `return true` must be the one holding what this call consumed: for processIf /
    processUntil the list of *dispatched* slots (idle), not the list of taken ones."""
    name = lst.split('.')[-1]
    if nm in ('processIf', 'processUntil', 'doProcessIf'):
        # the guarded list must receive elements only after a clear() (dispatched slots)
        for n in f.calls():
            cal = f.callee(n)
            if cal and cal['name'] == 'splice' and f.call_obj(n) and pstr(path(f, f.call_obj(n))).endswith(name) and len(f.call_args(n)) == 3:
                return True
        return False
    return True
