// Witness (programs that must build + static_asserts): invocation / dispatch / enqueue of the heterogeneous classes select the first
// listed prototype callable with the argument *as passed* (value category and constness included). A compile error here is a property
// violation ("selects the first listed prototype callable with its argument types"), reported with the compiler's message.
#include <eventpp/hetercallbacklist.h>
#include <eventpp/hetereventdispatcher.h>
#include <eventpp/hetereventqueue.h>
#include <string>
#include <type_traits>

namespace wit_heter_calls {

struct Msg { int v; };
using eventpp::internal_::FindPrototypeByArgs;

// a non-const lvalue reference prototype listed before a by-value one
using PLRef = eventpp::HeterTuple<void (Msg &), void (Msg), void (int, const std::string &)>;
static_assert(FindPrototypeByArgs<PLRef, Msg &>::index == 0, "an lvalue selects void (Msg &)");
static_assert(FindPrototypeByArgs<PLRef, Msg>::index == 1, "an rvalue cannot bind to Msg &: void (Msg) is selected");
static_assert(FindPrototypeByArgs<PLRef, Msg &&>::index == 1, "an xvalue selects void (Msg)");
static_assert(FindPrototypeByArgs<PLRef, const Msg &>::index == 1, "a const lvalue cannot bind to Msg &: void (Msg) is selected");
static_assert(FindPrototypeByArgs<PLRef, int, const char (&)[2]>::index == 2, "convertible arguments select the third prototype");
static_assert(FindPrototypeByArgs<PLRef, double *>::index < 0, "nothing callable: negative index");

// only a reference prototype: lvalues are accepted, the program builds
using PLOnlyRef = eventpp::HeterTuple<void (Msg &), void (int)>;

void all()
{
	Msg m{1};
	{
		eventpp::HeterCallbackList<PLOnlyRef> list;
		list.append([](Msg & x) { ++x.v; });
		list.append([](int) {});
		list(m);
		list(5);
	}
	{
		eventpp::HeterEventDispatcher<int, PLOnlyRef> d;
		d.appendListener(1, [](Msg & x) { ++x.v; });
		d.dispatch(1, m);
		d.dispatch(1, 7);
	}
	{
		eventpp::HeterCallbackList<PLRef> list;
		list.append([](Msg & x) { ++x.v; });
		list.append([](Msg) {});
		list(m);
		list(Msg{2});
		const Msg cm{3};
		list(cm);
	}
	{
		eventpp::HeterEventQueue<int, eventpp::HeterTuple<void (const Msg &), void (int)> > q;
		q.appendListener(1, [](const Msg &) {});
		q.enqueue(1, m); q.enqueue(1, Msg{4}); q.enqueue(1, 9);
		(void)q.process();
	}
}

} // namespace wit_heter_calls
