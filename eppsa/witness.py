"""Compile-time witnesses: type-check units with g++ / clang++ (-fsyntax-only); static_assert and compile-fail families."""
import os
import re
import subprocess
from concurrent.futures import ThreadPoolExecutor

from . import extract
from .facts import AnalysisBroken

COMPILERS = {'g++': ['g++'], 'clang++': ['clang++']}
STDS_QUICK = ['c++17']
STDS_ALL = ['c++11', 'c++14', 'c++17', 'c++20']


def syntax_check(unit, compiler='g++', std='c++17', extra=(), limit_errors=False):
    cmd = COMPILERS[compiler] + ['-std=' + std, '-fsyntax-only', '-I' + os.path.join(extract.REPO, 'include'),
                                 '-I' + os.path.join(extract.VERIF, 'witness'), '-DNDEBUG', '-UEVENTPP_VERIF', '-w']
    if limit_errors is False:
        cmd += ['-fmax-errors=0'] if compiler == 'g++' else ['-ferror-limit=0']
    cmd += list(extra) + [unit]
    r = subprocess.run(cmd, stdout=subprocess.PIPE, stderr=subprocess.STDOUT, text=True)
    return r.returncode, r.stdout


def error_lines(output, unit):
    """Lines of `unit` on which a diagnostic 'error' was reported, either directly or through the instantiation trace."""
    base = os.path.basename(unit)
    lines = set()
    for m in re.finditer(re.escape(base) + r':(\d+):\d+: (?:fatal )?error', output):
        lines.add(int(m.group(1)))
    return lines


def run_matrix(jobs):
    """jobs: list of (unit, compiler, std, extra). Returns list of (job, rc, output)."""
    out = [None] * len(jobs)

    def run(i):
        u, c, s, e = jobs[i]
        rc, o = syntax_check(u, c, s, e)
        out[i] = (jobs[i], rc, o)

    with ThreadPoolExecutor(max_workers=min(16, os.cpu_count() or 4)) as ex:
        list(ex.map(run, range(len(jobs))))
    return out


def mentioned_lines(output, unit):
    """Lines of `unit` named in an error or in the instantiation trace of an error."""
    base = os.path.basename(unit)
    lines = set()
    for m in re.finditer(re.escape(base) + r':(\d+):\d+:\s+(?:fatal error|error|required from here|note: in instantiation of[^\n]*requested here|  required from)', output):
        lines.add(int(m.group(1)))
    return lines


def check_static_unit(ctx, rule, unit, what, tier=None, tag=None):
    """All static_asserts of `unit` hold under g++ and clang++ (quick: c++11 and c++17; thorough: 11/14/17/20).
    With `tag` only the asserts marked `// @<tag>` are this rule's: a failing assert of another tag is ignored here (it belongs to
    another property's check); an error on a line that is no tagged assert means the unit itself no longer builds - analysis-broken."""
    tier = tier or ctx.tier
    stds = STDS_ALL if tier == 'thorough' else ['c++11', 'c++17']
    lines = open(unit).read().splitlines()
    tags = {}
    for i, l in enumerate(lines, 1):
        if re.search(r'\bstatic_assert\s*\(', l) or re.search(r'//.*@C\d\d', l):     # a tagged line may expand a macro of asserts
            tags[i] = set(re.findall(r'@(C\d\d)', l))
    own = [i for i, t in tags.items() if tag is None or tag in t]
    n_asserts = len(own)
    if tag is not None and not own:
        raise AnalysisBroken('%s: no static_assert tagged @%s in %s' % (rule, tag, os.path.basename(unit)))
    jobs = [(unit, c, s, ()) for c in ('g++', 'clang++') for s in stds]
    name = 'witness/' + os.path.basename(unit)
    for (u, c, s, e), rc, out in run_matrix(jobs):
        errs = [l for l in out.splitlines() if ' error' in l]
        ok = rc == 0
        shown = errs[:3]
        if tag is not None and rc != 0:
            failing = mentioned_lines(out, unit)
            mine = sorted(x for x in failing if x in own)
            foreign = sorted(x for x in failing if x in tags and x not in own)
            other = sorted(x for x in failing if x not in tags)
            if other or not failing:
                ctx.broken_later('%s: %s does not build any more with %s -std=%s (error outside the tagged asserts, lines %s)' % (rule, name, c, s, other))
                ok = True if not mine else False
            else:
                ok = not mine
            shown = [l for l in errs if any((':%d:' % x) in l for x in mine)][:3]
        ctx.ob(rule, name, '%s: %d static_assert witnesses hold with %s -std=%s' % (what, n_asserts, c, s), ok,
               detail='\n'.join(x[:300] for x in shown), key_detail='static %s %s' % (c, s))
    ctx.extra.setdefault('static_asserts', {})[os.path.basename(unit) + ((':' + tag) if tag else '')] = n_asserts
    return n_asserts


def check_fail_unit(ctx, rule, unit, what, tier=None):
    """Every line marked EXPECT-ERROR is rejected by both compilers and nothing else is."""
    tier = tier or ctx.tier
    stds = STDS_ALL if tier == 'thorough' else ['c++17']
    expected = set()
    for i, l in enumerate(open(unit).read().splitlines(), 1):
        if 'EXPECT-ERROR' in l:
            expected.add(i)
    jobs = [(unit, c, s, ()) for c in ('g++', 'clang++') for s in stds]
    name = 'witness/' + os.path.basename(unit)
    for (u, c, s, e), rc, out in run_matrix(jobs):
        got = mentioned_lines(out, unit)
        missing = sorted(expected - got)
        extra = sorted(got - expected)
        ctx.ob(rule, name, '%s: %d programs that must not build are rejected by %s -std=%s, the others accepted' % (what, len(expected), c, s),
               not missing and not extra and rc != 0,
               detail='accepted although it must be rejected: lines %s; rejected although it must build: lines %s' % (missing, extra),
               key_detail='compile-fail %s %s' % (c, s))
    return len(expected)
