"""C13 — OrderedQueueList processes events in comparator order, stably, exactly once.

  S1 every insertion re-sorts: each splice overload of OrderedQueueList performs the base-class splice and then doSort() on all
     paths; the queue applies to an ordered list only the whitelisted base members (empty/begin/end/front/swap/emplace_back),
     and emplace_back only to a local list
  S2 doSort() resolves to std::list::sort (stable by the standard) with the library's comparator lambda
  S3 comparator laws: the sort lambda, as an extracted formula over a.empty(), b.empty() and compare(a.get(), b.get()), is a
     strict weak order whenever compare is one, puts emptied slots first, equals compare on full slots, and evaluates get()
     only on non-empty operands (exhaustive over all emptiness/ordering configurations of three slots)
  S4 SelectQueueList witness; the exactly-once rules are C05/C06 evaluated on the OrderedQueueList instantiations
"""
import itertools
import os

from ..facts import AnalysisBroken, short
from ..paths import path, pstr, root_var_id
from .. import formula as F
from .. import witness, extract
from .c18 import weak_orderings

EXPLANATION = 'C13: sort-after-every-insertion, whitelisted base members, stable sort callee, comparator laws by exhaustive enumeration over the extracted formula.'
ASSUMPTIONS = ['std::list::sort is stable and correct (C++ standard); the user comparator is a strict weak order']
UNITS = ['w_queue.cpp']

BASE_WHITELIST = {'empty', 'begin', 'end', 'front', 'swap', 'emplace_back', 'cbegin', 'cend'}


def check(ctx):
    ctx.rule('C13.S1', 'every insertion into an ordered list is followed by doSort(); only whitelisted base members are used')
    ctx.rule('C13.S2', 'doSort is a stable sort with the library comparator')
    ctx.rule('C13.S3', 'comparator lambda is a strict weak order extending compare, empties first, get() only on full slots')
    ctx.rule('C13.S5', 'slot protocol of the queue instantiated with the ordered list: elements enter the list only when they hold their event')
    ctx.rule('C13.S4', 'SelectQueueList picks the policy list')
    # the ordered list sorts at splice time and reads each element's event for that: an element may enter the queue list only once
    # it holds its event (FULL), and the exactly-once slot protocol holds for the ordered instantiations like for std::list
    from .c05 import run_slot_rules
    nint = 0
    for tu in ctx.tus:
        check_tu(ctx, tu)
        nint += run_slot_rules(ctx, 'C13.S5', 'C13.S5', tu, only_kinds=('P-', 'O-'), classes=('EventQueueBase',),
                               fn_filter=lambda f: 'OrderedQueueList' in f.clsq or 'PoliciesOrdered' in f.clsq)
    ctx.require(nint >= 6, 'C13.S5: fewer than 6 processing functions of queues with the ordered list were interpreted (%d)' % nint)
    ctx.require_min('C13.S5', 4)
    ctx.require_min('C13.S1', 3)
    ctx.require_min('C13.S2', 1)
    ctx.require_min('C13.S3', 1)
    witness.check_static_unit(ctx, 'C13.S4', os.path.join(extract.VERIF, 'witness', 's_meta.cpp'), 'queue list policy detection', tag='C13')
    witness.check_static_unit(ctx, 'C13.S4', os.path.join(extract.VERIF, 'witness', 's_select.cpp'), 'queue list selection', tag='C13')


def guarded_gets(ctx, tu, rule):
    """Necessary: a slot's content is read (get()) only where the same slot was established non-empty - the ordered list also holds
    recycled (cleared) slots while it serves as free list / idle list, and get() on a cleared slot reads a destroyed event."""
    from .listrules import edge_dominates
    n = 0
    for f in tu.fns:
        if not (f.outermost().cls == 'OrderedQueueList' or f.outermost().skey.startswith('OrderedQueueList::')):
            continue
        for c in f.calls():
            cal = f.callee(c)
            if not cal or cal.get('name') != 'get' or 'Buffered' not in (cal.get('cls') or ''):
                continue
            obj = f.call_obj(c)
            po = path(f, obj) if obj else ()
            ok = False
            for bid, blk in f.blocks.items():
                cond = blk.get('cond')
                if not cond or len(blk['succ']) != 2:
                    continue
                x = f.strip_all_casts(cond)
                neg = False
                while f.nodes[x]['cls'] == 'UnaryOperator' and f.nodes[x].get('op') == '!':
                    neg = not neg
                    x = f.strip_all_casts(f.kids(x)[0])
                if f.is_call(x) and (f.callee(x) or {}).get('name') == 'empty' and f.call_obj(x) and path(f, f.call_obj(x)) == po:
                    if edge_dominates(f, bid, 'true' if neg else 'false', f.pos(c)):
                        ok = True
            n += 1
            ctx.ob(rule, f, 'get() is applied only to a slot established non-empty on every path to the call', ok,
                   detail='%s.get() at %s is not dominated by the false edge of %s.empty()' % (pstr(po), f.nloc(c), pstr(po)),
                   where=f.nloc(c), key_detail='guarded get')
    return n


def binds_local_list(tu, f, p, depth=0):
    """The list denoted by path p in f is a local list: a local of f, or a reference parameter of a non-public helper every call
    site of which passes a local list (of its own, or one it received the same way)."""
    vid = root_var_id(p)
    if vid is None or len(p) != 1:
        return False
    if vid in f.var_decls():
        return True
    pidx = {pp['id']: i for i, pp in enumerate(f.params)}
    if vid not in pidx or depth > 3 or f.access not in ('private', 'protected'):
        return False
    callers = tu.callers().get(f.id, [])
    if not callers:
        return False
    for (g, n) in callers:
        args = g.call_args(n)
        if pidx[vid] >= len(args) or not binds_local_list(tu, g, path(g, args[pidx[vid]]), depth + 1):
            return False
    return True


def std_sorts(f):
    """Direct calls of the stable list sort on this list."""
    return [n for n in f.calls() if (f.callee_key(n) or '') in ('std::list::sort',) and (path(f, f.call_obj(n)) if f.call_obj(n) else ('this',)) == ('this',)]


def sort_sites(f):
    """Calls in f after which this list is sorted: the stable std::list::sort on this, or a member helper of the class (doSort, or
    whatever it is called) every path of which performs that sort."""
    out = list(std_sorts(f))
    for n in f.calls():
        for g in f.callee_fns(n):
            if g.cls == 'OrderedQueueList' and g.id != f.id and g.kind == 'method' and (path(f, f.call_obj(n)) if f.call_obj(n) else ('this',)) == ('this',):
                if any(g.pos_postdominates(g.pos(s_), (g.entry, 0)) for s_ in std_sorts(g)):
                    out.append(n)
    return out


def check_tu(ctx, tu):
    guarded_gets(ctx, tu, 'C13.S3')
    for f in tu.fns_named('OrderedQueueList::splice'):
        base = [n for n in f.calls() if (f.callee_key(n) or '').startswith('std::list::') and (f.callee(n) or {}).get('name') in
                ('splice', 'merge', 'insert', 'emplace', 'push_back', 'push_front', 'emplace_back', 'emplace_front')]
        sorts = sort_sites(f)

        def arg_roots(call):
            got = []
            for a in f.call_args(call):
                x = f.strip_all_casts(a)
                while f.is_construct(x) and len(f.nodes[x].get('args', [])) == 1:
                    x = f.strip_all_casts(f.nodes[x]['args'][0])
                got.append(root_var_id(path(f, x, resolve_refs=False)))
            return got
        # (a) necessary for the whole-list overload: the queue puts declined events back with splice(begin(), ...) and appends with
        #     splice(end(), ...); among equal keys the position decides the order, so the position parameter has to reach the insertion
        if len(f.params) == 2:
            pos_id = f.params[0]['id']
            used = any(pos_id in arg_roots(b) for b in base)
            ctx.ob('C13.S1', f, 'the position parameter reaches the insertion (it orders the inserted elements among equal keys)', used,
                   detail='`%s` is not passed to any inserting base member (%s): put-back events would lose their place ahead of newer equal events'
                          % (f.params[0].get('name', 'pos'), ', '.join(sorted({short(f.callee_key(b)) for b in base})) or 'none'),
                   key_detail='position used')
        # (b) the recognised idiom: base splice with the overload's own arguments, then the stable sort on every path. Another way of
        #     keeping the list sorted (e.g. a placement walk) is not modelled: reported as analysis-broken, never as a violation.
        own = [b for b in base if (f.callee(b) or {}).get('name') == 'splice' and arg_roots(b) == [p['id'] for p in f.params]
               and (path(f, f.call_obj(b)) if f.call_obj(b) else ()) == ('this',)]
        if len(own) == 1 and len(base) == 1:
            ok = any(f.pos_postdominates(f.pos(s_), (f.entry, 0)) and f.pos_dominates(f.pos(own[0]), f.pos(s_)) and f.pos(s_) != f.pos(own[0]) for s_ in sorts)
            ctx.ob('C13.S1', f, 'after the base splice the list is sorted on every path', ok,
                   detail='base splice at %s, doSort calls: %d (none post-dominating the splice)' % (f.nloc(own[0]), len(sorts)),
                   key_detail='splice then sort')
        elif len(f.params) == 2 and base and not any(f.params[0]['id'] in arg_roots(b) for b in base):
            pass        # already a violation of (a)
        else:
            ctx.broken_later('C13.S1: %s keeps the list ordered by an idiom the rule does not model (inserting calls: %s) - '
                             'extend check_tu before trusting a verdict' % (f.pattern(), ', '.join(sorted({short(f.callee_key(b)) for b in base})) or 'none'))
    # public insertion points of the class: any method other than splice that adds elements must sort too
    for f in tu.fns:
        if f.cls == 'OrderedQueueList' and f.kind == 'method' and f.name not in ('splice', 'doSort'):
            adds = [n for n in f.calls() if (f.callee_key(n) or '').startswith('std::list::') and (f.callee(n) or {}).get('name') in
                    ('splice', 'push_back', 'push_front', 'emplace_back', 'emplace_front', 'insert', 'emplace', 'merge')]
            if adds:
                sorts = sort_sites(f)
                ok = any(f.pos_postdominates(f.pos(s), (f.entry, 0)) for s in sorts)
                ctx.ob('C13.S1', f, '%s adds elements and sorts afterwards' % f.name, ok)
    # uses of base members on ordered lists from outside the class
    for f in tu.fns:
        if f.cls == 'OrderedQueueList' or f.skey.startswith('OrderedQueueList::'):
            continue
        for n in f.calls():
            cal = f.callee(n)
            obj = f.call_obj(n)
            if not cal or not obj or not short(cal['key']).startswith('std::list::'):
                continue
            # object expression before the derived-to-base conversion
            o = obj
            t = f.ntype(o)
            inner = f.strip(o)
            ti = None
            for d in [o] + f.descendants(o):
                tt = f.ntype(d)
                if tt and short(tt.get('rec') or '') == 'OrderedQueueList':
                    ti = tt
                    break
                if f.nodes[d]['cls'] not in ('ImplicitCastExpr', 'ParenExpr', 'MemberExpr', 'DeclRefExpr', 'CXXThisExpr'):
                    break
            if ti is None:
                continue
            name = cal['name']
            ctx.ob('C13.S1', f, 'only non-inserting (or sorting) members are applied to an ordered list (%s)' % name, name in BASE_WHITELIST,
                   detail='%s at %s bypasses the sorting wrappers' % (short(cal['key']), f.nloc(n)), where=f.nloc(n),
                   key_detail='base member ' + name)
            if name == 'emplace_back':
                p = path(f, obj)
                islocal = binds_local_list(tu, f, p)
                ctx.ob('C13.S1', f, 'emplace_back (which does not sort) is applied only to a local list', islocal,
                       detail='receiver %s at %s' % (pstr(p), f.nloc(n)), where=f.nloc(n), key_detail='emplace_back local')
    for f in tu.fns_named('OrderedQueueListCompare::operator()'):
        try:
            env = {f.params[0]['id']: 'a', f.params[1]['id']: 'b'} if len(f.params) == 2 else {}
            fm = F.formula(f, env, inline=False)
            ok = fm == ('atom', 'a.event < b.event')
        except F.Unsupported:
            ok = False
        ctx.ob('C13.S3', f, 'the default comparator orders queued events by `a.event < b.event` (a strict order on the event key)', ok,
               detail='extracted %s' % (F.show(fm) if 'fm' in dir() and fm else '?'), key_detail='default comparator')
    for f in tu.fns:
        # wherever the class sorts (doSort, or the sort written out in the splice overloads)
        if f.cls != 'OrderedQueueList' or f.kind != 'method':
            continue
        sorts = [n for n in f.calls() if (f.callee(n) or {}).get('name') in ('sort', 'stable_sort')]
        if not sorts:
            continue
        ok = len(sorts) == 1 and (f.callee_key(sorts[0]) or '') in ('std::list::sort', 'std::stable_sort')
        ctx.ob('C13.S2', f, 'doSort calls the stable std::list::sort exactly once on this list', ok and (path(f, f.call_obj(sorts[0])) if ok and f.call_obj(sorts[0]) else ('this',)) == ('this',),
               detail='sorting callees: %s' % [f.callee_key(n) for n in f.calls() if 'sort' in ((f.callee(n) or {}).get('name') or '')])
        comps = comparator_functions(tu, f, sorts[0]) if len(sorts) == 1 else []
        ctx.ob('C13.S2', f, 'the sort comparator is a library function the analysis can read (lambda, functor or function)', len(comps) == 1,
               detail='%d candidate comparator bodies' % len(comps))
        for lam in comps:
            check_comparator(ctx, tu, lam)


ATOMS = ('a.empty()', 'b.empty()')


def comparator_functions(tu, f, sortcall):
    """The library function(s) that implement the comparator passed to the sort call: a lambda's call operator, the
    operator() of a library functor, or a library function whose address is passed."""
    out = []
    args = f.call_args(sortcall)
    if not args:
        return out
    a = f.value_source(args[-1])
    # a local variable holding the comparator
    if f.nodes[a]['cls'] == 'DeclRefExpr' and f.decl(a)['kind'] == 'var':
        vd = f.var_decls().get(f.decl(a)['id'])
        if vd and vd.get('init'):
            a = f.value_source(vd['init'])
    for d in [a] + f.descendants(a):
        o = f.nodes[d]
        if o['cls'] == 'LambdaExpr' and o.get('fid') in tu.by_id:
            out.append(tu.by_id[o['fid']])
            return out
    for d in [a] + f.descendants(a):
        o = f.nodes[d]
        if o['cls'] == 'DeclRefExpr' and f.decl(d)['kind'] == 'func' and f.decl(d).get('fid', -1) in tu.by_id:
            out.append(tu.by_id[f.decl(d)['fid']])
            return out
    t = f.ntype(a)
    if t and t.get('recq'):
        for g in tu.fns:
            if g.name == 'operator()' and g.clsq == t['recq'] and len(g.params) == 2:
                out.append(g)
    return out


def check_comparator(ctx, tu, lam):
    try:
        env = {}
        if len(lam.params) == 2:
            env = {lam.params[0]['id']: 'a', lam.params[1]['id']: 'b'}
        fm = F.formula(lam, env, inline=False)
    except F.Unsupported as e:
        raise AnalysisBroken('C13.S3: cannot extract the sort comparator: %s' % e)
    ats = F.atoms(fm)
    cmp_atoms = [a for a in ats if a not in ATOMS]
    if len(cmp_atoms) > 1 or any('get()' not in a for a in cmp_atoms):
        raise AnalysisBroken('C13.S3: unrecognised atoms in the comparator: %s' % ats)
    cmp_atom = cmp_atoms[0] if cmp_atoms else None
    swapped = False
    if cmp_atom is not None:
        ia, ib = cmp_atom.find('a.get()'), cmp_atom.find('b.get()')
        if ia < 0 or ib < 0:
            raise AnalysisBroken('C13.S3: comparator atom "%s" does not compare a.get() with b.get()' % cmp_atom)
        swapped = ib < ia
    ctx.sample({'rule': 'C13.S3', 'comparator': F.show(fm)})
    fails = {}
    ncases = 0

    class GetOnEmpty(Exception):
        pass

    def less(x, y, empty, rank):
        # evaluate the lambda with a:=x, b:=y
        def ev(f):
            k = f[0]
            if k == 'const':
                return f[1]
            if k == 'not':
                return not ev(f[1])
            if k == 'and':
                return ev(f[1]) and ev(f[2])
            if k == 'or':
                return ev(f[1]) or ev(f[2])
            a = f[1]
            if a == 'a.empty()':
                return empty[x]
            if a == 'b.empty()':
                return empty[y]
            if empty[x] or empty[y]:
                raise GetOnEmpty()
            return (rank[y] < rank[x]) if swapped else (rank[x] < rank[y])
        return ev(fm)

    for empt in itertools.product([False, True], repeat=3):
        for rank in weak_orderings(3):
            ncases += 1
            try:
                L = lambda x, y: less(x, y, empt, rank)
                for x in range(3):
                    if L(x, x):
                        fails.setdefault('irreflexive', (empt, rank))
                for x, y in itertools.permutations(range(3), 2):
                    if L(x, y) and L(y, x):
                        fails.setdefault('asymmetric', (empt, rank))
                    if empt[x] and not empt[y] and not L(x, y):
                        fails.setdefault('emptied slots sort before full ones', (empt, rank))
                    if not empt[x] and empt[y] and L(x, y):
                        fails.setdefault('emptied slots sort before full ones', (empt, rank))
                    if not empt[x] and not empt[y] and L(x, y) != (rank[x] < rank[y]):
                        fails.setdefault('equals compare on full slots (non-decreasing comparator order, ties kept stable)', (empt, rank))
                for x, y, z in itertools.permutations(range(3), 3):
                    if L(x, y) and L(y, z) and not L(x, z):
                        fails.setdefault('transitive', (empt, rank))
                    ixy = not L(x, y) and not L(y, x)
                    iyz = not L(y, z) and not L(z, y)
                    ixz = not L(x, z) and not L(z, x)
                    if ixy and iyz and not ixz:
                        fails.setdefault('incomparability transitive', (empt, rank))
            except GetOnEmpty:
                fails.setdefault('get() is evaluated only on non-empty slots', (empt, rank))
    for nm in ('irreflexive', 'asymmetric', 'transitive', 'incomparability transitive', 'emptied slots sort before full ones',
               'equals compare on full slots (non-decreasing comparator order, ties kept stable)', 'get() is evaluated only on non-empty slots'):
        ctx.ob('C13.S3', lam, 'sort comparator: %s (%d configurations)' % (nm, ncases), nm not in fails,
               detail='comparator %s fails for (empty flags, ranks) = %s' % (F.show(fm), fails.get(nm)), key_detail=nm)
    ctx.extra['comparator_configurations'] = ncases
