"""Rules over CallbackListBase shared by C01, C02, C19: traversal idiom, removed-node typestate, generations."""
from ..facts import AnalysisBroken, short
from ..paths import path, pstr, last_field, root_var_id, fields_in
from ..locks import mutex_name
from .. import formula as F

LIST = 'CallbackListBase'
TRAVERSALS = ('CallbackListBase::doForEachIf', 'CallbackListBase::operator()')


def is_node_ptr_type(tu, tidx):
    t = tu.type(tidx)
    return bool(t) and t.get('rec') == 'std::shared_ptr' and 'Node' in t['s']


def live_test(fn, cond, var_term):
    """If the branch condition `cond` is (in)equality of <var>.counter with the removed mark (0), return the edge
    ('true'/'false') on which the node is known to be live; else None."""
    try:
        f = F.boolexpr(fn, cond, {}, True)
    except F.Unsupported:
        return None
    neg = False
    while f[0] == 'not':
        neg = not neg
        f = f[1]
    if f[0] != 'atom':
        return None
    a = f[1]
    want1 = '0 == %s.counter' % var_term
    want2 = '%s.counter == 0' % var_term
    if a in (want1, want2) or a.replace('this.', '') in (want1, want2):
        # atom is "counter == removed": live on its false edge
        return 'true' if neg else 'false'
    return None


def nonnull_test(fn, cond, var_term):
    try:
        f = F.boolexpr(fn, cond, {}, False)
    except F.Unsupported:
        return None
    neg = False
    while f[0] == 'not':
        neg = not neg
        f = f[1]
    if f[0] == 'atom' and f[1] in (var_term, var_term + '.operator bool()', 'nullptr == ' + var_term, var_term + ' == nullptr'):
        if 'nullptr' in f[1]:
            return 'false' if not neg else 'true'
        return 'false' if neg else 'true'
    return None


def edge_dominates(fn, blk_id, role, pos):
    """The `role` edge out of branch block blk_id dominates position pos."""
    blk = fn.blocks[blk_id]
    succ = blk['succ']
    if len(succ) != 2:
        return False
    s = succ[0] if role == 'true' else succ[1]
    o = succ[1] if role == 'true' else succ[0]
    if s is None:
        return False
    if s == o:
        return False
    # pos is dominated by s, and s is entered only via this edge (or s's other predecessors are dominated by s: loops)
    if not (pos[0] == s or s in fn.dom()[pos[0]]):
        return False
    preds = [p for p in fn.preds().get(s, []) if p in fn.reachable_blocks()]
    for p in preds:
        if p == blk_id:
            continue
        if s in fn.dom()[p]:
            continue   # back edge from inside the region
        return False
    return True


def live_dominating(fn, info, var_id, var_name, pos, need_lock=True):
    """Is `pos` dominated by an edge establishing var->counter != removed, tested under the list mutex with that same
    lock still held at pos (or both covered by the entry lockset)?"""
    for bid, blk in fn.blocks.items():
        c = blk.get('cond')
        if not c or len(blk['succ']) != 2:
            continue
        role = live_test(fn, c, var_name)
        if role is None:
            continue
        if not edge_dominates(fn, bid, role, pos):
            continue
        if not need_lock:
            return True
        si = info.scopes(fn)
        cpos = fn.pos(c)
        a = {x for x in si.held_must_full(cpos) if x[0] == 'lock' and mutex_name(x[1]) == 'mutex'}
        b = {x for x in si.held_must_full(pos) if x[0] == 'lock' and mutex_name(x[1]) == 'mutex'}
        if a & b:
            return True
        if any(mutex_name(m) == 'mutex' for m in info.entry_locks(fn, True)):
            return True
    return False


def handle_locked_vars(fn):
    """Locals initialised from <parameter handle>.lock(): var id -> (name, handle param id, decl node)."""
    out = {}
    pids = fn.param_ids()
    for vid, vd in fn.var_decls().items():
        init = vd.get('init')
        if not init:
            continue
        n = fn.strip_all_casts(init)
        while fn.is_construct(n) and len(fn.nodes[n].get('args', [])) == 1:
            n = fn.strip_all_casts(fn.nodes[n]['args'][0])
        if fn.nodes[n]['cls'] == 'CXXMemberCallExpr' and (fn.callee(n) or {}).get('name') == 'lock':
            obj = fn.call_obj(n)
            rid = root_var_id(path(fn, obj)) if obj else None
            if rid in pids:
                out[vid] = (vd['name'], rid, vd['stmt'])
    return out


def check_traversal(ctx, rule, tu, info):
    """C01.T / C02.T3 / C02.T5 / C19.G: the traversal idiom in doForEachIf and the GCC-4 operator()."""
    found = 0
    for f in tu.fns:
        if f.skey not in TRAVERSALS:
            continue
        # the cursor: a local shared_ptr<Node> assigned from head and from its own next inside a loop
        cursors = []
        for vid, vd in f.var_decls().items():
            if is_node_ptr_type(tu, vd['t']):
                cursors.append((vid, vd))
        loops = [b for b in f.blocks if f.block_reaches(b, b)]
        if f.skey.endswith('operator()') and not loops:
            continue    # lambda variant: delegates to forEachIf -> doForEachIf
        found += 1
        ok_cursor = len(cursors) == 1 and tu.type(cursors[0][1]['t'])['ref'] == 0
        ctx.ob(rule, f, 'the traversal cursor is one shared_ptr<Node> held by value (it owns the running node)', ok_cursor,
               detail='cursor candidates: %s' % [(vd['name'], tu.tstr(vd['t'])) for _, vd in cursors])
        if not ok_cursor:
            continue
        cid, cvd = cursors[0]
        cname = cvd['name']
        ws = [w for w in info.writes(f) if w['path'] == ('v:%s#%d' % (cname, cid),) and w['how'] == 'assign']
        from_head = [w for w in ws if path(f, w['rhs']) == ('this', '.head')]
        advance = [w for w in ws if path(f, w['rhs']) == ('v:%s#%d' % (cname, cid), '*', '.next')]
        other = [w for w in ws if w not in from_head and w not in advance]
        # the two cursor moves may sit in small private helpers that receive the cursor by reference (doMoveToHead(node),
        # doMoveToNext(node)): what the helper assigns to its parameter is assigned to the cursor at the call
        for n in f.calls():
            args = f.call_args(n)
            for g in f.callee_fns(n):
                if g.kind == 'lambda' or g.id == f.id:
                    continue
                for prm, a in zip(g.params, args):
                    if path(f, a, resolve_refs=False) != ('v:%s#%d' % (cname, cid),) or prm.get('pass') != 'lref':
                        continue
                    proot = 'v:%s#%d' % (prm.get('name'), prm['id'])
                    for w in info.writes(g):
                        if w['path'] != (proot,) or w['how'] != 'assign':
                            continue
                        rp = path(g, w['rhs'])
                        pseudo = {'pos': f.pos(n), 'node': n, 'rhs': None, 'how': 'assign', 'path': ('v:%s#%d' % (cname, cid),)}
                        if rp == ('this', '.head'):
                            from_head.append(pseudo)
                        elif rp == (proot, '*', '.next'):
                            advance.append(pseudo)
                        else:
                            other.append(pseudo)
        ctx.ob(rule, f, 'the cursor starts at head (read once, before the loop)',
               len(from_head) == 1 and not f.block_reaches(from_head[0]['pos'][0], from_head[0]['pos'][0]),
               detail='%d assignments from head' % len(from_head))
        ctx.ob(rule, f, 'the cursor is only ever advanced to its own next', not other and len(advance) >= 1,
               detail='other assignments: %s' % [f.nloc(w['node']) for w in other])
        # exactly one advance on every path through the loop body: the advance post-dominates the loop condition's
        # true edge and is in the loop
        loopconds = [b for b in loops if f.blocks[b].get('cond') and nonnull_test(f, f.blocks[b]['cond'], cname)]
        ctx.ob(rule, f, 'the loop runs while the cursor is non-null', len(loopconds) == 1,
               detail='loop condition blocks: %s' % loopconds)
        if len(loopconds) == 1 and len(advance) == 1:
            lb = loopconds[0]
            body = f.blocks[lb]['succ'][0]
            adv = advance[0]
            # every path from the body entry back to the loop condition passes the advance; paths leaving the loop
            # (return/break) need not
            okadv = adv_on_all_back_paths(f, body, lb, adv['pos'])
            ctx.ob(rule, f, 'every iteration advances the cursor exactly once before re-testing it', okadv,
                   detail='a path through the loop body returns to the loop test without passing the advance at %s (the same '
                          'callback would be visited again)' % f.nloc(adv['node']))
        # the callable is invoked on the cursor's node, guarded by live && counter <= captured
        invokes = []
        for n in f.calls():
            o = f.nodes[n]
            args = f.call_args(n)
            if o['cls'] == 'CXXOperatorCallExpr' and o.get('op') == '()':
                objp = path(f, o['obj']) if o.get('obj') else ()
                argps = [path(f, a) for a in args]
                if ('v:%s#%d' % (cname, cid),) in argps or (objp and root_var_id(objp) == cid):
                    invokes.append(n)
            elif o['cls'] == 'CallExpr' and o.get('c', -1) == -1:
                invokes.append(n)
        ctx.ob(rule, f, 'the visitor is invoked at exactly one site, on the cursor\'s node', len(invokes) == 1,
               detail='invocation sites: %s' % [f.nloc(n) for n in invokes])
        # captured generation
        caps = []
        for vid, vd in f.var_decls().items():
            init = vd.get('init')
            if init and 'currentCounter' in fields_in(path(f, init)) and (f.callee(f.strip_all_casts(init)) or {}).get('name') == 'load':
                caps.append((vid, vd))
        okcap = len(caps) == 1 and not f.block_reaches(f.pos(caps[0][1]['stmt'])[0], f.pos(caps[0][1]['stmt'])[0])
        ctx.ob(rule, f, 'the invocation\'s generation is captured once, before the loop', okcap,
               detail='captures: %s' % [vd['name'] for _, vd in caps])
        if invokes and okcap:
            gname = caps[0][1]['name']
            inv = invokes[0]
            ipos = f.pos(inv)
            live_ok = live_dominating(f, info, cid, cname, ipos, need_lock=False)
            gen_ok = False
            for bid, blk in f.blocks.items():
                c = blk.get('cond')
                if not c or len(blk['succ']) != 2:
                    continue
                try:
                    fm = F.boolexpr(f, c, {}, True)
                except F.Unsupported:
                    continue
                # node.counter <= captured  <=>  !(captured < node.counter)
                want = ('not', ('atom', '%s < %s.counter' % (gname, cname)))
                role = None
                if fm == want:
                    role = 'true'
                elif fm == want[1]:
                    role = 'false'
                if role and edge_dominates(f, bid, role, ipos):
                    gen_ok = True
            if not (live_ok and gen_ok):
                # the same two facts established another way (e.g. a guard `if(removed || newer) continue;`): whatever is known on the
                # edges that dominate the visit has to imply "not removed" and "generation <= captured"
                known = ('const', True)
                for bid, blk in f.blocks.items():
                    c = blk.get('cond')
                    if not c or len(blk['succ']) != 2:
                        continue
                    try:
                        fm = F.boolexpr(f, c, {}, True)
                    except F.Unsupported:
                        continue
                    if edge_dominates(f, bid, 'true', ipos):
                        known = ('and', known, fm)
                    elif edge_dominates(f, bid, 'false', ipos):
                        known = ('and', known, ('not', fm))
                ats = F.atoms(known)
                rem = [a for a in ats if 'removedCounter' in a and '%s.counter' % cname in a and '==' in a]
                newer = '%s < %s.counter' % (gname, cname)
                if not live_ok and len(rem) == 1:
                    live_ok = F.equivalent(('or', ('not', known), ('not', ('atom', rem[0]))), ('const', True))[0]
                if not gen_ok and newer in ats:
                    gen_ok = F.equivalent(('or', ('not', known), ('not', ('atom', newer))), ('const', True))[0]
            ctx.ob(rule, f, 'a callback is visited only if it is not removed', live_ok,
                   detail='the invocation at %s is not dominated by `%s->counter != removedCounter`' % (f.nloc(inv), cname))
            ctx.ob(rule, f, 'a callback is visited only if its generation is <= the captured one (non-strict)', gen_ok,
                   detail='the invocation at %s is not dominated by `%s >= %s->counter` (a strict comparison skips callbacks added just '
                          'before the invocation; no comparison runs callbacks added during it)' % (f.nloc(inv), gname, cname))
            # nothing else decides: the invocation's block is reached whenever both hold (no further condition)
            extra = extra_conditions(f, ipos, cname, gname)
            ctx.ob(rule, f, 'no other condition suppresses a visit', not extra,
                   detail='additional guard(s) at %s' % ', '.join(extra))
    return found


def adv_on_all_back_paths(fn, body, loopblock, advpos):
    """No path from `body` back to `loopblock` avoids the block containing the advance."""
    advb = advpos[0]
    if advb == loopblock:
        return False
    seen = set()
    st = [body]
    while st:
        b = st.pop()
        if b in seen or b == advb:
            continue
        seen.add(b)
        if b == loopblock:
            return False
        st.extend(fn.succs(b))
    return True


def extra_conditions(fn, ipos, cname, gname):
    """Branch conditions dominating ipos (inside the loop) other than non-null / live / generation tests."""
    out = []
    for bid, blk in fn.blocks.items():
        c = blk.get('cond')
        if not c or len(blk['succ']) != 2:
            continue
        if not fn.block_reaches(bid, bid):
            continue
        dom_t = edge_dominates(fn, bid, 'true', ipos)
        dom_f = edge_dominates(fn, bid, 'false', ipos)
        if not (dom_t or dom_f):
            continue
        if nonnull_test(fn, c, cname) or live_test(fn, c, cname):
            continue
        try:
            fm = F.boolexpr(fn, c, {}, True)
        except F.Unsupported:
            out.append(fn.nloc(c))
            continue
        g = fm
        while g[0] == 'not':
            g = g[1]
        if g == ('atom', '%s < %s.counter' % (gname, cname)):
            continue
        out.append(fn.nloc(c))
    return out


def check_invoked_in_place(ctx, tu, rule, scope):
    """User callables the library stores (callbacks, filters, removal conditions, wrapped listeners) are run *in place*: a library
    function or lambda that invokes one of its own by-value parameters of class type runs a copy - the state a stateful callable keeps in
    itself (a budget, a counter, "only once") restarts from the stored original on every call and never advances. Judged for every
    function of the given scope (predicate on the outermost function) that invokes a callable object at all."""
    from ..paths import path, root_var_id
    n = 0
    for f in tu.fns:
        if not scope(f.outermost()):
            continue
        pids = {p['id']: p for p in f.params}
        objcalls = []
        for c in f.calls():
            o = f.nodes[c]
            obj = o['args'][0] if (o['cls'] == 'CXXOperatorCallExpr' and o.get('op') == '()' and o.get('args')) else None
            if obj is not None:
                objcalls.append((c, obj))
        if not objcalls:
            continue
        bad = []
        for c, obj in objcalls:
            p = path(f, obj, resolve_refs=False)
            vid = root_var_id(p) if len(p) == 1 else None
            if vid in pids and pids[vid].get('pass') == 'value':
                t = tu.type(pids[vid]['t'])
                if t and t.get('rec'):
                    bad.append('%s (by-value parameter `%s` of type %s)' % (f.nloc(c), pids[vid].get('name'), tu.tstr(pids[vid]['t'])[:60]))
            elif vid is not None and vid in f.var_decls():
                # a local object copy-constructed from a stored member (`auto cb = node->callback; cb(...)`)
                vd = f.var_decls()[vid]
                t = tu.type(vd['t'])
                init = vd.get('init')
                if t and t.get('rec') and not t.get('ref') and init:
                    x = f.strip_all_casts(init)
                    if f.is_construct(x) and (f.callee(x) or {}).get('ctor') == 'copy':
                        a = [y for y in f.nodes[x].get('args', []) if f.nodes[y]['cls'] != 'CXXDefaultArgExpr']
                        src = path(f, a[0]) if a else ()
                        if any(seg.startswith('.') for seg in src):
                            bad.append('%s (local `%s` copied from %s)' % (f.nloc(c), vd['name'], '/'.join(src)))
        n += 1
        ctx.ob(rule, f, 'callable objects are invoked in place, not through a by-value copy', not bad,
               detail='invokes a copy at ' + '; '.join(bad[:3]), key_detail='invoked copy')
    return n
