#!/bin/sh
# Builds and runs the repository's own unit tests (the pinned baseline, guard off) against the
# headers of $EPP_REPO/include (default /repo), in a scratch build directory that it creates itself.
set -e
R=${EPP_REPO:-/repo}
B=${EPP_TEST_BUILD:-/tmp/epp_tests_$(echo $R | tr '/' '_')}
[ -f $B/build.ninja ] || cmake -G Ninja -S $R/tests -B $B -DCMAKE_BUILD_TYPE=RelWithDebInfo -DCMAKE_CXX_FLAGS="-UEVENTPP_VERIF" >/dev/null
cmake --build $B --target unittest 2>&1 | tail -2
$B/unittest/unittest "$@" 2>&1 | tail -4
