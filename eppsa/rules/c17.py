"""C17 — AnyData holds, moves and destroys its value like the value itself.

  A1 capacity: every placement-new into AnyData::buffer fits the buffer, over a witness family of payload sizes around the
     inline capacity (capacities 8/16/24/64; trivial, non-trivial and move-only payloads)
  A2 selection partition: the inline constructor is the one instantiated exactly when sizeof(T) <= max(capacity, sizeof(LargeData)),
     the heap (LargeData) constructor otherwise - for every payload of the witness family
  A3 table identity: the inline constructor stores the function table of exactly the type it constructs (cv-ref stripped), the
     heap one the table of LargeData and constructs a LargeData; isLargerData / isType compare against those same tables; all
     accessors derive from getAddress(), which picks the inline buffer or LargeData::getAddress by isLargerData()
  A4 lifetime shape (shared with C08.O / C08.T): move = table's moveConstruct(source buffer -> own buffer); destructor = free iff a
     table is present; not copyable / assignable; the function table's entries destroy / move-construct exactly T
"""
import os
import re

from ..facts import AnalysisBroken, short
from ..paths import path, pstr, last_field, root_var_id, fields_in
from .. import formula as F
from .. import witness, extract
from .qcommon import TUInfo
from .c14 import check_h4
from .c08 import check_raw, check_types

EXPLANATION = ('C17: buffer capacity of every placement-new (layout facts), inline/heap constructor partition by size over the witness family, identity of '
               'the stored function table with the constructed type, accessor derivation from getAddress, lifetime shape.')
ASSUMPTIONS = ['equality of read-back values follows from construct-in-place of T from the argument and is not tracked; alignment of over-aligned payloads is not decided']
UNITS = ['w_utils.cpp']


def strip_cvref(s):
    s = s.strip()
    s = re.sub(r'\s*&&?$', '', s)
    s = re.sub(r'^const\s+', '', s)
    s = re.sub(r'\s+const$', '', s)
    return s.strip()


def precheck(ctx):
    # programs that must build: construction from every value category and constness, below and above the inline capacity
    ctx.rule('C17.W', 'client programs constructing AnyData from every value category, constness and size build')
    witness.check_static_unit(ctx, 'C17.W', os.path.join(extract.VERIF, 'witness', 's_anydata.cpp'), 'AnyData construction / access')


def check(ctx):
    ctx.rule('C17.A1', 'every placement-new into the AnyData buffer fits')
    ctx.rule('C17.A2', 'inline constructor <=> payload fits the inline capacity')
    ctx.rule('C17.A3', 'stored function table matches the constructed type; accessors derive from getAddress')
    ctx.rule('C17.A4', 'lifetime shape of AnyData / LargeData / function table')
    seen_sizes = set()
    for tu in ctx.tus:
        info = TUInfo(tu)
        check_h4(ctx, tu, 'C17.A1', ('AnyData',))
        check_ctors(ctx, tu, info, seen_sizes)
        check_accessors(ctx, tu, info)
        check_table(ctx, tu, info)
        check_raw(ctx, tu, info)          # reports under C08.O ids; mirrored below
        check_types(ctx, tu)
    # re-home the shared lifetime obligations under C17.A4
    for o in ctx.obligations:
        if o['rule'] in ('C08.O', 'C08.T'):
            o['rule'] = 'C17.A4'
    for k in list(ctx.findings):
        if k.startswith('C08.'):
            f = ctx.findings.pop(k)
            f['rule'] = 'C17.A4'
            f['key'] = 'C17.A4' + k[5:]
            ctx.findings[f['key']] = f
    for r in ('C08.O', 'C08.T'):
        for p_ in ctx.rule_instances.pop(r, set()):
            ctx.rule_instances['C17.A4'].add(p_)
    ctx.extra['payload_sizes_seen'] = sorted(seen_sizes)
    ctx.require(len(seen_sizes) >= 6, 'C17.A2: the witness family must exercise at least 6 distinct payload sizes (got %s)' % sorted(seen_sizes))
    witness.check_static_unit(ctx, 'C17.W', os.path.join(extract.VERIF, 'witness', 's_meta.cpp'), 'RemoveCvRef / MaxSizeOf', tag='C17')
    ctx.require_min('C17.A1', 1)
    ctx.require_min('C17.A2', 2)
    ctx.require_min('C17.A3', 6)
    ctx.require_min('C17.A4', 6)


def check_ctors(ctx, tu, info, seen_sizes):
    ldata = [c for c in tu.classes_by_key.get('anydata_internal_::LargeData', [])]
    lsize = ldata[0]['size'] if ldata else None
    for f in tu.fns:
        if f.skey != 'AnyData::AnyData' or f.d.get('ctor') in ('copy', 'move', 'default') or not f.params:
            continue
        cls = tu.class_by_q.get(f.clsq)
        buf = None
        if cls:
            for fl in cls['fields']:
                if fl['name'] == 'buffer':
                    buf = tu.type(fl['t'])
        if not buf or lsize is None:
            raise AnalysisBroken('C17: AnyData layout facts missing for %s' % f.clsq)
        cap = buf['size']
        pt = tu.type(f.params[0]['t'])
        base = tu.type(pt.get('base')) if pt and pt['ref'] else pt
        size = (base or {}).get('size')
        if size is None:
            continue
        seen_sizes.add(size)
        news = [n for n, o in f.nodes.items() if o['cls'] == 'CXXNewExpr' and o.get('placement')]
        if len(news) != 1:
            ctx.ob('C17.A3', f, 'the constructor builds exactly one object in place', False, detail='%d placement-new expressions' % len(news))
            continue
        alloc = tu.tstr(f.nodes[news[0]].get('alloc'))
        is_heap = alloc.endswith('LargeData')
        fits = size <= cap
        ctx.ob('C17.A2', f, 'payload of %d bytes, inline capacity %d: the %s constructor is the one selected' % (size, cap, 'inline' if fits else 'heap'),
               is_heap != fits,
               detail='selected constructor builds %s in the buffer' % alloc, key_detail='partition')
        ctx.ob('C17.A2', f, 'the effective capacity is max(requested, sizeof(LargeData))', cap >= lsize, detail='capacity %d, sizeof(LargeData) %d' % (cap, lsize),
               key_detail='capacity floor')
        # table identity
        inits = {i.get('member'): i for i in f.d.get('inits', [])}
        fi = inits.get('functions')
        tab = None
        if fi and fi.get('n'):
            for d in [fi['n']] + f.descendants(fi['n']):
                if f.is_call(d) and (f.callee(d) or {}).get('name') == 'getAnyDataFunctions':
                    m = re.match(r'.*getAnyDataFunctions<(.*)>$', (f.callee(d) or {}).get('q', ''))
                    tab = m.group(1) if m else None
        want = 'eventpp::anydata_internal_::LargeData' if is_heap else strip_cvref(tu.tstr(f.params[0]['t']))
        ok = tab is not None and strip_cvref(tab) == want
        ctx.ob('C17.A3', f, 'the stored function table is the one of the object constructed in the buffer (%s)' % ('LargeData' if is_heap else 'the payload type'), ok,
               detail='table for <%s>, constructed %s' % (tab, alloc), key_detail='table identity ' + ('heap' if is_heap else 'inline'))
        if not is_heap:
            ctx.ob('C17.A3', f, 'the inline constructor builds the payload type itself', strip_cvref(alloc) == want,
                   detail='constructed %s, payload %s' % (alloc, want), key_detail='inline constructs payload')
        # constructed from the forwarded argument
        cons = f.nodes[news[0]].get('construct')
        src_ok = False
        if cons:
            for d in [cons] + f.descendants(cons):
                if f.nodes[d]['cls'] == 'DeclRefExpr' and f.decl(d).get('id') == f.params[0]['id']:
                    src_ok = True
        ctx.ob('C17.A3', f, 'the held object is constructed from the constructor argument', src_ok, key_detail='constructed from argument')


def check_accessors(ctx, tu, info):
    for f in tu.fns:
        if f.cls != 'AnyData':
            continue
        if f.name == 'isLargerData':
            try:
                fm = F.formula(f, inline=False)
            except F.Unsupported as e:
                raise AnalysisBroken('C17.A3: %s' % e)
            ats = F.atoms(fm)
            ok = len(ats) == 1 and 'functions' in ats[0] and 'getAnyDataFunctions' in ats[0] and '==' in ats[0] and fm[0] == 'atom'
            # the table compared against is LargeData's
            cal = [n for n in f.calls() if (f.callee(n) or {}).get('name') == 'getAnyDataFunctions']
            ok = ok and len(cal) == 1 and (f.callee(cal[0]) or {}).get('q', '').endswith('<eventpp::anydata_internal_::LargeData>')
            ctx.ob('C17.A3', f, 'isLargerData() is exactly "the table is LargeData\'s"', ok, detail=F.show(fm))
        elif f.name == 'getAddress':
            vals = f.result_sites()      # returns, arms of `c ? a : b`, or assignments of a result variable
            inline_ret = [r for r, v in vals if 'buffer' in fields_in(path(f, f.strip_all_casts(v))) and not any(f.is_call(d) and (f.callee(d) or {}).get('name') == 'getAddress' for d in [v] + f.descendants(v))]
            heap_ret = [r for r, v in vals if any(f.is_call(d) and (f.callee_key(d) or '').endswith('LargeData::getAddress') for d in [v] + f.descendants(v))]
            ok = len(inline_ret) == 1 and len(heap_ret) == 1
            if ok:
                # inline on the !isLargerData edge
                from .listrules import edge_dominates
                dom = False
                for bid, blk in f.blocks.items():
                    c = blk.get('cond')
                    if not c or len(blk['succ']) != 2:
                        continue
                    n = f.strip_all_casts(c)
                    neg = False
                    while f.nodes[n]['cls'] == 'UnaryOperator' and f.nodes[n].get('op') == '!':
                        neg = not neg
                        n = f.strip_all_casts(f.kids(n)[0])
                    if f.is_call(n) and (f.callee(n) or {}).get('name') == 'isLargerData':
                        small_edge = 'true' if neg else 'false'
                        large_edge = 'false' if neg else 'true'
                        dom = edge_dominates(f, bid, small_edge, f.pos(inline_ret[0])) and edge_dominates(f, bid, large_edge, f.pos(heap_ret[0]))
                ok = dom
            ctx.ob('C17.A3', f, 'getAddress() yields the inline buffer for small payloads and LargeData\'s object for large ones', ok)
        elif f.name in ('get', 'operator type-parameter-0-0 &', 'operator type-parameter-0-0 *') or f.name.startswith('operator ') and f.kind != 'ctor' and f.name not in ('operator=',):
            if f.name == 'operator=':
                continue
            calls = [n for n in f.calls() if (f.callee_key(n) or '') == 'AnyData::getAddress']
            rets = f.return_nodes()
            ok = len(calls) == 1 and len(rets) == 1 and calls[0] in ([f.strip_all_casts(f.kids(rets[0])[0])] + f.descendants(f.kids(rets[0])[0]))
            ctx.ob('C17.A3', f, 'the accessor returns the address given by getAddress()', ok, key_detail='accessor via getAddress')
        elif f.name == 'isType':
            cal = [n for n in f.calls() if (f.callee(n) or {}).get('name') == 'getAnyDataFunctions']
            big = [n for n in f.calls() if (f.callee_key(n) or '').endswith('LargeData::isType')]
            ta = f.d.get('targs') or []
            ok = len(cal) == 1 and len(big) == 1
            if ok and ta and isinstance(ta[0], int):
                want = strip_cvref(tu.tstr(ta[0]))
                m = re.match(r'.*getAnyDataFunctions<(.*)>$', (f.callee(cal[0]) or {}).get('q', ''))
                ok = bool(m) and strip_cvref(m.group(1)) == want
                m2 = re.match(r'.*isType<(.*)>$', (f.callee(big[0]) or {}).get('q', ''))
                ok = ok and bool(m2) and strip_cvref(m2.group(1)) == want
            ctx.ob('C17.A3', f, 'isType<T> compares against the table of exactly T (inline) or asks LargeData about exactly T', ok)
    for f in tu.fns_named('anydata_internal_::LargeData::isType'):
        ta = f.d.get('targs') or []
        refs = [d for d in f.nodes if f.nodes[d]['cls'] == 'DeclRefExpr' and f.decl(d)['kind'] == 'func' and 'funcDeleteObject' in f.decl(d).get('q', '')]
        ok = len(refs) == 1
        if ok and ta and isinstance(ta[0], int):
            ok = ('funcDeleteObject<%s>' % strip_cvref(tu.tstr(ta[0]))) in f.decl(refs[0]).get('q', '')
        ctx.ob('C17.A3', f, 'LargeData::isType<T> compares the stored deleter with the deleter of exactly T', ok)


def check_table(ctx, tu, info):
    # one table (and one deleter) per stored *object type*: the type argument is canonical - no cv qualifier, no reference - so that
    # isType<T> answers for the stored type whatever value category and constness the constructor argument had, and the move entry
    # really moves (a table for `const T` copy-constructs instead)
    for f in tu.fns:
        if f.skey in ('anydata_internal_::doGetAnyDataFunctions', 'anydata_internal_::funcFreeObject', 'anydata_internal_::funcMoveConstruct',
                      'anydata_internal_::funcDeleteObject'):
            ta = f.d.get('targs') or []
            if ta and isinstance(ta[0], int):
                t = tu.tstr(ta[0])
                ctx.ob('C17.A3', f, 'tables and deleters are instantiated for the unqualified object type only', strip_cvref(t) == t.strip(),
                       detail='instantiated for <%s>' % t, key_detail='canonical table type')
        elif f.skey == 'anydata_internal_::getAnyDataFunctions':
            ta = f.d.get('targs') or []
            cal = [n for n in f.calls() if (f.callee(n) or {}).get('name') == 'doGetAnyDataFunctions']
            ok = len(cal) == 1 and bool(ta) and isinstance(ta[0], int)
            if ok:
                m = re.match(r'.*doGetAnyDataFunctions<(.*)>$', (f.callee(cal[0]) or {}).get('q', ''))
                ok = bool(m) and m.group(1).strip() == strip_cvref(tu.tstr(ta[0]))
            ctx.ob('C17.A3', f, 'getAnyDataFunctions<T> yields the table of T with cv and reference removed', ok,
                   detail='for <%s> it asks for %s' % (tu.tstr(ta[0]) if ta and isinstance(ta[0], int) else '?',
                                                     (f.callee(cal[0]) or {}).get('q', '?')[-80:] if cal else 'nothing'),
                   key_detail='table of decayed type')
    for f in tu.fns:
        if f.skey == 'anydata_internal_::funcFreeObject':
            dt = [n for n in f.nodes if f.nodes[n]['cls'] in ('CXXMemberCallExpr',) and (f.callee(n) or {}).get('dtor')] + \
                 [n for n in f.nodes if f.nodes[n]['cls'] == 'CXXPseudoDestructorExpr']
            ctx.ob('C17.A4', f, 'the table\'s free entry runs the destructor of T on the object', len(dt) == 1, key_detail='free entry')
        elif f.skey == 'anydata_internal_::doFuncMoveConstruct':
            news = [n for n, o in f.nodes.items() if o['cls'] == 'CXXNewExpr' and o.get('placement')]
            if not news:
                continue
            ta = f.d.get('targs') or []
            ok = len(news) == 1
            if ok and ta and isinstance(ta[0], int):
                ok = tu.tstr(f.nodes[news[0]].get('alloc')) == tu.tstr(ta[0])
                pl = path(f, f.strip_all_casts(f.nodes[news[0]]['placement'][0]))
                ok = ok and root_var_id(pl) == f.params[1]['id']
                cons = f.nodes[news[0]].get('construct')
                def param_roots(n, depth=0):
                    out = set()
                    for d in [n] + f.descendants(n):
                        if f.nodes[d]['cls'] != 'DeclRefExpr':
                            continue
                        dd = f.decl(d)
                        if dd['kind'] == 'parm':
                            out.add(dd.get('id'))
                        elif dd['kind'] == 'var' and depth < 3:
                            vd = f.var_decls().get(dd['id'])
                            if vd and vd.get('init'):
                                out |= param_roots(vd['init'], depth + 1)      # a local that merely names the (cast) source
                    return out
                srcs = param_roots(cons) if cons else set()
                ok = ok and srcs == {f.params[0]['id']}
                # the source is handed to the constructor as an unconditional rvalue (std::move / static_cast<T&&>), so that the
                # move constructor is selected whenever there is one
                movers = [d for d in ([cons] + f.descendants(cons) if cons else []) if f.nodes[d]['cls'] == 'CallExpr' and f.callee(d)]
                mk = [short(f.callee(d)['key']) for d in movers]
                casts = [d for d in ([cons] + f.descendants(cons) if cons else []) if f.nodes[d]['cls'] == 'CXXStaticCastExpr' and f.nodes[d].get('vk') == 'x']
                ok = ok and (mk == ['std::move'] or (not mk and len(casts) == 1))
                ctor = f.callee(f.strip_all_casts(cons)) if cons and f.is_construct(f.strip_all_casts(cons)) else None
            ctx.ob('C17.A4', f, 'the table\'s move entry move-constructs a T in the destination buffer from the source object', ok, key_detail='move entry')
        elif f.skey == 'anydata_internal_::doGetAnyDataFunctions':
            refs = [f.decl(d).get('q', '') for d in f.nodes if f.nodes[d]['cls'] == 'DeclRefExpr' and f.decl(d)['kind'] == 'func']
            ta = f.d.get('targs') or []
            ok = len(refs) == 2
            if ok and ta and isinstance(ta[0], int):
                t = tu.tstr(ta[0])
                ok = any(r.endswith('funcFreeObject<%s>' % t) for r in refs) and any(r.endswith('funcMoveConstruct<%s>' % t) for r in refs)
            ctx.ob('C17.A4', f, 'the function table of T holds free<T> and moveConstruct<T>', ok, key_detail='table entries')
            # an entry may be left empty (a conditional selecting nullptr) only where the operation really is a no-op / a byte copy for T:
            # evaluate the entry's initialiser for this instantiation (the conditions are compile-time constants) - for a T that is not
            # trivially copyable the move entry has to be the real move construction ("moving an AnyData moves the held object")
            tt = tu.type(ta[0]) if ta and isinstance(ta[0], int) else None
            if tt is not None and tt.get('rec'):
                def selected(n, depth=0):
                    n = f.strip_all_casts(n)
                    o = f.nodes[n]
                    if o['cls'] == 'ConditionalOperator' and depth < 6:
                        ks = f.kids(n)
                        cv = f.nodes[f.strip_all_casts(ks[0])].get('cv', f.nodes[f.strip_all_casts(ks[0])].get('value'))
                        if cv is None:
                            return None
                        return selected(ks[1] if cv else ks[2], depth + 1)
                    return n
                inits = [n for n, o in f.nodes.items() if o['cls'] == 'InitListExpr']
                mv_null = None
                for il in inits:
                    ks = [k for k in f.nodes[il].get('kids', []) if k]
                    if len(ks) == 2:
                        sel = selected(ks[1])
                        if sel is None:
                            mv_null = None
                            break
                        so = f.nodes[sel]
                        mv_null = so['cls'] in ('CXXNullPtrLiteralExpr', 'GNUNullExpr') or so.get('value') == 0 and so['cls'] == 'IntegerLiteral'
                if mv_null is not None:
                    ctx.ob('C17.A4', f, 'the move entry is empty only for a trivially copyable T', (not mv_null) or bool(tt.get('trivcopy')),
                           detail='T = %s has a non-trivial copy/move constructor, yet its table has no move entry: moving the AnyData copies bytes instead of moving the object'
                                  % tu.tstr(ta[0]), key_detail='move entry present')
