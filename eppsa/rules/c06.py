"""C06 — Concurrent producers and consumers never lose or duplicate an event (exclusive-ownership discipline).

  G  guarded-by: every use of queueList holds queueListMutex, every use of freeList holds freeListMutex
     (tolerated by table: the unlocked .empty() pre-checks and emptyQueue())
  R  re-check: every single-element take (splice of one element out of a shared list, .front()) is dominated,
     inside the same critical section, by a test that the list is non-empty
  X  transfer only: slot types are neither copyable nor movable (class facts), and set/get/clear are applied only
     to elements of a local list or, for a shared list, under its mutex
  N  the two queue mutexes are never nested and no dispatch, predicate or slot clear() runs under either
"""
from ..facts import AnalysisBroken, short
from ..paths import path, pstr, last_field, root_var_id
from .. import formula as F
from .qcommon import *

EXPLANATION = 'C06: guarded-by for queueList/freeList, locked re-check before single-element takes, non-copyable slots, no nesting and no user code under the queue mutexes.'
ASSUMPTIONS = ['exactly-once under all interleavings follows from exclusive ownership of taken slots; linearizability itself is not decided',
               'the unlocked empty() pre-checks are benign data races by the library\'s own documentation']
UNITS = ['w_queue.cpp', 'w_heter.cpp', 'w_utils.cpp']

# functions in which an unlocked `<list>.empty()` pre-check is tolerated (it is re-made under the lock, rule R,
# or only decides whether to do anything at all)
PRECHECK_OK = {
    'queueList': {'emptyQueue', 'clearEvents', 'process', 'processOne', 'processIf', 'processUntil', 'peekEvent', 'takeEvent'},
    'freeList': {'doEnqueue', 'doEnqueueItem'},
}


def check(ctx):
    ctx.rule('C06.G', 'every use of queueList / freeList holds its mutex (except the tolerated empty() pre-checks)')
    ctx.rule('C06.R', 'single-element takes re-check non-emptiness inside the same critical section')
    ctx.rule('C06.X', 'slots are not copyable/movable; slot contents are touched only in private or locked lists')
    ctx.rule('C06.N', 'queue mutexes are not nested; no user code or slot destruction under them')
    ctx.rule('C06.O', 'per-thread order: enqueue at end, take at begin, put-back at begin; slots handed back FULL, recycled EMPTY')
    from .c05 import run_slot_rules
    ctx.rule('C06.M', 'stored payloads are not moved from before they are consumed')
    from ..moves import MoveAnalysis, vtag
    for tu in ctx.tus:
        info = TUInfo(tu)
        run_slot_rules(ctx, 'C06.O', 'C06.O', tu, only_kinds=('O-', 'P-into', 'P-swap'))
        from .c05 import check_takes
        check_takes(ctx, tu, info, rule='C06.X', only_dest=True)      # a batch taken into a data member is shared by all consumer threads
        ma = MoveAnalysis(tu)
        for f in tu.fns:
            if queue_of(f) and f.outermost().name in ('processIf', 'processUntil', 'process', 'processOne', 'peekEvent', 'doInvokeFuncWithQueuedEvent',
                                                       'doInvokeFuncWithQueuedEventHelper', 'doDispatchQueuedEvent', 'doProcessIf', 'doDispatchItem', 'doDispatchQueuedItem'):
                vs, pairs = ma.violations(f)
                names = sorted({vtag(v) for v in vs})
                ctx.ob('C06.M', f, 'a queued event\'s stored arguments are read, never moved from, until the event is consumed', not vs,
                       detail='\n'.join(v['msg'] for v in vs[:3]), key_detail='move ' + ','.join(names))
        for q in QUEUES:
            check_queue(ctx, tu, info, q)
        check_slots(ctx, tu)
    ctx.require_min('C06.G', 14)
    ctx.require_min('C06.R', 5)   # processOne, takeEvent, peekEvent, doEnqueue, + heter processOne, doEnqueueItem
    ctx.require_min('C06.X', 4)
    ctx.require_min('C06.N', 10)
    ctx.require_min('C06.O', 8)
    ctx.require_min('C06.M', 5)


def held_mutex_names(si, pos, may=False):
    ps = si.held_may(pos, 'lock') if may else si.held_must(pos, 'lock')
    return {mutex_name(p) for p in ps}


def nonempty_test_dominating(fn, si, lst_path, pos, mutex):
    """A branch `!L.empty()` (true edge) or `L.empty()` (false edge) dominating pos, evaluated while `mutex` is
    held by a lock that is still held at pos."""
    want = pstr(lst_path) + '.empty()'
    for bid, blk in fn.blocks.items():
        c = blk.get('cond')
        if not c or len(blk['succ']) != 2:
            continue
        try:
            f = F.boolexpr(fn, c, {}, False)
        except F.Unsupported:
            continue
        pol = None
        if f[0] == 'not' and f[1][0] == 'atom':
            atom, pol = f[1][1], 'true'
        elif f[0] == 'atom':
            atom, pol = f[1], 'false'
        else:
            continue
        norm = atom.replace('this.', '')
        if norm != want.replace('this.', '') and not norm.endswith(want.replace('this.', '')):
            continue
        succ = blk['succ'][0] if pol == 'true' else blk['succ'][1]
        other = blk['succ'][1] if pol == 'true' else blk['succ'][0]
        if succ is None:
            continue
        # the chosen edge must dominate pos: pos's block is dominated by succ and succ is entered only through this edge
        if not (pos[0] == succ or succ in fn.dom()[pos[0]]):
            continue
        if len([p for p in fn.preds().get(succ, []) if p in fn.reachable_blocks()]) != 1:
            continue
        cpos = fn.pos(c)
        locks_at_test = {x for x in si.held_must_full(cpos) if x[0] == 'lock' and mutex_name(x[1]) == mutex}
        locks_at_pos = {x for x in si.held_must_full(pos) if x[0] == 'lock' and mutex_name(x[1]) == mutex}
        if locks_at_test & locks_at_pos:
            return True
    return False


def check_queue(ctx, tu, info, q):
    for f in info.members(q):
        if is_lifetime(f):
            continue
        si = info.scopes(f)
        for fld in LIST_FIELDS:
            for u in list_uses(f, fld):
                mpath = path(f, u['member'])
                if mpath[0] != 'this' and not (len(mpath) > 2 and mpath[-1] == '.' + fld):
                    continue
                how = u['how']
                meth = how.split(':', 1)[1] if ':' in how else how
                held = MUTEX_OF[fld] in held_mutex_names(si, u['pos'])
                if how == 'call:empty' and not held:
                    ok = f.outermost().name in PRECHECK_OK[fld]
                    if not ok:
                        # structurally the same thing in a function the table does not know (e.g. an extracted helper): the unlocked
                        # test is nothing but a branch condition - what follows on either edge is judged by the guarded-by and re-check
                        # rules on its own
                        for bid, blk in f.blocks.items():
                            c = blk.get('cond')
                            if c and len(blk['succ']) == 2 and f.cond_core(c)[0] == f.strip_all_casts(u['node']):
                                ok = True
                    ctx.ob('C06.G', f, 'unlocked %s.empty() is one of the tolerated pre-checks' % fld, ok,
                           detail='unlocked emptiness test at %s in a function that is not in the reviewed pre-check table' % f.nloc(u['node']),
                           where=f.nloc(u['node']), key_detail='precheck ' + fld)
                    continue
                if how in ('call:begin', 'call:end') and not held:
                    # iterator arguments of a splice are evaluated with the call; judged at the call below
                    pass
                ctx.ob('C06.G', f, '%s is used (%s) with %s held' % (fld, meth, MUTEX_OF[fld]), held,
                       detail='%s at %s touches %s without %s: a concurrent producer/consumer can corrupt the list or take the same slot twice'
                              % (how, f.nloc(u['node']), fld, MUTEX_OF[fld]),
                       where=f.nloc(u['node']), key_detail='%s %s' % (fld, meth))
            # R: single element takes
            for w in info.writes(f):
                if w['path'][-1:] != ('.' + fld,) or w['path'][0] != 'this':
                    continue
                how = w['how']
                if how.startswith('arg:') and how.split('::')[-1] == 'splice':
                    nargs = len(f.call_args(w['node']))
                    if nargs >= 3:   # splice(pos, L, it): one element
                        ok = nonempty_test_dominating(f, si, w['path'], w['pos'], MUTEX_OF[fld])
                        ctx.ob('C06.R', f, 'taking one element out of %s is preceded by a locked non-empty test' % fld, ok,
                               detail='splice of %s.begin() at %s is not dominated by `!%s.empty()` under the same lock: another consumer may '
                                      'have emptied the list after the unlocked pre-check (splicing end() is undefined behaviour)'
                                      % (fld, f.nloc(w['node']), fld),
                               where=f.nloc(w['node']), key_detail='take ' + fld)
            for u in list_uses(f, fld):
                if u['how'] in ('call:front', 'call:back'):
                    mp = path(f, u['member'])
                    ok = nonempty_test_dominating(f, si, mp, u['pos'], MUTEX_OF[fld])
                    ctx.ob('C06.R', f, '%s.front() is preceded by a locked non-empty test' % fld, ok,
                           detail='front() at %s without a locked `!%s.empty()` test' % (f.nloc(u['node']), fld),
                           where=f.nloc(u['node']), key_detail='front ' + fld)

        # X: slot operations on shared lists need the lock
        for n in slot_calls(f):
            obj = f.call_obj(n)
            p = path(f, obj)
            shared = [x for x in LIST_FIELDS if ('.' + x) in p]
            if shared:
                held = MUTEX_OF[shared[0]] in held_mutex_names(si, f.pos(n))
                name = f.callee(n)['name']
                ctx.ob('C06.X', f, 'slot %s() on an element of shared %s is made under its mutex' % (name, shared[0]),
                       held and name == 'get',
                       detail='%s() on %s at %s: only reading (peek) under the mutex is allowed on a shared list; set/clear need exclusive ownership'
                              % (name, pstr(p), f.nloc(n)),
                       where=f.nloc(n), key_detail='slot %s %s' % (name, shared[0]))
            else:
                rv = root_var_id(p)
                islocal = rv is not None and rv in f.var_decls() or (rv is not None and f.parent_fn() is not None)
                isparam = rv is not None and rv in f.param_ids()
                ctx.ob('C06.X', f, 'slot %s() is applied to an element of a thread-private list' % f.callee(n)['name'],
                       islocal or isparam or p[0].startswith('tmp'),
                       detail='receiver %s at %s' % (pstr(p), f.nloc(n)), where=f.nloc(n),
                       key_detail='slot private ' + f.callee(n)['name'])

        # N: nesting and user code under the mutexes
        for (apos, kind, ap, var, an) in si.acquires:
            if kind != 'lock' or mutex_name(ap) not in MUTEX_OF.values():
                continue
            others = {mutex_name(p) for p in si.held_may(apos, 'lock')} - {None}
            others = {m for m in others if m in MUTEX_OF.values() or m in ('listenerMutex', 'mutex')}
            ctx.ob('C06.N', f, '%s is acquired with no other library mutex held' % mutex_name(ap), not others,
                   detail='acquired at %s while holding %s' % (f.nloc(an), ', '.join(sorted(others))),
                   where=f.nloc(an), key_detail='nest ' + mutex_name(ap))
        inv = invoke_calls(info, f)
        clears = [n for n in slot_calls(f, ('clear', 'set'))]
        for n in inv + clears:
            hm = held_mutex_names(si, f.pos(n), may=True) & set(MUTEX_OF.values())
            what = 'user code' if n in inv else 'slot %s()' % f.callee(n)['name']
            ctx.ob('C06.N', f, '%s runs with neither queue mutex held' % what, not hm,
                   detail='%s at %s runs while %s may be held: a listener that enqueues or processes deadlocks (std::mutex is not recursive)'
                          % (f.callee_key(n) or 'call', f.nloc(n), ', '.join(sorted(hm))),
                   where=f.nloc(n), key_detail='under lock ' + what)


def check_slots(ctx, tu):
    for key in SLOT_CLASSES:
        for c in tu.classes_by_key.get(key, []):
            sp = c['special']
            bad = [k for k in ('copy_ctor', 'move_ctor', 'copy_assign') if sp.get(k) not in ('deleted', 'implicitly-deleted', 'none')]
            if sp.get('move_ctor') == 'none' and sp.get('copy_ctor') not in ('deleted', 'implicitly-deleted'):
                bad.append('move_ctor')
            ctx.ob('C06.X', key, 'slot type %s is neither copyable nor movable' % key, not bad,
                   detail='%s has usable %s: a memberwise copy duplicates the raw buffer and destroys the payload twice' % (c['q'][:120], ', '.join(bad)),
                   tu=tu, key_detail='slot type ' + key)
