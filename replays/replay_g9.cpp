#include <eventpp/hetereventqueue.h>
#include <iostream>
#include <string>
int main() {
	using PL = eventpp::HeterTuple<void (), void (int)>;
	eventpp::HeterEventQueue<int, PL> q;
	int nullary = 0, withInt = 0;
	q.appendListener(1, [&]() { ++nullary; });
	q.appendListener(1, [&](int) { ++withInt; });
	// only an event of the second prototype is queued
	q.enqueue(1, 42);
	int predCalls = 0;
	// the predicate is callable with () only, i.e. with the first prototype only
	bool r = q.processIf([&]() { ++predCalls; return true; });
	std::cout << "processIf returned " << r << " predicate calls " << predCalls << " nullary listeners " << nullary << " int listeners " << withInt
		<< " queue empty " << q.emptyQueue() << std::endl;
	// expected: returned 0, predicate calls 0, int listeners 0, queue not empty (the int event is untouched)
	return (r || predCalls || withInt || q.emptyQueue()) ? 1 : 0;
}
