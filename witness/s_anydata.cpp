// Witness (programs that must build + static_asserts): AnyData accepts an object of any type and size in every value category and
// constness, and hands it back as the same type. Nothing here runs; a compile error in this unit is a property violation
// ("constructed from an object of any type and size"), reported with the compiler's message.
#include <eventpp/utilities/anydata.h>
#include <eventpp/eventqueue.h>
#include <string>
#include <memory>
#include <type_traits>
#include <utility>

namespace wit_anydata {

template <std::size_t S> struct Pod { char bytes[S]; };
template <std::size_t S> struct NonTrivial {
	char bytes[S];
	NonTrivial() : bytes() {}
	NonTrivial(const NonTrivial & o) { bytes[0] = o.bytes[0]; }
	NonTrivial(NonTrivial && o) noexcept { bytes[0] = o.bytes[0]; }
	~NonTrivial() {}
};
struct MoveOnly {
	MoveOnly() {}
	MoveOnly(MoveOnly &&) noexcept {}
	MoveOnly(const MoveOnly &) = delete;
};

template <typename AD, typename T>
void everyCategory()
{
	T lv{};
	const T clv{};
	AD fromPr(T{});
	AD fromLv(lv);
	AD fromConstLv(clv);
	AD fromX(std::move(lv));
	AD moved(std::move(fromPr));
	(void)fromLv.template get<T>(); (void)fromConstLv.template get<T>(); (void)fromX.template get<T>(); (void)moved.template get<T>();
	(void)fromLv.template isType<T>(); (void)fromConstLv.template isType<T>(); (void)fromConstLv.template isType<const T>();
	(void)fromLv.getAddress();
	const T & r = fromConstLv; (void)r;
	const T * p = fromConstLv; (void)p;
	static_assert(std::is_same<decltype(fromLv.template get<T>()), const T &>::value, "get<T>() yields const T &");
	static_assert(std::is_same<decltype(fromLv.getAddress()), const void *>::value, "getAddress() yields const void *");
}

template <std::size_t N>
void everySize()
{
	using AD = eventpp::AnyData<N>;
	static_assert(! std::is_copy_constructible<AD>::value, "AnyData is not copyable");
	static_assert(std::is_move_constructible<AD>::value, "AnyData is movable");
	static_assert(! std::is_copy_assignable<AD>::value && ! std::is_move_assignable<AD>::value, "AnyData is not assignable");
	everyCategory<AD, int>();
	everyCategory<AD, std::string>();
	everyCategory<AD, std::shared_ptr<int> >();
	everyCategory<AD, Pod<1> >();
	everyCategory<AD, Pod<N> >();
	everyCategory<AD, Pod<N + 1> >();
	everyCategory<AD, Pod<4 * N> >();
	everyCategory<AD, NonTrivial<1> >();
	everyCategory<AD, NonTrivial<N> >();
	everyCategory<AD, NonTrivial<N + 1> >();
	{
		AD a((MoveOnly())); AD b(std::move(a)); (void)b.template get<MoveOnly>(); (void)b.template isType<MoveOnly>();
	}
}

static_assert(eventpp::maxSizeOf<char, int, Pod<40>, std::string>() == (sizeof(std::string) > 40 ? sizeof(std::string) : 40), "maxSizeOf is the largest sizeof");
static_assert(eventpp::maxSizeOf<char>() == 1, "maxSizeOf of one type");

void all()
{
	everySize<1>();
	everySize<8>();
	everySize<16>();
	everySize<24>();
	everySize<64>();
	// inside a queued event: enqueue from every category
	using E = eventpp::AnyData<eventpp::maxSizeOf<int, std::string>()>;
	eventpp::EventQueue<int, void (const E &)> q;
	q.appendListener(1, [](const E &) {});
	std::string lv("a"); const std::string clv("b"); Pod<200> big{}; const Pod<200> cbig{};
	q.enqueue(1, std::string("x")); q.enqueue(1, lv); q.enqueue(1, clv); q.enqueue(1, std::move(lv));
	q.enqueue(1, big); q.enqueue(1, cbig); q.enqueue(1, Pod<200>{});
	(void)q.process();
}

} // namespace wit_anydata
