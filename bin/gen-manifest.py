#!/usr/bin/env python3
"""Regenerates /verif/MANIFEST.json from eppsa/manifest_table.py and validates it against the schema."""
import json, os, sys
sys.path.insert(0, os.path.join(os.path.dirname(os.path.abspath(__file__)), '..'))
from eppsa import manifest_table as T

V = os.path.join(os.path.dirname(os.path.abspath(__file__)), '..')
m = {
    'version': 1,
    'setup_cmd': 'bin/build-tools.sh',
    'hooks': {
        'guard': 'EVENTPP_VERIF',
        'enable': 'none needed: the static checks parse /repo/include as it is (the guard macro is reserved and explicitly undefined, -UEVENTPP_VERIF); no hook commits',
        'baseline_off_cmd': 'bin/repo-tests.sh',
        'source_commits': [],
        'add_only': True,
    },
    'engines': [
        {'name': 'eppfacts', 'path': 'tool/eppfacts.cc', 'serves_properties': sorted(T.CHECKS), 'kind_free_text': 'clang 14 libTooling fact extractor: resolved AST + clang::CFG of every template instantiation, class layouts, R-INIT verdicts'},
        {'name': 'eppsa', 'path': 'eppsa/', 'serves_properties': sorted(T.CHECKS), 'kind_free_text': 'python rule engine over the fact base: lockset, dominance, typestate, formula extraction, value numbering, use-after-move, commit-point rules with frozen instance tables; loader-level normalisations (forwarder collapse, short-circuit edge threading, inlining of closures handed to run-under-lock helpers) so that rules anchored in a function judge its body wherever it was moved'},
    ],
    'checks': [],
    'not_applicable': [],
    'notes': T.NOTES,
}
for pid in sorted(T.CHECKS):
    c = T.CHECKS[pid]
    m['checks'].append({
        'property_id': pid,
        'quick_cmd': 'bin/eppcheck %s --tier quick' % pid,
        'thorough_cmd': 'bin/eppcheck %s --tier thorough' % pid,
        'evidence_file': 'evidence/%s.json' % pid,
        'replay_cmd_template': 'bin/eppcheck %s --replay {path}' % pid,
        'engine': 'eppsa',
        'level_claimed': {'category': 'other', 'text': c['text'], 'design_ref': c.get('design_ref', 'DESIGN.md section 4, ' + pid)},
        'level_note': c['note'],
        'technique': c['technique'],
    })
for pid in sorted(T.NOT_APPLICABLE):
    m['not_applicable'].append({'property_id': pid, 'reason': T.NOT_APPLICABLE[pid]})
out = os.path.join(V, 'MANIFEST.json')
json.dump(m, open(out, 'w'), indent=1)
try:
    import jsonschema
    jsonschema.validate(m, json.load(open('/root/.vp/MANIFEST.schema.json')))
    print('MANIFEST.json valid: %d checks, %d not_applicable' % (len(m['checks']), len(m['not_applicable'])))
except ImportError:
    print('MANIFEST.json written (jsonschema not available for validation)')
