"""A1 access paths: abstract an expression to root.step.step...

Path = tuple of strings. Roots: 'this', 'v:<name>#<id>' (parameter / local / captured variable),
'tmp#<node>' (anything else). Steps: '.field', '*' (dereference through raw pointer, smart
pointer or iterator), '.m()' (member call m), '&'.
Local references are resolved through their initialiser (they cannot be rebound).
"""
from .facts import TRANSPARENT_CLS, TRANSPARENT_CASTS, CAST_CLS, MOVE_LIKE, short

SMART_DEREF_OPS = {'->', '*'}


def path(fn, n, resolve_refs=True, _depth=0):
    if not n or _depth > 40:
        return ('tmp#%s' % n,)
    o = fn.nodes[n]
    c = o['cls']
    if c in TRANSPARENT_CLS:
        ks = fn.kids(n)
        return path(fn, ks[0], resolve_refs, _depth + 1) if ks else ('tmp#%d' % n,)
    if c in CAST_CLS:
        ck = o.get('ck')
        if ck in TRANSPARENT_CASTS:
            return path(fn, fn.kids(n)[0], resolve_refs, _depth + 1)
        # static_cast<T&&>(x) / static_cast<T&>(x): reference casts keep the object
        t = fn.ntype(n)
        if o.get('vk') in ('l', 'x') and ck in ('NoOp', 'DerivedToBase', 'BaseToDerived', 'Dependent', 'LValueBitCast'):
            return path(fn, fn.kids(n)[0], resolve_refs, _depth + 1)
        return ('tmp#%d' % n,)
    if c == 'CXXThisExpr':
        return ('this',)
    if c == 'DeclRefExpr':
        d = fn.decl(n)
        k = d['kind']
        if k in ('var', 'parm'):
            vid = d['id']
            if k == 'parm' and vid in fn.self_params:
                return ('this',)      # explicit-object parameter of a collapsed forwarder (facts.TU._collapse_forwarders)
            if k == 'parm' and vid in fn.param_subst:
                of, an = fn.param_subst[vid]      # reference parameter of a collapsed forwarder bound to a member of the object
                return path(of, an, resolve_refs, _depth + 1)
            if resolve_refs and k == 'var':
                vd = fn.var_decls().get(vid)
                t = fn.tu.type(d['t'])
                if vd and t and t['ref'] and vd.get('init'):
                    return path(fn, vd['init'], resolve_refs, _depth + 1)
            if resolve_refs and k == 'var':
                # `T * const self = this;` (possibly captured by a lambda): another name of this
                t = fn.tu.type(d['t'])
                if t and t.get('const') and t.get('ptr') is not None and not t.get('ref'):
                    fv = fn.var_decl_any(vid)
                    if fv and fv[1].get('init') and fv[0].nodes[fv[0].strip_all_casts(fv[1]['init'])]['cls'] == 'CXXThisExpr' \
                            and not fv[0].nodes[fv[0].strip_all_casts(fv[1]['init'])].get('was_self'):
                        return ('this',)
            return ('v:%s#%d' % (d['name'], vid),)
        if k == 'enumc':
            return ('enum:%s' % d['name'],)
        if k == 'func':
            return ('func:%s' % short(d['key']),)
        return ('tmp#%d' % n,)
    if c == 'MemberExpr':
        d = fn.decl(n)
        base = path(fn, fn.kids(n)[0], resolve_refs, _depth + 1) if fn.kids(n) else ('tmp#%d' % n,)
        if o.get('arrow') and base != ('this',):
            base = base + ('*',)
        if d['kind'] == 'field':
            return base + ('.' + d['name'],)
        return base + ('.' + d['name'] + '()',)   # bound member function (callee position)
    if c == 'UnaryOperator':
        op = o.get('op')
        sub = path(fn, fn.kids(n)[0], resolve_refs, _depth + 1)
        if op == '*':
            if sub and sub[-1] == '&':
                return sub[:-1]
            if sub == ('this',):
                return sub
            return sub + ('*',)
        if op == '&':
            if sub and sub[-1] == '*':
                return sub[:-1]
            return sub + ('&',)
        return ('tmp#%d' % n,)
    if c == 'CXXOperatorCallExpr':
        op = o.get('op')
        obj = o.get('obj')
        if op == '->' and obj and len(o.get('args', [])) == 1:
            # yields a pointer-like value; the enclosing MemberExpr(arrow) adds the dereference
            return path(fn, obj, resolve_refs, _depth + 1)
        if op == '*' and obj and len(o.get('args', [])) == 1:
            return path(fn, obj, resolve_refs, _depth + 1) + ('*',)
        if op == '[]' and obj:
            return path(fn, obj, resolve_refs, _depth + 1) + ('[]',)
        return ('tmp#%d' % n,)
    if c == 'CXXMemberCallExpr':
        obj = o.get('obj')
        cal = fn.callee(n)
        if obj and cal:
            base = path(fn, obj, resolve_refs, _depth + 1)
            # obj of a member call through raw pointer: MemberExpr arrow handled here
            callee_me = fn.kids(n)[0] if fn.kids(n) else None
            if callee_me and fn.nodes[callee_me]['cls'] == 'MemberExpr' and fn.nodes[callee_me].get('arrow') and base != ('this',):
                base = base + ('*',)
            return base + ('.%s()' % cal['name'],)
        return ('tmp#%d' % n,)
    if c == 'CallExpr':
        cal = fn.callee(n)
        if cal:
            k = short(cal['key'])
            a = o.get('args', [])
            if k in MOVE_LIKE and len(a) == 1:
                return path(fn, a[0], resolve_refs, _depth + 1)
            if k in ('std::get',) and len(a) == 1:
                idx = ''
                return path(fn, a[0], resolve_refs, _depth + 1) + ('.get<>',)
            if k in ('std::addressof',) and len(a) == 1:
                return path(fn, a[0], resolve_refs, _depth + 1) + ('&',)
        return ('tmp#%d' % n,)
    return ('tmp#%d' % n,)


def pstr(p):
    if not p:
        return '?'
    s = p[0]
    if s.startswith('v:'):
        s = s[2:].split('#')[0]
    for st in p[1:]:
        if st == '*':
            s = '(*%s)' % s
        elif st == '&':
            s = '(&%s)' % s
        else:
            s += st
    return s


def root(p):
    return p[0] if p else None


def root_var_id(p):
    r = root(p)
    if r and r.startswith('v:'):
        return int(r.split('#')[1])
    return None


def is_this_field(p, field=None):
    """this.<field>... ; returns the field name or None."""
    if len(p) >= 2 and p[0] == 'this' and p[1].startswith('.') and not p[1].endswith('()'):
        if field is None or p[1] == '.' + field:
            return p[1][1:]
    return None


def fields_in(p):
    return [s[1:] for s in p[1:] if s.startswith('.') and not s.endswith('()')]


def has_prefix(p, pre):
    return len(p) >= len(pre) and tuple(p[:len(pre)]) == tuple(pre)


def last_field(p):
    for s in reversed(p):
        if s.startswith('.') and not s.endswith('()'):
            return s[1:]
    return None
