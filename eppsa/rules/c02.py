"""C02 — Callbacks may mutate or re-invoke the list that is invoking them, safely.

  T1 removed-node typestate: in remove / insert / ownsHandle a node obtained from a handle is used as a list member only
     after `counter != removed` was established under the list mutex (a removed node kept alive by a running traversal
     must behave as "not in the list"); only those functions reach the link-editing helpers
  T2 no library mutex is held where a stored callable is invoked (a callback that re-enters cannot self-deadlock)
  T3 the traversal cursor is a shared_ptr<Node> held by value, advanced only to its own `next`
  T4 doFreeNode marks the node removed on every path and never rewrites the removed node's own links; only doFreeNode,
     Node's constructor and the wrap rewrite write Node::counter
  T5 generations: every Node is constructed with a value drawn from getNextCounter(); the traversal captures its
     generation once before the loop and visits only live nodes with generation <= captured
"""
from ..facts import AnalysisBroken, short
from ..paths import path, pstr, last_field, root_var_id, fields_in
from ..locks import mutex_name
from ..effects import USER_INVOKE, classify_callee
from .qcommon import TUInfo, CONTAINER_CALLEES
from . import listrules as L

EXPLANATION = ('C02: removed-node typestate under the list mutex in remove/insert/ownsHandle, no mutex held at callback invocation, '
               'owning by-value cursor, removal marks and keeps the removed node\'s links, generation discipline of nodes and traversal.')
ASSUMPTIONS = ['memory safety in general and the final list content beyond the per-operation invariant (C01.S) are not decided']
UNITS = None

SINK_HELPERS = ('CallbackListBase::doFreeNode', 'CallbackListBase::doInsert')
TYPESTATE_FNS = ('CallbackListBase::remove', 'CallbackListBase::insert', 'CallbackListBase::ownsHandle')


def check(ctx):
    ctx.rule('C02.T1', 'handle-derived nodes are tested for the removed mark under the mutex before use')
    ctx.rule('C02.T2', 'no library mutex is held at a callback invocation')
    ctx.rule('C02.T3', 'traversal cursor owns its node and follows only its own next')
    ctx.rule('C02.T4', 'removal marks the node and keeps its links; Node::counter has only the sanctioned writers')
    ctx.rule('C02.T5', 'node generations come from getNextCounter; traversal filters by live && generation <= captured')
    for tu in ctx.tus:
        info = TUInfo(tu)
        check_typestate(ctx, tu, info)
        check_t2(ctx, tu, info)
        L.check_traversal(ctx, 'C02.T3', tu, info)
        from .c01 import check_loop_exits
        check_loop_exits(ctx, tu, rule='C02.T3')
        check_map_stability(ctx, tu, info)
        check_t4(ctx, tu, info)
        check_t5(ctx, tu, info)
    ctx.require_min('C02.T1', 4)
    ctx.require_min('C02.T2', 4)
    ctx.require_min('C02.T3', 2)    # doForEachIf and the GCC-4 operator()
    ctx.require_min('C02.T4', 2)
    ctx.require_min('C02.T5', 2)


def check_typestate(ctx, tu, info):
    for f in tu.fns:
        if f.skey not in TYPESTATE_FNS:
            continue
        hv = L.handle_locked_vars(f)
        ctx.ob('C02.T1', f, '%s resolves its handle into a local node pointer' % f.name, bool(hv),
               detail='no local initialised from <handle>.lock() found (unsupported form)')
        for vid, (vname, hid, decl) in hv.items():
            vroot = 'v:%s#%d' % (vname, vid)
            sinks = []
            for n in f.calls():
                ck = f.callee_key(n) or ''
                if ck.startswith('CallbackListBase::do') and ck not in ('CallbackListBase::doAllocateNode',):
                    for a in f.call_args(n):
                        if root_var_id(path(f, a)) == vid:
                            sinks.append((n, 'passed to %s' % ck.split('::')[-1]))
            for n, o in f.nodes.items():
                if o['cls'] == 'MemberExpr' and f.decl(n)['kind'] == 'field' and f.decl(n)['name'] in ('previous', 'next'):
                    p = path(f, n)
                    if p[0] == vroot:
                        sinks.append((n, 'dereferenced for its %s link' % f.decl(n)['name']))
            if f.name == 'remove':
                for r, v in f.result_sites():       # `return true`, or `result = true` with a result variable
                    if v and f.nodes[v]['cls'] == 'CXXBoolLiteralExpr' and f.nodes[v].get('value'):
                        sinks.append((r, 'success is reported'))
            if f.name == 'ownsHandle':
                for r, v in f.result_sites():
                    if v and not (f.nodes[v]['cls'] == 'CXXBoolLiteralExpr' and not f.nodes[v].get('value')):
                        sinks.append((r, 'ownership may be reported'))
            for (n, what) in sinks:
                ok = L.live_dominating(f, info, vid, vname, f.pos(n))
                ctx.ob('C02.T1', f, 'node from the handle is known not to be removed (tested under the mutex) where it is %s' % what.split(' for')[0].split(' to ')[0],
                       ok,
                       detail='%s at %s: `%s` may be a callback that was already removed but is kept alive by a running invocation; '
                              'its stale links are then edited / success is reported for an element that is not in the list'
                              % (what, f.nloc(n), vname),
                       where=f.nloc(n), key_detail='sink ' + what.split(' at ')[0])
    # only the typestate functions reach the link-editing helpers
    for f in tu.fns:
        for n in f.calls():
            ck = f.callee_key(n) or ''
            if ck in SINK_HELPERS:
                ctx.ob('C02.T1', f, '%s is reached only from remove/insert' % ck.split('::')[-1], f.skey in TYPESTATE_FNS,
                       detail='called from %s at %s' % (f.skey, f.nloc(n)), where=f.nloc(n), key_detail='caller of ' + ck.split('::')[-1])
    # heterogeneous forwarders resolve to the checked homogeneous operations
    for f in tu.fns:
        if f.skey in ('HeterCallbackListBase::HomoCallbackListType::doRemove', 'HeterCallbackListBase::insert'):
            want = 'remove' if f.name == 'doRemove' else 'insert'
            calls = [n for n in f.calls() if (f.callee_key(n) or '') == 'CallbackListBase::' + want]
            ctx.ob('C02.T1', f, 'heterogeneous %s forwards to the checked CallbackListBase::%s' % (f.name, want), len(calls) >= 1)


def check_map_stability(ctx, tu, info):
    """A callback may remove listeners of the event being dispatched: the listener list it runs in lives in a map element and
    is reached through a pointer taken under the lock, so map elements must never be erased while the dispatcher lives."""
    from .c03 import MAP_OK_METHODS
    from .qcommon import is_lifetime
    for f in tu.fns:
        if f.outermost().skey.split('::')[0] not in ('EventDispatcherBase', 'HeterEventDispatcherBase') or is_lifetime(f):
            continue
        pm = f.parent_map()
        for n, o in f.nodes.items():
            if o['cls'] != 'MemberExpr' or f.decl(n)['kind'] != 'field' or f.decl(n)['name'] != 'eventCallbackListMap':
                continue
            p = pm.get(n)
            while p and f.nodes[p]['cls'] in ('ImplicitCastExpr', 'ParenExpr'):
                p = pm.get(p)
            meth = None
            if p and f.nodes[p]['cls'] == 'MemberExpr' and f.decl(p)['kind'] == 'func':
                meth = f.decl(p)['name']
            elif p and f.nodes[p]['cls'] == 'CXXOperatorCallExpr':
                meth = 'operator' + f.nodes[p].get('op', '')
            if meth is not None:
                ctx.ob('C02.T2', f, 'listener lists are never destroyed while the dispatcher lives (%s)' % meth, meth in MAP_OK_METHODS,
                       detail='%s on eventCallbackListMap at %s: a callback that removes the last listener of the event being dispatched frees the '
                              'list that is invoking it' % (meth, f.nloc(n)), where=f.nloc(n), key_detail='map element destroyed ' + meth)


def check_t2(ctx, tu, info):
    for f in tu.fns:
        o = f.outermost().skey
        if not (o.startswith('CallbackListBase::') or o.startswith('EventDispatcherBase::') or o.startswith('HeterCallbackListBase::')
                or o.startswith('HeterEventDispatcherBase::') or o.startswith('MixinFilter::') or o.startswith('MixinHeterFilter::')):
            continue
        for n in f.nodes:
            if not (f.is_call(n) or f.is_construct(n)):
                continue
            eff, desc = classify_callee(f, n)
            if USER_INVOKE not in eff:
                continue
            held = info.held_names(f, f.pos(n), must=False) - {None}
            ctx.ob('C02.T2', f, 'callback / policy / visitor is invoked with no library mutex held', not held,
                   detail='%s at %s runs while %s may be held: re-entering the list from the callback self-deadlocks'
                          % (desc, f.nloc(n), ', '.join(sorted(held))), where=f.nloc(n), key_detail='callback under lock')


def check_t4(ctx, tu, info):
    for f in tu.fns_named('CallbackListBase::doFreeNode'):
        nparam = f.params[0]['id'] if f.params else None
        nname = f.params[0]['name'] if f.params else '?'
        root = 'v:%s#%d' % (nname, nparam)
        ws = info.writes(f)
        own_links = [w for w in ws if w['path'] in ((root, '*', '.previous'), (root, '*', '.next')) and w['how'] in ('assign', 'call:reset', 'call:swap')]
        ctx.ob('C02.T4', f, 'the removed node keeps its own previous/next (a running traversal continues through them)', not own_links,
               detail='doFreeNode rewrites %s at %s: an invocation standing on the removed callback loses its way (skips or stops)'
                      % (', '.join(pstr(w['path']) for w in own_links), ', '.join(f.nloc(w['node']) for w in own_links)))
        marks = [w for w in ws if w['path'] == (root, '*', '.counter') and w['how'] == 'assign']
        okmark = len(marks) == 1 and f.pos_postdominates(marks[0]['pos'], (f.entry, 0))
        if okmark:
            rhs = f.strip_all_casts(marks[0]['rhs'])
            okmark = f.nodes[rhs].get('cv', f.decl(rhs).get('value') if f.nodes[rhs]['cls'] == 'DeclRefExpr' else None) == 0
        ctx.ob('C02.T4', f, 'the removed node is marked with the removed generation on every path', okmark,
               detail='marks found: %d' % len(marks))
    allowed = ('CallbackListBase::doFreeNode', 'CallbackListBase::getNextCounter', 'CallbackListBase::Node::Node')
    for f in tu.fns:
        if not f.outermost().skey.startswith('CallbackListBase::'):
            continue
        for w in info.writes(f):
            if w['path'][-1] == '.counter' and w['how'] in ('assign', '++', '--', '+=', '-='):
                if f.skey.startswith('CallbackListBase::Node::'):
                    continue
                ctx.ob('C02.T4', f, 'Node::counter is written only by doFreeNode (mark) and the wrap rewrite', f.skey in allowed,
                       detail='%s writes %s at %s' % (f.skey, pstr(w['path']), f.nloc(w['node'])), where=f.nloc(w['node']),
                       key_detail='counter writer')


def check_t5(ctx, tu, info):
    for f in tu.fns:
        if not f.outermost().skey.startswith('CallbackListBase::'):
            continue
        for n in f.calls():
            ck = f.callee_key(n) or ''
            if ck == 'std::make_shared' and 'Node' in (f.tu.tstr(f.nodes[n].get('t'))):
                args = f.call_args(n)
                ok = False
                src = '?'
                if len(args) == 2:
                    a = f.strip_all_casts(args[1])
                    if f.nodes[a]['cls'] == 'DeclRefExpr' and f.decl(a)['kind'] == 'var':
                        vd = f.var_decls().get(f.decl(a)['id'])
                        if vd and vd.get('init'):
                            a = f.strip_all_casts(vd['init'])
                    src = f.nodes[a]['cls']
                    if f.is_call(a) and (f.callee_key(a) or '') == 'CallbackListBase::getNextCounter':
                        ok = True
                ctx.ob('C02.T5', f, 'new nodes get their generation from getNextCounter()', ok,
                       detail='generation argument at %s comes from %s' % (f.nloc(n), src), where=f.nloc(n), key_detail='node generation')
    L.check_traversal(ctx, 'C02.T5', tu, info)
    # the generation is drawn with `++currentCounter` on Threading::Atomic: under every threading policy the pre-increment must
    # yield the *new* value (otherwise a node added during an invocation gets the generation that invocation already captured)
    from .c20 import check_policy
    check_policy(ctx, tu, rule='C02.T5', only=('operator++', 'operator--'))
