// static_assert witnesses for the compile-time policy selection (C04.W, C13.S4, C05.V, C12.F4, C18.W, C20.M).
// Every assert carries the properties it belongs to (`// @Cxx`): a property's check judges only its own asserts, so that a failing
// assert of one property never raises an alarm for another.
// Type-checked with g++ and clang++; never linked or run.
#include "common.h"
#include <unordered_map>

namespace wit {
using namespace eventpp;
using namespace eventpp::internal_;

struct V {};
template <typename K, typename T> struct UserMap : std::map<K, T> {};
struct PoliciesUserMap { template <typename K, typename T> using Map = UserMap<K, T>; };
struct NoHash { bool operator < (const NoHash &) const { return false; } };

// SelectMap: user map / hashed / ordered
static_assert(std::is_same<SelectMap<int, V, DefaultPolicies, HasTemplateMap<DefaultPolicies>::value>::Type, std::unordered_map<int, V> >::value, "hashable key -> unordered_map");   // @C04 @C20
static_assert(std::is_same<SelectMap<std::string, V, DefaultPolicies, HasTemplateMap<DefaultPolicies>::value>::Type, std::unordered_map<std::string, V> >::value, "string key -> unordered_map");   // @C04 @C20
static_assert(std::is_same<SelectMap<NoHash, V, DefaultPolicies, HasTemplateMap<DefaultPolicies>::value>::Type, std::map<NoHash, V> >::value, "non-hashable key -> map");   // @C04 @C20
static_assert(std::is_same<SelectMap<OnlyLess, V, DefaultPolicies, HasTemplateMap<DefaultPolicies>::value>::Type, std::map<OnlyLess, V> >::value, "only-less key -> map");   // @C04 @C20
static_assert(std::is_same<SelectMap<int, V, PoliciesUserMap, HasTemplateMap<PoliciesUserMap>::value>::Type, UserMap<int, V> >::value, "user map wins");   // @C04 @C20
static_assert(std::is_same<SelectMap<int, V, PoliciesMapOrdered, HasTemplateMap<PoliciesMapOrdered>::value>::Type, std::map<int, V> >::value, "policy map");   // @C04 @C20
static_assert(HasHash<AnyId<> >::value, "AnyId is hashable");   // @C18 @C04
static_assert(std::is_same<SelectMap<AnyId<>, V, DefaultPolicies, false>::Type, std::unordered_map<AnyId<>, V> >::value, "AnyId -> unordered_map");   // @C18 @C04
// element addresses must be stable: the maps selected above are node based (pointers to elements escape the lock)
static_assert(!HasHash<NoHash>::value && HasHash<int>::value, "HasHash");   // @C04

// SelectGetEvent: the policy's getEvent exactly when callable with the argument types
static_assert(HasFunctionGetEvent<PoliciesGetEventRef, const EventStruct &, int>::value, "policy callable");   // @C04
static_assert(HasFunctionGetEvent<PoliciesGetEventRef, EventStruct &&, int>::value, "policy callable with rvalue");   // @C04
static_assert(!HasFunctionGetEvent<PoliciesGetEventRef, int, int>::value, "policy not callable");   // @C04
static_assert(!HasFunctionGetEvent<DefaultPolicies, int>::value, "no getEvent");   // @C04
// detection == callability, against a detector written independently of the library's (void_t idiom), over parameter kinds x argument kinds
template <typename ...> struct VoidT { using type = void; };
template <typename P, typename Enable, typename ...A> struct CanCallGetEventImpl : std::false_type {};
template <typename P, typename ...A> struct CanCallGetEventImpl<P, typename VoidT<decltype(P::getEvent(std::declval<A>()...))>::type, A...> : std::true_type {};
template <typename P, typename ...A> struct CanCallGetEvent : CanCallGetEventImpl<P, void, A...> {};
struct GEByValue { static int getEvent(int e, std::string) { return e; } };
struct GEConstRef { static int getEvent(const int & e, const std::string &) { return e; } };
struct GEMutRef { static int getEvent(int e, std::string &) { return e; } };
struct GERvalueRef { static int getEvent(int e, std::string &&) { return e; } };
struct GETemplate { template <typename T> static int getEvent(int e, T &&) { return e; } };
#define WIT_GE_AGREE(P, ...) static_assert(HasFunctionGetEvent<P, __VA_ARGS__>::value == CanCallGetEvent<P, __VA_ARGS__>::value, "getEvent detection agrees with callability: " #P " (" #__VA_ARGS__ ")")
#define WIT_GE_ROW(P) \
	WIT_GE_AGREE(P, int, std::string); WIT_GE_AGREE(P, int, std::string &); WIT_GE_AGREE(P, int, const std::string &); WIT_GE_AGREE(P, int, std::string &&); \
	WIT_GE_AGREE(P, int &, std::string &); WIT_GE_AGREE(P, const int &, const std::string &); WIT_GE_AGREE(P, int, int); WIT_GE_AGREE(P, int)
WIT_GE_ROW(GEByValue);   // @C04
WIT_GE_ROW(GEConstRef);   // @C04
WIT_GE_ROW(GEMutRef);   // @C04
WIT_GE_ROW(GERvalueRef);   // @C04
WIT_GE_ROW(GETemplate);   // @C04
static_assert(HasFunctionGetEvent<GEMutRef, int, std::string &>::value, "a policy taking a non-const lvalue reference is detected for an lvalue argument");   // @C04
static_assert(!HasFunctionGetEvent<GEMutRef, int, std::string &&>::value && !HasFunctionGetEvent<GERvalueRef, int, std::string &>::value, "reference kinds are respected");   // @C04
static_assert(std::is_same<SelectGetEvent<PoliciesGetEventRef, std::string, true>::Type, PoliciesGetEventRef>::value, "selects policy");   // @C04
static_assert(std::is_same<SelectGetEvent<PoliciesGetEventRef, std::string, false>::Type, DefaultGetEvent<std::string> >::value, "falls back to first argument");   // @C04
// (a by-value result of the default getEvent is not required: callers copy the key before they forward the arguments;
//  what matters is that nothing aliases an argument that is about to be moved - rule C04.M judges that)

// SelectCanContinueInvoking / threading / callback / queue list / mixins
static_assert(HasFunctionCanContinueInvoking<PoliciesCanContinue, int, const std::string &>::value, "canContinue present");   // @C12
static_assert(!HasFunctionCanContinueInvoking<DefaultPolicies, int>::value, "canContinue absent");   // @C12
static_assert(std::is_same<SelectCanContinueInvoking<PoliciesCanContinue, true>::Type, PoliciesCanContinue>::value, "policy canContinue");   // @C12
static_assert(std::is_same<SelectCanContinueInvoking<DefaultPolicies, false>::Type, DefaultCanContinueInvoking>::value, "default canContinue");   // @C12
static_assert(std::is_same<SelectThreading<DefaultPolicies, HasTypeThreading<DefaultPolicies>::value>::Type, MultipleThreading>::value, "default threading");   // @C20
static_assert(std::is_same<SelectThreading<PoliciesSingle, HasTypeThreading<PoliciesSingle>::value>::Type, SingleThreading>::value, "policy threading");   // @C20
static_assert(std::is_same<SelectQueueList<V, DefaultPolicies, HasTemplateQueueList<DefaultPolicies>::value>::Type, std::list<V> >::value, "default queue list");   // @C13
static_assert(std::is_same<SelectQueueList<V, PoliciesOrdered, HasTemplateQueueList<PoliciesOrdered>::value>::Type, OrderedQueueList<V> >::value, "ordered queue list");   // @C13
static_assert(std::is_same<SelectCallback<PoliciesCustomCallback, HasTypeCallback<PoliciesCustomCallback>::value, int>::Type, PoliciesCustomCallback::Callback>::value, "policy callback");   // @C20
static_assert(std::is_same<SelectCallback<DefaultPolicies, HasTypeCallback<DefaultPolicies>::value, int>::Type, int>::value, "default callback");   // @C20
static_assert(std::is_same<SelectMixins<PoliciesFilter, HasTypeMixins<PoliciesFilter>::value>::Type, MixinList<MixinFilter> >::value, "mixins");   // @C12
static_assert(std::is_same<SelectMixins<DefaultPolicies, HasTypeMixins<DefaultPolicies>::value>::Type, MixinList<> >::value, "no mixins");   // @C12

// argument passing modes
static_assert(ArgumentPassingAutoDetect::canIncludeEventType && ArgumentPassingAutoDetect::canExcludeEventType, "auto");   // @C04
static_assert(ArgumentPassingIncludeEvent::canIncludeEventType && !ArgumentPassingIncludeEvent::canExcludeEventType, "include");   // @C04
static_assert(!ArgumentPassingExcludeEvent::canIncludeEventType && ArgumentPassingExcludeEvent::canExcludeEventType, "exclude");   // @C04

// queued arguments are stored by value (C05.V): a const T& parameter is copied at enqueue time
using Q1 = EventQueue<int, void (const std::string &, int &, Payload &&, const char *)>;
static_assert(std::is_same<decltype(Q1::QueuedEvent::arguments), std::tuple<std::string, int, Payload, const char *> >::value, "decayed tuple");   // @C05
static_assert(std::is_same<decltype(Q1::QueuedEvent::event), int>::value, "event by value");   // @C05

// IndexSequence generation used to unpack the stored tuple: 0,1,...,N-1 in order
static_assert(std::is_same<MakeIndexSequence<0>::Type, IndexSequence<> >::value, "seq0");   // @C05
static_assert(std::is_same<MakeIndexSequence<1>::Type, IndexSequence<0> >::value, "seq1");   // @C05
static_assert(std::is_same<MakeIndexSequence<4>::Type, IndexSequence<0, 1, 2, 3> >::value, "seq4");   // @C05
static_assert(std::is_same<MakeIndexSequence<2>::Type, IndexSequence<0, 1> >::value, "seq2");   // @C05
static_assert(std::is_same<MakeIndexSequence<3>::Type, IndexSequence<0, 1, 2> >::value, "seq3");   // @C05
static_assert(std::is_same<MakeIndexSequence<5>::Type, IndexSequence<0, 1, 2, 3, 4> >::value, "seq5");   // @C05
static_assert(std::is_same<MakeIndexSequence<6>::Type, IndexSequence<0, 1, 2, 3, 4, 5> >::value, "seq6");   // @C05
static_assert(std::is_same<MakeIndexSequence<7>::Type, IndexSequence<0, 1, 2, 3, 4, 5, 6> >::value, "seq7");   // @C05
static_assert(std::is_same<MakeIndexSequence<9>::Type, IndexSequence<0, 1, 2, 3, 4, 5, 6, 7, 8> >::value, "seq9");   // @C05
// any length: the sequence of N+1 is the sequence of N followed by N (checked up to 24)
template <typename S, std::size_t N> struct AppendIndex;
template <std::size_t ...I, std::size_t N> struct AppendIndex<IndexSequence<I...>, N> { using Type = IndexSequence<I..., N>; };
template <std::size_t N> struct SeqStep {
	static constexpr bool value = std::is_same<typename MakeIndexSequence<N + 1>::Type, typename AppendIndex<typename MakeIndexSequence<N>::Type, N>::Type>::value && SeqStep<N - 1>::value;
};
template <> struct SeqStep<0> { static constexpr bool value = std::is_same<MakeIndexSequence<1>::Type, IndexSequence<0> >::value; };
static_assert(SeqStep<24>::value, "MakeIndexSequence<N+1> is MakeIndexSequence<N> followed by N, for every N up to 24");   // @C05

} // namespace wit
