// Witness: EventQueue under threading, queue-list, argument-passing, getEvent and mixin policies.
#include "common.h"

namespace wit {

template <typename Q, typename K, typename CB, typename ...A>
void exerciseQueueCommon(const K & key, CB cb, A ...args)
{
	Q q;
	typename Q::Handle h = q.appendListener(key, cb);
	(void)q.removeListener(key, h);
	q.enqueue(key, args...);
	(void)q.emptyQueue();
	(void)q.process();
	(void)q.processOne();
	typename Q::QueuedEvent ev;
	(void)q.peekEvent(&ev);
	(void)q.takeEvent(&ev);
	q.dispatch(ev);
	(void)ev.getEvent();
	q.clearEvents();
	Q copied(q);
	Q moved(std::move(copied));
	copied = q;
	moved = std::move(copied);
}

template <typename Q>
void exerciseWait(Q & q)
{
	q.wait();
	(void)q.waitFor(std::chrono::milliseconds(1));
	typename Q::DisableQueueNotify guard(&q);
}

void useQueues()
{
	{
		using Q = eventpp::EventQueue<int, void (int, const std::string &)>;
		exerciseQueueCommon<Q>(1, [](int, const std::string &) {}, 1, std::string("x"));
		Q q; exerciseWait(q);
		q.enqueue(1, "x"); q.enqueue(1, 2, "x");
		(void)q.processIf([](int, const std::string &) { return true; });
		(void)q.processIf([]() { return true; });
		(void)q.processUntil([](int, const std::string &) { return true; });
		(void)q.processUntil([]() { return true; });
		Q::QueuedEvent ev; (void)ev.getArgument<0>(); (void)ev.getArgument<1>();
	}
	{
		using Q = eventpp::EventQueue<int, void (int, const std::string &), PoliciesSingle>;
		exerciseQueueCommon<Q>(1, [](int, const std::string &) {}, 1, std::string("x"));
		Q q; Q::DisableQueueNotify guard(&q);
		(void)q.processIf([](int, const std::string &) { return true; });
		(void)q.processUntil([](int, const std::string &) { return true; });
	}
	{
		using Q = eventpp::EventQueue<int, void (int, const std::string &), PoliciesSpin>;
		exerciseQueueCommon<Q>(1, [](int, const std::string &) {}, 1, std::string("x"));
		Q q; Q::DisableQueueNotify guard(&q);
		(void)q.processIf([](int, const std::string &) { return true; });
		(void)q.processUntil([](int, const std::string &) { return true; });
	}
	{
		using Q = eventpp::EventQueue<int, void (int, const std::string &), PoliciesOrdered>;
		exerciseQueueCommon<Q>(1, [](int, const std::string &) {}, 1, std::string("x"));
		Q q; exerciseWait(q);
		(void)q.processIf([](int, const std::string &) { return true; });
		(void)q.processUntil([](int, const std::string &) { return true; });
	}
	{
		// class-type key and by-value class-type payload
		using Q = eventpp::EventQueue<std::string, void (std::string, Payload), PoliciesInclude>;
		exerciseQueueCommon<Q>(std::string("k"), [](std::string, Payload) {}, Payload());
		Q q; exerciseWait(q);
		q.enqueue(std::string("k"), Payload()); std::string k; Payload p; q.enqueue(k, p);
		(void)q.processIf([](const std::string &, const Payload &) { return true; });
		(void)q.processUntil([](const std::string &, const Payload &) { return true; });
		// predicates taking the by-value prototype arguments by value: they must receive copies, never the stored objects themselves
		(void)q.processIf([](std::string, Payload) { return true; });
		(void)q.processUntil([](std::string, Payload) { return false; });
	}
	{
		using Q = eventpp::EventQueue<std::string, void (Payload, std::unique_ptr<int> &), PoliciesExclude>;
		Q q;
		q.appendListener("k", [](Payload, std::unique_ptr<int> &) {});
		std::unique_ptr<int> u;
		(void)q.process(); (void)q.processOne(); q.clearEvents(); (void)q.emptyQueue();
	}
	{
		using Q = eventpp::EventQueue<std::string, void (const EventStruct &, int), PoliciesGetEventRef>;
		Q q; q.appendListener("k", [](const EventStruct &, int) {});
		q.enqueue(EventStruct{"k", 1}, 1); EventStruct e{"k", 1}; q.enqueue(e, 2);
		(void)q.process(); (void)q.processOne();
		(void)q.processIf([](const EventStruct &, int) { return true; });
		Q::QueuedEvent ev; (void)q.takeEvent(&ev); (void)q.peekEvent(&ev); q.dispatch(ev); q.clearEvents();
	}
	{
		using Q = eventpp::EventQueue<std::string, void (EventStruct, int), PoliciesGetEventValue>;
		Q q; q.appendListener("k", [](EventStruct, int) {});
		q.enqueue(EventStruct{"k", 1}, 1); EventStruct e{"k", 1}; q.enqueue(e, 2);
		(void)q.process(); (void)q.processOne();
		Q::QueuedEvent ev; (void)q.takeEvent(&ev); q.dispatch(ev); q.clearEvents();
	}
	{
		using Q = eventpp::EventQueue<int, void (const std::string &), PoliciesGetEventExcl>;
		Q q; q.appendListener(4, [](const std::string &) {});
		q.enqueue(404, "not found"); q.enqueue(200, std::string("ok")); (void)q.process();
	}
	{
		using Q = eventpp::EventQueue<int, void (std::string), PoliciesGetEventExclValue>;
		Q q; q.appendListener(4, [](std::string) {});
		q.enqueue(404, std::string("payload")); std::string s("x"); q.enqueue(200, s); (void)q.process(); (void)q.processOne();
	}
	{
		using Q = eventpp::EventQueue<int, void (int, std::string), PoliciesFilter>;
		exerciseQueueCommon<Q>(1, [](int, std::string) {}, 1, std::string("x"));
		Q q; exerciseWait(q);
		auto fh = q.appendFilter([](int &, std::string &) { return true; });
		(void)q.removeFilter(fh);
		(void)q.processIf([](int, const std::string &) { return true; });
	}
	{
		using Q = eventpp::EventQueue<int, void (int, const std::string &), PoliciesCanContinue>;
		exerciseQueueCommon<Q>(1, [](int, const std::string &) {}, 1, std::string("x"));
	}
}

} // namespace wit
