// Witness: utilities (removers, functors, adapters, AnyData, AnyId, OrderedQueueList).
#include "common.h"
#include <typeinfo>

namespace wit {

template <typename Remover, typename Target, typename K, typename CB>
void exerciseScopedDispatcher(const K & key, CB cb, bool = true)
{
	Target t, t2;
	Remover r(t);
	auto h = r.appendListener(key, cb);
	auto h2 = r.prependListener(key, cb);
	auto h3 = r.insertListener(key, cb, h);
	(void)h2; (void)h3;
	r.setDispatcher(t2);
	r.reset();
	Remover d;
	Remover m(std::move(r));
	d = std::move(m);
	d.swap(m);
}

template <typename Remover, typename Target, typename CB>
void exerciseScopedList(CB cb)
{
	Target t, t2;
	Remover r(t);
	auto h = r.append(cb);
	auto h2 = r.prepend(cb);
	auto h3 = r.insert(cb, h);
	(void)h2; (void)h3;
	r.setCallbackList(t2);
	r.reset();
	Remover d;
	Remover m(std::move(r));
	d = std::move(m);
	d.swap(m);
}

struct Big { char bytes[200]; std::string s; };
struct Mid24 { char bytes[24]; };
struct MoveOnly { std::unique_ptr<int> p; MoveOnly() = default; MoveOnly(MoveOnly &&) = default; };

struct ValueStorage {
	std::string v;
	ValueStorage() {}
	template <typename T> ValueStorage(const T & t) : v(std::to_string(t)) {}
	ValueStorage(const std::string & s) : v(s) {}
	ValueStorage(const char * s) : v(s) {}
	bool operator == (const ValueStorage & o) const { return v == o.v; }
	bool operator < (const ValueStorage & o) const { return v < o.v; }
};

// a storage that supports neither == nor < but can tell the type of what it holds (like std::any): ids over it are equal exactly when
// their digests are
struct TypeTagStorage {
	const std::type_info * t;
	TypeTagStorage() : t(&typeid(void)) {}
	template <typename T> TypeTagStorage(const T &) : t(&typeid(T)) {}
	const std::type_info & type() const { return *t; }
};

// plain-data storage whose == is coarser than its bytes (case-insensitive letter), and whose < returns int (legacy style, bool-convertible)
struct PodStorage {
	char letter; int pad;
	PodStorage() : letter(0), pad(0) {}
	template <typename T> PodStorage(const T & t) : letter(static_cast<char>(t)), pad(1) {}
	bool operator == (const PodStorage & o) const { return (letter | 0x20) == (o.letter | 0x20); }
	int operator < (const PodStorage & o) const { return (letter | 0x20) < (o.letter | 0x20); }
};

// a digester whose result is not a std::size_t: digests must be compared as what they are
template <typename T> struct DigestDouble { double operator()(const T & v) const { return static_cast<double>(std::hash<T>()(v) % 1000) / 1000.0; } };

// a digester taking its argument by value (a user may supply any callable class template): building an id from a temporary must
// still store the value the caller supplied
template <typename T> struct DigestByValue { std::size_t operator()(T v) const { return std::hash<T>()(v); } };

template <std::size_t S> struct Sized { char bytes[S]; };
template <std::size_t S> struct SizedNT { char bytes[S]; SizedNT() {} SizedNT(const SizedNT & o) { bytes[0] = o.bytes[0]; } ~SizedNT() {} };

// trivial destructor, but a move constructor of its own (a cursor into its own buffer): moving an AnyData has to run it
struct SelfCursor {
	char text[8]; const char * cursor;
	SelfCursor() : text(), cursor(text) {}
	SelfCursor(const SelfCursor & o) : cursor(text + (o.cursor - o.text)) { for(int i = 0; i < 8; ++i) text[i] = o.text[i]; }
	SelfCursor(SelfCursor && o) noexcept : cursor(text + (o.cursor - o.text)) { for(int i = 0; i < 8; ++i) text[i] = o.text[i]; }
};

template <std::size_t N>
void exerciseAnyDataSizes()
{
	using AD = eventpp::AnyData<N>;
	AD s1(Sized<1>{}); AD s8(Sized<8>{}); AD s15(Sized<15>{}); AD s16(Sized<16>{}); AD s17(Sized<17>{}); AD s23(Sized<23>{});
	AD s24(Sized<24>{}); AD s25(Sized<25>{}); AD s63(Sized<63>{}); AD s64(Sized<64>{}); AD s65(Sized<65>{}); AD s128(Sized<128>{});
	AD n16((SizedNT<16>())); AD n17((SizedNT<17>())); AD n64((SizedNT<64>())); AD n65((SizedNT<65>()));
	AD m1(std::move(s16)); AD m2(std::move(s17)); AD m3(std::move(n64)); AD m4(std::move(n65));
	(void)s1; (void)s8; (void)s15; (void)s23; (void)s24; (void)s25; (void)s63; (void)s64; (void)s65; (void)s128; (void)n16; (void)n17;
	(void)m1.template isType<Sized<16> >(); (void)m2.template get<Sized<17> >(); (void)m3; (void)m4;
}

template <std::size_t N>
void exerciseAnyData()
{
	exerciseAnyDataSizes<N>();
	using AD = eventpp::AnyData<N>;
	AD a(1); AD b(std::string("s")); AD c(Big{}); AD d(Mid24{}); AD e((MoveOnly()));
	const std::string cs("x"); AD f(cs); int i = 0; AD g(i);
	AD m(std::move(c)); AD m2(std::move(a));
	AD sc((SelfCursor())); AD sc2(std::move(sc)); (void)sc2.template get<SelfCursor>();
	(void)b.template get<std::string>(); (void)b.getAddress(); (void)b.template isType<std::string>(); (void)m.template isType<Big>();
	const std::string & rs = b; (void)rs; const std::string * ps = b; (void)ps; (void)d; (void)e; (void)f; (void)g; (void)m2;
}

void useUtils()
{
	using D = eventpp::EventDispatcher<int, void (int, const std::string &)>;
	using Q = eventpp::EventQueue<int, void (int, const std::string &)>;
	using HD = eventpp::HeterEventDispatcher<int, eventpp::HeterTuple<void (), void (int, const std::string &)> >;
	using CL = eventpp::CallbackList<void (int, const std::string &)>;
	using HCL = eventpp::HeterCallbackList<eventpp::HeterTuple<void (), void (int, const std::string &)> >;
	auto cb = [](int, const std::string &) {};

	exerciseScopedDispatcher<eventpp::ScopedRemover<D>, D>(1, cb);
	{ D t; eventpp::ScopedRemover<D> r(t); auto h = r.appendListener(1, cb); (void)r.removeListener(1, h); }
	{ Q t; eventpp::ScopedRemover<Q> r(t); auto h = r.appendListener(1, cb); (void)r.removeListener(1, h); }
	{ CL t; eventpp::ScopedRemover<CL> r(t); auto h = r.append(cb); (void)r.remove(h); }
	exerciseScopedDispatcher<eventpp::ScopedRemover<Q>, Q>(1, cb);
	exerciseScopedDispatcher<eventpp::ScopedRemover<HD>, HD>(1, cb);
	exerciseScopedList<eventpp::ScopedRemover<CL>, CL>(cb);
	exerciseScopedList<eventpp::ScopedRemover<HCL>, HCL>(cb);
	{
		using DS = eventpp::EventDispatcher<std::string, void (int), PoliciesSingle>;
		exerciseScopedDispatcher<eventpp::ScopedRemover<DS>, DS>(std::string("k"), [](int) {});
	}

	{
		D d; CL l; Q q;
		eventpp::CounterRemover<D> cr(d);
		auto h = cr.appendListener(1, cb, 2); cr.prependListener(1, cb); cr.insertListener(1, cb, h, 3);
		eventpp::counterRemover(q).appendListener(1, cb);
		eventpp::CounterRemover<CL> cl(l);
		auto h2 = cl.append(cb, 2); cl.prepend(cb); cl.insert(cb, h2, 3);
		eventpp::counterRemover(l).append(cb);
		d.dispatch(1, 1, "x"); l(1, "x"); q.dispatch(1, 1, "x");

		eventpp::ConditionalRemover<D> dr(d);
		auto h3 = dr.appendListener(1, cb, []() { return true; });
		dr.prependListener(1, cb, [](int, const std::string &) { return true; });
		dr.insertListener(1, cb, h3, []() { return false; });
		eventpp::conditionalRemover(q).appendListener(1, cb, [](int, const std::string &) { return true; });
		eventpp::ConditionalRemover<CL> lr(l);
		auto h4 = lr.append(cb, []() { return true; });
		lr.prepend(cb, [](int, const std::string &) { return true; });
		lr.insert(cb, h4, []() { return false; });
		dr.appendListener(1, cb, CondBothWays());
		lr.append(cb, CondBothWays());
		d.dispatch(1, 1, "x"); l(1, "x"); q.dispatch(1, 1, "x");
	}
	{
		using HD = eventpp::HeterEventDispatcher<int, eventpp::HeterTuple<void (int, const std::string &)> >;
		using HCL = eventpp::HeterCallbackList<eventpp::HeterTuple<void (int, const std::string &)> >;
		HD d; HCL l;
		eventpp::CounterRemover<HD> cr(d);
		cr.appendListener(1, cb, 2);
		eventpp::CounterRemover<HCL> cl(l);
		cl.append(cb, 2);
		eventpp::ConditionalRemover<HD> dr(d);
		dr.appendListener(1, cb, [](int, const std::string &) { return true; });
		eventpp::ConditionalRemover<HCL> lr(l);
		lr.append(cb, []() { return true; });
		d.dispatch(1, 1, "x"); l(1, "x");
	}
	{
		CL l;
		l.append(eventpp::conditionalFunctor(cb, [](int, const std::string &) { return true; }));
		l.append(eventpp::conditionalFunctor([](int, const std::string &) {}, [](int v, const std::string &) { return v > 0; }));
		struct B { virtual ~B() {} }; struct Dv : B {};
		eventpp::CallbackList<void (const B &, std::shared_ptr<B>)> l2;
		l2.append(eventpp::argumentAdapter<void (const Dv &, std::shared_ptr<Dv>)>([](const Dv &, std::shared_ptr<Dv>) {}));
		eventpp::CallbackList<void (const B &, int)> l3;
		l3.append(eventpp::argumentAdapter<void (const Dv &, long)>([](const Dv &, long) {}));
		l3.append(eventpp::argumentAdapter(std::function<void (const Dv &, int)>([](const Dv &, int) {})));
		l(1, "x"); Dv dv; l2(dv, std::make_shared<Dv>()); l3(dv, 1);
	}

	exerciseAnyData<8>();
	exerciseAnyData<16>();
	exerciseAnyData<24>();
	exerciseAnyData<64>();
	(void)eventpp::maxSizeOf<int, std::string, Big>();
	{
		using E = eventpp::AnyData<eventpp::maxSizeOf<int, std::string>()>;
		eventpp::EventQueue<int, void (const E &)> q;
		q.appendListener(1, [](const E &) {});
		q.enqueue(1, std::string("x")); q.enqueue(1, 5); q.enqueue(1, Big{});
		(void)q.process(); (void)q.processOne(); q.clearEvents();
	}
	{
		using Id = eventpp::AnyId<>;
		Id a(1), b(std::string("x")), c;
		(void)(a == b); (void)(a < b); (void)std::hash<Id>()(a); (void)a.getDigest(); (void)a.getValue(); (void)c;
		eventpp::EventDispatcher<Id, void ()> d; d.appendListener(1, []() {}); d.dispatch(Id(1));
		using IdV = eventpp::AnyId<std::hash, ValueStorage>;
		IdV va(1), vb(std::string("x"));
		(void)(va == vb); (void)(va < vb); (void)std::hash<IdV>()(va);
		eventpp::EventDispatcher<IdV, void (), PoliciesMapOrdered> d2; d2.appendListener(1, []() {}); d2.dispatch(IdV(1));
		eventpp::EventDispatcher<IdV, void ()> d3; d3.appendListener(1, []() {}); d3.dispatch(IdV(1));
		using IdT = eventpp::AnyId<std::hash, TypeTagStorage>;
		IdT ta(3), tb(3L);
		(void)(ta == tb); (void)(ta < tb); (void)std::hash<IdT>()(ta);
		eventpp::EventDispatcher<IdT, void (), PoliciesMapOrdered> dt; dt.appendListener(3, []() {}); dt.dispatch(IdT(3L));
		eventpp::EventDispatcher<IdT, void ()> dt2; dt2.appendListener(3, []() {}); dt2.dispatch(IdT(3L));
		using IdP = eventpp::AnyId<std::hash, PodStorage>;
		IdP pa('q'), pb('Q');
		(void)(pa == pb); (void)(pa < pb); (void)std::hash<IdP>()(pa);
		eventpp::EventDispatcher<IdP, void (), PoliciesMapOrdered> dp; dp.appendListener('q', []() {}); dp.dispatch(IdP('Q'));
		eventpp::EventDispatcher<IdP, void ()> dp2; dp2.appendListener('q', []() {}); dp2.dispatch(IdP('Q'));
		using IdD = eventpp::AnyId<DigestDouble, ValueStorage>;
		IdD da(1), db(2);
		(void)(da == db); (void)(da < db); (void)std::hash<IdD>()(da);
		eventpp::EventDispatcher<IdD, void (), PoliciesMapOrdered> dd; dd.appendListener(1, []() {}); dd.dispatch(IdD(2));
		using IdB = eventpp::AnyId<DigestByValue, ValueStorage>;
		std::string ls("y"); const std::string cs("z");
		IdB ba(std::string("x")), bb(ls), bc(cs), bd(7);
		(void)(ba == bb); (void)(bb < bc); (void)std::hash<IdB>()(bd);
		eventpp::EventDispatcher<IdB, void (), PoliciesMapOrdered> d4; d4.appendListener(std::string("x"), []() {}); d4.dispatch(ls);
		eventpp::EventDispatcher<IdB, void ()> d5; d5.appendListener(std::string("x"), []() {}); d5.dispatch(IdB(cs));
	}
}

} // namespace wit
