// Shared declarations for the compile-only witness units. These files are parsed by the
// fact extractor (and type-checked by g++/clang++); they are never linked or run.
#ifndef EPP_WITNESS_COMMON_H
#define EPP_WITNESS_COMMON_H

#include <eventpp/callbacklist.h>
#include <eventpp/eventdispatcher.h>
#include <eventpp/eventqueue.h>
#include <eventpp/hetercallbacklist.h>
#include <eventpp/hetereventdispatcher.h>
#include <eventpp/hetereventqueue.h>
#include <eventpp/mixins/mixinfilter.h>
#include <eventpp/mixins/mixinheterfilter.h>
#include <eventpp/utilities/anydata.h>
#include <eventpp/utilities/anyid.h>
#include <eventpp/utilities/argumentadapter.h>
#include <eventpp/utilities/conditionalfunctor.h>
#include <eventpp/utilities/conditionalremover.h>
#include <eventpp/utilities/counterremover.h>
#include <eventpp/utilities/eventutil.h>
#include <eventpp/utilities/orderedqueuelist.h>
#include <eventpp/utilities/scopedremover.h>

#include <chrono>
#include <map>
#include <memory>
#include <string>

namespace wit {

// A key type with only operator< (selects std::map).
struct OnlyLess {
	int v;
	bool operator < (const OnlyLess & o) const { return v < o.v; }
};

// A class-type argument with a non-trivial move.
struct Payload {
	std::string text;
	std::unique_ptr<int> owned;
	Payload() = default;
	Payload(const Payload & o) : text(o.text), owned(o.owned ? new int(*o.owned) : nullptr) {}
	Payload(Payload &&) = default;
	Payload & operator = (const Payload & o) { text = o.text; owned.reset(o.owned ? new int(*o.owned) : nullptr); return *this; }
	Payload & operator = (Payload &&) = default;
};

struct PoliciesSingle { using Threading = eventpp::SingleThreading; };
struct PoliciesSpin { using Threading = eventpp::GeneralThreading<eventpp::SpinLock>; };
struct PoliciesMapOrdered {
	template <typename K, typename V> using Map = std::map<K, V>;
};
struct PoliciesInclude { using ArgumentPassingMode = eventpp::ArgumentPassingIncludeEvent; };
struct PoliciesExclude { using ArgumentPassingMode = eventpp::ArgumentPassingExcludeEvent; };

// getEvent policies: by const reference and by value
struct EventStruct { std::string type; int id; };
struct PoliciesGetEventRef {
	static std::string getEvent(const EventStruct & e, int) { return e.type; }
	static std::string getEvent(const EventStruct & e) { return e.type; }
};
struct PoliciesGetEventValue {
	static std::string getEvent(EventStruct e, int) { return e.type; }
	static std::string getEvent(EventStruct e) { return e.type; }
};
struct PoliciesGetEventValueInclude {
	using ArgumentPassingMode = eventpp::ArgumentPassingIncludeEvent;
	static std::string getEvent(EventStruct e, int) { return e.type; }
	static std::string getEvent(EventStruct e) { return e.type; }
};
// exclude-event form: the policy receives the selector first, then the listener arguments (one by value, movable)
struct PoliciesGetEventExcl {
	static int getEvent(int code, const std::string &) { return code / 100; }
};
struct PoliciesGetEventExclValue {
	static int getEvent(int code, std::string payload) { return code / 100 + (int)payload.size() * 0; }
};
struct PoliciesCanContinue {
	static bool canContinueInvoking(int, const std::string &) { return true; }
	static bool canContinueInvoking(const Payload &) { return true; }
};
struct PoliciesCanContinueValue {
	// by-value policy: a library that forwarded (moved) the arguments into it would starve the remaining callbacks
	static bool canContinueInvoking(Payload) { return true; }
};
struct PoliciesOrdered {
	template <typename Item> using QueueList = eventpp::OrderedQueueList<Item>;
};
struct PoliciesFilter { using Mixins = eventpp::MixinList<eventpp::MixinFilter>; };
struct PoliciesHeterFilter { using Mixins = eventpp::MixinList<eventpp::MixinHeterFilter>; };

template <typename Base> struct MixinNoop : public Base {};
struct PoliciesTwoMixins { using Mixins = eventpp::MixinList<MixinNoop, eventpp::MixinFilter>; };
// a mixin with a hook of its own (the documented signature), listed before / after the filter mixin: both hooks have their turn
template <typename Base> struct MixinGate : public Base {
	template <typename ...Args> bool mixinBeforeDispatch(Args && ...) const { return true; }
};
struct PoliciesGateFilter { using Mixins = eventpp::MixinList<MixinGate, eventpp::MixinFilter>; };
struct PoliciesFilterGate { using Mixins = eventpp::MixinList<eventpp::MixinFilter, MixinGate>; };
struct PoliciesFilterNoop { using Mixins = eventpp::MixinList<eventpp::MixinFilter, MixinNoop>; };
struct PoliciesHeterTwoMixins { using Mixins = eventpp::MixinList<MixinNoop, eventpp::MixinHeterFilter>; };

// a removal condition that can be called with the trigger's arguments AND with none:
// the library must call it with the arguments (the property says "with the trigger's arguments if it accepts them")
struct CondBothWays {
	bool operator() () const { return false; }
	bool operator() (int v, const std::string &) const { return v > 0; }
};

// custom callback storage
template <typename Proto> struct MyCallback;
template <typename R, typename ...A> struct MyCallback<R (A...)> {
	R (*fn)(A...);
	MyCallback() : fn(nullptr) {}
	MyCallback(R (*f)(A...)) : fn(f) {}
	R operator() (A ...a) const { return fn(a...); }
	bool operator == (const MyCallback & o) const { return fn == o.fn; }
};
struct PoliciesCustomCallback { using Callback = MyCallback<void (int, const std::string &)>; };

} // namespace wit

#endif
