"""Fact base: loads the JSON produced by eppfacts and offers resolved-program queries.

One `TU` per (unit, variant) fact file; one `Fn` per function instantiation.
Nothing here takes a verdict.
"""
import json
import os
from collections import defaultdict

TRANSPARENT_CLS = {
    'ParenExpr', 'MaterializeTemporaryExpr', 'ExprWithCleanups', 'CXXBindTemporaryExpr',
    'ConstantExpr', 'SubstNonTypeTemplateParmExpr', 'CXXFunctionalCastExpr_NoOp',
    'CXXRewrittenBinaryOperator',     # C++20: a != b rewritten as !(a == b); the single child is the semantic form
}
TRANSPARENT_CASTS = {'NoOp', 'LValueToRValue', 'DerivedToBase', 'UncheckedDerivedToBase',
                     'BaseToDerived', 'FunctionToPointerDecay', 'ArrayToPointerDecay'}
CAST_CLS = {'ImplicitCastExpr', 'CStyleCastExpr', 'CXXStaticCastExpr', 'CXXFunctionalCastExpr',
            'CXXConstCastExpr', 'CXXReinterpretCastExpr'}
MOVE_LIKE = {'std::move', 'std::forward', 'std::move_if_noexcept'}

LIBNS = ('eventpp::internal_::', 'eventpp::')


def short(key):
    """Pattern key without the library namespaces."""
    for p in LIBNS:
        if key.startswith(p):
            return key[len(p):]
    return key


class AnalysisBroken(Exception):
    """An anchor vanished / a rule matched fewer instances than confirmed / unsupported construct."""


class TU:
    def __init__(self, path, variant='', std=''):
        with open(path) as f:
            d = json.load(f)
        self.path = path
        self.unit = d['unit']
        self.variant = variant
        self.std = std or str(d.get('cplusplus', ''))
        self.types = d['types']
        self.decls = d['decls']
        self.classes = d['classes']
        self.patterns = d['patterns']
        self.fns = [Fn(self, f) for f in d['functions']]
        self.by_id = {f.id: f for f in self.fns}
        self.by_key = defaultdict(list)
        for f in self.fns:
            self.by_key[f.skey].append(f)
        # number lambdas per parent by source order
        kids = defaultdict(list)
        for f in self.fns:
            if f.kind == 'lambda' and f.parent_id is not None:
                kids[f.parent_id].append(f)
        for pid, ls in kids.items():
            ls.sort(key=lambda f: f.locpos())
            for i, f in enumerate(ls):
                f.lambda_index = i + 1
        self.lambdas_of = kids
        # overload ordinals: patterns that share a key are numbered by source order
        # (by the signature as written, `sig` of the pattern facts, so that moving an overload up or down in the class changes
        # no finding key; equal signatures - which cannot be overloads of one scope - fall back to source order)
        pl = defaultdict(set)
        sig = {}
        for p in self.patterns:
            pl[short(p['key'])].add(p['line'])
            sig[(short(p['key']), p['line'])] = p.get('sig', '')
        for f in self.fns:
            pl[f.skey].add(f.line)
        self.overloads = {k: sorted(v, key=lambda ln, k=k: (sig.get((k, ln), ''), ln)) for k, v in pl.items() if len(v) > 1}
        self.pattern_sig = sig
        self.class_by_q = {c['q']: c for c in self.classes}
        self.classes_by_key = defaultdict(list)
        for c in self.classes:
            self.classes_by_key[short(c['key'])].append(c)
        self._callers = None
        self.fid_alias = {}
        self.collapsed = []
        self.inlined = []
        self._collapse_forwarders()
        self._adopt_explicit_self_helpers()      # after the collapse: whole-body forwarders have taken their caller's identity already
        self._inline_lock_closures()

    # ---- `static void step(Self & self, ...)` in a nested struct / as a static member ---------------------------------------------
    def _adopt_explicit_self_helpers(self):
        """A static member function of a library class C or of a class nested in C (`struct Impl { static void link(C & self, ...); }`)
        that every call site in the library calls from a member function of C with `*this` for one reference parameter is a member
        function of C written with an explicit object: that parameter becomes `this`, the function takes C's scope and the calls become
        member calls. (Helpers that are the *whole body* of a member are handled by the forwarder collapse; this covers partial steps.)"""
        if os.environ.get('EPP_NO_ADOPT'):
            return
        from .paths import path as _path
        callers = self.callers()
        for g in list(self.fns):
            if g.kind != 'method' or not g.d.get('static') or g.body is None or not g.params or '/include/eventpp/' not in (g.file or ''):
                continue
            cs = callers.get(g.id, [])
            if not cs:
                continue
            hit = None
            for i, gp in enumerate(g.params):
                if gp.get('pass') != 'lref':
                    continue
                ok = True
                owner = None
                for (f, n) in cs:
                    o = f.outermost()
                    a = [x for x in f.nodes[n].get('args', []) if f.nodes[x]['cls'] != 'CXXDefaultArgExpr']
                    if f.nodes[n]['cls'] != 'CallExpr' or o.kind not in ('method', 'operator', 'ctor', 'dtor') or o.d.get('static') or i >= len(a):
                        ok = False
                        break
                    v = f.strip_all_casts(a[i])
                    vo = f.nodes[v]
                    if not (vo['cls'] == 'UnaryOperator' and vo.get('op') == '*' and f.nodes[f.strip(f.kids(v)[0])]['cls'] == 'CXXThisExpr'):
                        ok = False
                        break
                    if not (g.cls == o.cls or g.cls.startswith(o.cls + '::')) or owner not in (None, (o.cls, o.clsq)):
                        ok = False
                        break
                    owner = (o.cls, o.clsq)
                if ok and owner:
                    hit = (i, gp, owner)
                    break
            if hit is None:
                continue
            i, gp, (ocls, oclsq) = hit
            for nn, oo in g.nodes.items():
                if oo['cls'] == 'DeclRefExpr':
                    dd = g.decl(nn)
                    if dd and dd.get('kind') == 'parm' and dd.get('id') == gp['id']:
                        oo['cls'] = 'CXXThisExpr'
                        oo['was_self'] = True
            for h in self.fns:
                x = h
                while x is not None and x is not g:
                    x = self.by_id.get(x.parent_id) if x.parent_id is not None else None
                if x is g and h is not g:
                    for nn, oo in h.nodes.items():
                        if oo['cls'] == 'DeclRefExpr':
                            dd = h.decl(nn)
                            if dd and dd.get('kind') == 'parm' and dd.get('id') == gp['id']:
                                oo['cls'] = 'CXXThisExpr'
                                oo['was_self'] = True
            self.by_key[g.skey] = [x for x in self.by_key[g.skey] if x is not g]
            old_skey = g.skey
            g.helper_skey = old_skey
            g.cls, g.clsq = ocls, oclsq
            prefix = g.key[:len(g.key) - len(old_skey)] if g.key.endswith(old_skey) else ''
            g.skey = ocls + '::' + g.name
            g.key = prefix + g.skey
            g.access = 'private'
            g.d = dict(g.d, static=False)
            g.params = [pp for pp in g.params if pp['id'] != gp['id']]
            self.by_key[g.skey].append(g)
            # the calls: `Impl::step(*this, a, b)` -> `this->step(a, b)`; the callee record loses the parameter
            fixed_decl = set()
            for (f, n) in cs:
                o = f.nodes[n]
                a = list(o.get('args', []))
                v = f.strip_all_casts(a[i])
                o['obj'] = f.strip(f.kids(v)[0])
                o['args'] = a[:i] + a[i + 1:]
                o['cls'] = 'CXXMemberCallExpr'
                ci = o.get('c')
                if ci is not None and ci >= 0 and ci not in fixed_decl:
                    fixed_decl.add(ci)
                    d = self.decls[ci]
                    if isinstance(d.get('params'), list) and len(d['params']) > i:
                        d['params'] = d['params'][:i] + d['params'][i + 1:]
                    d['method'] = True
                    d['static'] = False
                    d['cls'] = (d.get('cls', '')[:len(d.get('cls', '')) - len(short(d.get('cls', '')))] if d.get('cls') else '') + ocls
                    if d.get('key', '').endswith(old_skey):
                        d['key'] = d['key'][:len(d['key']) - len(old_skey)] + g.skey
                for attr in ('_parent', '_pos', '_preds', '_dom', '_pdom', '_reach', '_decl_of_var'):
                    setattr(f, attr, None)
            self.collapsed.append((g.skey, old_skey, 'explicit-self helper adopted'))
            self._callers = None
            callers = self.callers()

    # ---- `withLock(mutex, [&]{ ... })` ----------------------------------------------------------------------------------------
    def _lock_runner_shape(self, h):
        """h is `template<M, F> void h(M & m, F && f) { std::lock_guard<M> g(m); f(); }` (any lock class, any parameter order):
        (DeclStmt node of the lock, index of the mutex parameter, index of the closure parameter) or None."""
        if h.kind not in ('free', 'method') or h.body is None or h.nodes[h.body]['cls'] != 'CompoundStmt' or len(h.params) != 2:
            return None
        st = [x for x in h.kids(h.body) if not (h.nodes[x]['cls'] == 'DeclStmt' and not h.nodes[x].get('decls')) and h.nodes[x]['cls'] != 'NullStmt']
        if len(st) != 2 or h.nodes[st[0]]['cls'] != 'DeclStmt' or len(h.nodes[st[0]].get('decls', [])) != 1:
            return None
        v = h.nodes[st[0]]['decls'][0]
        init = h.strip(v['init']) if v.get('init') else None
        if init is None or not h.is_construct(init):
            return None
        cal = h.callee(init) or {}
        if short(cal.get('cls', '')) not in ('std::lock_guard', 'std::unique_lock', 'std::scoped_lock') and cal.get('cls', '') not in ('std::lock_guard', 'std::unique_lock', 'std::scoped_lock'):
            return None
        a = [x for x in h.nodes[init].get('args', []) if h.nodes[x]['cls'] != 'CXXDefaultArgExpr']
        if len(a) != 1:
            return None
        ma = h.strip_all_casts(a[0])
        pids = [pp['id'] for pp in h.params]
        if h.nodes[ma]['cls'] != 'DeclRefExpr' or (h.decl(ma) or {}).get('id') not in pids:
            return None
        j = pids.index(h.decl(ma)['id'])
        c = st[1]
        if h.nodes[c]['cls'] == 'ReturnStmt':
            return None
        c = h.strip(c)
        o = h.nodes[c]
        if o['cls'] != 'CXXOperatorCallExpr' or o.get('op') != '()' or o.get('obj') is None or len(h.call_args(c)) != 0:
            return None
        fa = h.value_source(o['obj'])
        if h.nodes[fa]['cls'] != 'DeclRefExpr' or (h.decl(fa) or {}).get('id') not in pids or pids.index(h.decl(fa)['id']) == j:
            return None
        return st[0], j, pids.index(h.decl(fa)['id']), ma

    @staticmethod
    def _remap_node(o, mp):
        o = json.loads(json.dumps(o))
        for k in ('kids', 'args', 'placement'):
            if k in o:
                o[k] = [mp(x) for x in o[k]]
        for k in ('obj', 'calleeExpr', 'construct'):
            if k in o and o[k]:
                o[k] = mp(o[k])
        for c in o.get('captures', []):
            if c.get('init'):
                c['init'] = mp(c['init'])
        for v in o.get('decls', []):
            if v.get('init'):
                v['init'] = mp(v['init'])
        return o

    def _inline_lock_closures(self):
        """A closure written in place and handed to a run-under-lock helper is the critical section written as a block: the call is
        replaced, in the writer's CFG and node table, by the helper's lock object, the closure's body and the lock's destruction."""
        if os.environ.get('EPP_NO_INLINE'):
            return
        for P in list(self.fns):
            for _ in range(8):
                if not self._inline_one(P):
                    break

    def _inline_iife(self, P):
        """`[&]{ ... }();` as a statement of its own, or `return [&]() -> R { ... }();`: a lambda written and invoked in place, without
        parameters, capturing by reference (or `this`), is its body written as a block - the body's returns are returns of the writer in
        the second form."""
        pm = None
        for b, blk in list(P.blocks.items()):
            for i, e in enumerate(blk['elems']):
                n = e.get('n')
                if e['k'] != 'stmt' or not n or n not in P.nodes:
                    continue
                o = P.nodes[n]
                if o['cls'] != 'CXXOperatorCallExpr' or o.get('op') != '()' or o.get('obj') is None or len(P.call_args(n)) != 0:
                    continue
                lx = P.value_source(o['obj'])
                if P.nodes[lx]['cls'] != 'LambdaExpr':
                    continue
                L = self.by_id.get(P.nodes[lx].get('fid'))
                if L is None or L.params or L.parent_id != P.id or L.body is None:
                    continue
                if any(not (c.get('byref') or c.get('this')) for c in P.nodes[lx].get('captures', [])):
                    continue
                valret = any(x['cls'] == 'ReturnStmt' and x.get('kids') for x in L.nodes.values())
                pm = pm or P.parent_map()
                q = pm.get(n)
                chain = []
                while q is not None and P.nodes[q]['cls'] in ('ExprWithCleanups', 'ParenExpr', 'ImplicitCastExpr', 'MaterializeTemporaryExpr', 'CXXBindTemporaryExpr'):
                    chain.append(q)
                    q = pm.get(q)
                if q is None:
                    continue
                qc = P.nodes[q]['cls']
                if qc == 'CompoundStmt' and not valret:
                    outer_ret = None
                elif qc == 'ReturnStmt' and P.kind != 'lambda':
                    outer_ret = q
                    # the return statement must sit in the same block, after the call
                    if not any(x.get('n') == q for x in blk['elems'][i + 1:]):
                        continue
                else:
                    continue
                self._splice(P, b, i, n, None, None, None, None, L, keep_returns=outer_ret is not None, drop=set(chain + ([outer_ret] if outer_ret else [])))
                if outer_ret is not None:
                    ro = P.nodes[outer_ret]
                    P.nodes[outer_ret] = {'cls': 'NullStmt', 'kids': [], 'loc': ro.get('loc')}
                self.inlined.append((P.skey, 'lambda invoked in place', P.nloc(n)))
                return True
        return False

    def _inline_one(self, P):
        if self._inline_iife(P):
            return True
        pm = None
        for b, blk in list(P.blocks.items()):
            for i, e in enumerate(blk['elems']):
                n = e.get('n')
                if e['k'] != 'stmt' or not n or P.nodes[n]['cls'] != 'CallExpr':
                    continue
                hs = P.callee_fns(n)
                if len(hs) != 1 or hs[0] is P:
                    continue
                h = hs[0]
                shape = self._lock_runner_shape(h)
                if shape is None:
                    continue
                lockstmt, j, k, mparam = shape
                args = P.call_args(n)
                if len(args) != 2:
                    continue
                lx = P.value_source(args[k])
                if P.nodes[lx]['cls'] != 'LambdaExpr':
                    continue
                L = self.by_id.get(P.nodes[lx].get('fid'))
                if L is None or L.params or L.parent_id != P.id:
                    continue
                if any(not (c.get('byref') or c.get('this')) for c in P.nodes[lx].get('captures', [])):
                    continue
                if any(o['cls'] == 'ReturnStmt' and o.get('kids') for o in L.nodes.values()):
                    continue
                # the call is a statement of its own
                pm = pm or P.parent_map()
                q = pm.get(n)
                while q is not None and P.nodes[q]['cls'] in ('ExprWithCleanups', 'ParenExpr', 'ImplicitCastExpr'):
                    q = pm.get(q)
                if q is not None and P.nodes[q]['cls'] not in ('CompoundStmt',):
                    continue
                self._splice(P, b, i, n, h, lockstmt, mparam, args[j], L)
                self.inlined.append((P.skey, h.skey, P.nloc(n)))
                if os.environ.get('EPP_DEBUG_COLLAPSE'):
                    import sys
                    print('inline closure of %s run by %s at %s' % (P.skey, h.skey, P.nloc(n)), file=sys.stderr)
                return True
        return False

    def _splice(self, P, b, i, call, h, lockstmt, mparam, marg, L, keep_returns=False, drop=frozenset()):
        offL = max(P.nodes) + 1
        mapL = lambda x: (x + offL) if x else x
        for nid, o in L.nodes.items():
            no = self._remap_node(o, mapL)
            if no['cls'] == 'ReturnStmt' and not keep_returns:
                no['cls'] = 'NullStmt'
            P.nodes[nid + offL] = no
        offH = max(P.nodes) + 1
        sub = []
        dtor = None
        if h is not None:
            sub = [lockstmt] + h.descendants(lockstmt)
            mapH = lambda x: marg if x == mparam else ((x + offH) if x else x)
            for nid in sub:
                if nid == mparam:
                    continue
                P.nodes[nid + offH] = self._remap_node(h.nodes[nid], mapH)
            lockvar = h.nodes[lockstmt]['decls'][0]
            for hb in h.blocks.values():
                for he in hb['elems']:
                    if he['k'] == 'autodtor' and he.get('var') == lockvar['id']:
                        dtor = dict(he)
        offB = max(P.blocks) + 1
        mapB = lambda x: (x + offB) if x is not None else None
        tail = offB + max(L.blocks) + 1
        B = P.blocks[b]
        T = {k: v for k, v in B.items() if k != 'elems'}
        T['id'] = tail
        T['elems'] = [x for x in B['elems'][i + 1:] if x.get('n') not in drop]
        T['succ'] = list(B['succ'])
        P.blocks[tail] = T
        lock_elems = []
        if h is not None:
            subset = set(sub) - {mparam}
            for hb_id in sorted(h.blocks, reverse=True):
                for he in h.blocks[hb_id]['elems']:
                    if he['k'] == 'stmt' and he.get('n') in subset:
                        lock_elems.append({'k': 'stmt', 'n': he['n'] + offH})
            if not any(x['n'] == lockstmt + offH for x in lock_elems):
                lock_elems.append({'k': 'stmt', 'n': lockstmt + offH})
        B['elems'] = B['elems'][:i] + lock_elems
        for kk in ('cond', 'fullcond', 'term', 'termcls'):
            B.pop(kk, None)
        B['succ'] = [mapB(L.entry)]
        for lb, blk in L.blocks.items():
            nb = {'id': lb + offB, 'elems': [], 'succ': [mapB(x) for x in blk.get('succ', [])]}
            for e in blk['elems']:
                ne = dict(e)
                if ne.get('n'):
                    ne['n'] = ne['n'] + offL
                nb['elems'].append(ne)
            for kk in ('cond', 'fullcond', 'term'):
                if blk.get(kk):
                    nb[kk] = blk[kk] + offL
            if blk.get('termcls'):
                nb['termcls'] = blk['termcls']
            if lb == L.exit:
                if dtor:
                    nb['elems'].append(dtor)
                nb['succ'] = [tail]
            P.blocks[lb + offB] = nb
        if P.exit == b:
            P.exit = tail
        # the call itself is gone: its node stays as an inert parent of the argument expressions
        co = P.nodes[call]
        P.nodes[call] = {'cls': 'InlinedClosureCall', 'kids': list(co.get('kids', [])) or list(co.get('args', [])), 'loc': co.get('loc'), 't': co.get('t'), 'vk': co.get('vk')}
        # the closure's own lambdas now belong to the writer; the closure itself is no function of its own any more
        for g in self.fns:
            if g.parent_id == L.id:
                g.parent_id = P.id
        self.fns = [g for g in self.fns if g is not L]
        for kls in self.lambdas_of.values():
            if L in kls:
                kls.remove(L)
        moved = self.lambdas_of.pop(L.id, [])
        if moved:
            self.lambdas_of.setdefault(P.id, [])
            self.lambdas_of[P.id] = sorted(self.lambdas_of[P.id] + moved, key=lambda g: g.locpos())
            for k, g in enumerate(self.lambdas_of[P.id]):
                g.lambda_index = k + 1
        self.by_key[L.skey] = [g for g in self.by_key.get(L.skey, []) if g is not L]
        for attr in ('_parent', '_pos', '_preds', '_dom', '_pdom', '_reach', '_decl_of_var'):
            setattr(P, attr, None)
        self._callers = None

    def _collapse_forwarders(self):
        """A member function whose whole body is `return g(*this, own parameters...)` (or `this->g(own parameters...)`) where g is a
        private/protected helper of the same class called from nowhere else is the same function written in two pieces: g takes
        f's identity (name, key, position, parameters without the explicit object) so that every rule judges the body under the
        name the property is anchored in, and the explicit-object parameter reads as `this` (paths.path)."""
        if os.environ.get('EPP_NO_COLLAPSE'):
            return
        for _round in range(3):
            callers = defaultdict(list)
            for f in self.fns:
                for n, o in f.nodes.items():
                    ci = o.get('c')
                    if ci is not None and ci >= 0 and o['cls'] != 'CXXNewExpr':
                        fid = self.decls[ci].get('fid', -1)
                        if fid >= 0:
                            callers[fid].append((f, n))
            done = False
            for f in list(self.fns):
                if f.kind not in ('method', 'operator', 'ctor', 'dtor', 'free') or f.body is None or f.body_helper is not None:
                    continue
                body_only = f.kind in ('ctor', 'dtor')      # the helper is the *body*; initialisers and member destruction stay with f
                st = f.kids(f.body) if f.nodes[f.body]['cls'] == 'CompoundStmt' else []
                # local type aliases / static_asserts declare no objects
                st = [x for x in st if not (f.nodes[x]['cls'] == 'DeclStmt' and not f.nodes[x].get('decls')) and f.nodes[x]['cls'] != 'NullStmt']
                if len(st) != 1:
                    continue
                n = st[0]
                if f.nodes[n]['cls'] == 'ReturnStmt':
                    ks = f.kids(n)
                    if not ks:
                        continue
                    n = ks[0]
                n = f.strip(n)
                if not f.is_call(n) or f.nodes[n]['cls'] not in ('CallExpr', 'CXXMemberCallExpr'):
                    continue
                gs = f.callee_fns(n)
                if len(gs) != 1:
                    continue
                g = gs[0]
                to_free = f.kind in ('method', 'operator') and g.kind == 'free' and '/include/eventpp/' in (g.file or '')
                if g is f:
                    continue
                if not to_free and (g.cls != f.cls or g.clsq != f.clsq or g.kind != ('free' if f.kind == 'free' else 'method')):
                    continue
                if f.kind == 'free' and (g.skey.rsplit('::', 1)[0] != f.skey.rsplit('::', 1)[0] or '::' not in f.skey):
                    continue
                if len(callers.get(g.id, [])) != 1:
                    if not to_free or self.lambdas_of.get(g.id):
                        continue
                    # a library free function shared by several classes (same map / mutex / event types): this forwarder gets its own copy
                    import copy
                    d2 = copy.deepcopy(g.d)
                    d2['id'] = max(self.by_id) + 1
                    g = Fn(self, d2)
                    self.by_id[g.id] = g
                    self.fns.append(g)
                    self.by_key[g.skey].append(g)
                obj = f.call_obj(n)
                if obj is not None and f.nodes[f.strip(obj)]['cls'] != 'CXXThisExpr':
                    continue
                args = [a for a in f.call_args(n) if f.nodes[a]['cls'] != 'CXXDefaultArgExpr']
                if len(args) != len(g.params):
                    continue
                fpar = [p['id'] for p in f.params]
                seen = []
                selfs = set()
                subst = {}
                tags = set()
                ok = True
                from .paths import path as _path
                for a, gp in zip(args, g.params):
                    v = f.value_source(a)
                    o = f.nodes[v]
                    # tag dispatch: a temporary of an empty tag type (std::true_type, an empty struct) selects the overload and carries no value
                    gt0 = self.type(gp['t'])
                    if f.is_construct(v) and not [x for x in o.get('args', []) if f.nodes[x]['cls'] != 'CXXDefaultArgExpr'] and gt0 and not gt0.get('ref') \
                            and gt0.get('size') == 1 and (gt0.get('rec') or '').split('<')[0] in ('std::integral_constant', 'std::true_type', 'std::false_type') and not any(
                                h.nodes[m]['cls'] == 'DeclRefExpr' and (h.decl(m) or {}).get('id') == gp['id'] for h in [g] for m in h.nodes):
                        tags.add(gp['id'])
                        continue
                    if o['cls'] == 'UnaryOperator' and o.get('op') == '*' and f.nodes[f.strip(f.kids(v)[0])]['cls'] == 'CXXThisExpr':
                        selfs.add(gp['id'])
                        continue
                    if o['cls'] == 'DeclRefExpr':
                        d = f.decl(v)
                        if d and d['kind'] == 'parm' and d['id'] in fpar and d['id'] not in seen:
                            seen.append(d['id'])
                            if body_only:
                                subst[gp['id']] = (f, a)
                            continue
                    # a member of the object reached by field / dereference steps only, bound to a reference parameter: `*data`, `filterList`
                    gt = self.type(gp['t'])
                    pp = _path(f, a)
                    if gt and gt.get('ref') and pp and pp[0] == 'this' and len(pp) > 1 and all(x == '*' or (x.startswith('.') and not x.endswith('()')) for x in pp[1:]):
                        subst[gp['id']] = (f, a)
                        continue
                    ok = False
                    break
                if not ok or (seen != fpar and not body_only):
                    continue
                if body_only:
                    if not selfs:
                        continue
                    g.self_params = selfs
                    g.param_subst = subst
                    g.forward_of = f
                    f.body_helper = g
                    for nn, oo in g.nodes.items():
                        if oo['cls'] == 'DeclRefExpr':
                            dd = g.decl(nn)
                            if dd and dd.get('kind') == 'parm' and dd.get('id') in selfs:
                                oo['cls'] = 'CXXThisExpr'
                                oo['was_self'] = True
                    self.collapsed.append((f.skey, g.skey, f.where()))
                    done = True
                    continue
                if not selfs and not subst and not tags:
                    # `this->g(args)`: both names are real member functions and rules follow such helpers themselves - except when g is a
                    # non-public *generic pass-through* (`template <typename ...A> void g(A & ...a)`: every parameter a deduced lvalue
                    # reference) with this one call site that receives exactly f's parameters: then g *is* f's body. (Named steps such as
                    # dispatch -> doDispatch keep their own identity: rules are anchored in them.)
                    cs_g = [(x, m) for (x, m) in self.callers().get(g.id, []) if not (x is f and m == n)]
                    if not (g.access in ('private', 'protected') and f.kind in ('method', 'operator') and not cs_g and seen == fpar and len(g.params) == len(f.params)
                            and g.d.get('targs') and all(pp.get('pass') == 'lref' for pp in g.params)      # a generic pass-through `g(A & ...a)`
                            and '&&' not in self.pattern_sig.get((g.skey, g.line), '&&')                     # ... declared so (no forwarding references)
                            and os.environ.get('EPP_NO_SOLE_FORWARD') is None and g.name != f.name):
                        continue
                # g becomes f
                self.collapsed.append((f.skey, g.skey, f.where()))
                if os.environ.get('EPP_DEBUG_COLLAPSE'):
                    import sys
                    print('collapse %s <- %s (%s) in %s' % (f.skey, g.skey, f.where(), self.label()), file=sys.stderr)
                self.by_key[g.skey] = [x for x in self.by_key[g.skey] if x is not g]
                self.by_key[f.skey] = [g if x is f else x for x in self.by_key[f.skey]]
                g.helper_skey = g.skey
                # an overload pair moved behind one forwarder (tag dispatch): keep the ordinal of the selected overload in the pattern name, so
                # that findings keep the key they had when the pair carried the public name itself
                gp_old, fp_old = g.pattern(), f.pattern()
                if tags and '#' in gp_old and '#' not in fp_old:
                    g.pattern_override = fp_old + '#' + gp_old.rsplit('#', 1)[1]
                for attr in ('key', 'skey', 'q', 'name', 'kind', 'line', 'loc', 'access', 'cls', 'clsq'):
                    setattr(g, attr, getattr(f, attr))
                g.self_params = selfs
                g.param_subst = subst
                g.params = [p for p in g.params if p['id'] not in subst and p['id'] not in tags]
                for h in self.fns:
                    x = h
                    while x is not None and x is not g:
                        x = self.by_id.get(x.parent_id) if x.parent_id is not None else None
                    if x is not g:
                        continue
                    h.self_params = selfs
                    h.param_subst = subst
                    for nn, oo in h.nodes.items():
                        if oo['cls'] == 'DeclRefExpr':
                            dd = h.decl(nn)
                            if dd and dd.get('kind') == 'parm' and dd.get('id') in selfs:
                                oo['cls'] = 'CXXThisExpr'      # the explicit object reads as the implicit one
                                oo['was_self'] = True
                g.params = [p for p in g.params if p['id'] not in selfs]
                self.fid_alias[f.id] = g.id
                self.by_id[f.id] = g
                self.fns = [x for x in self.fns if x is not f]
                done = True
            if not done:
                break

    def label(self):
        return '%s[%s]' % (os.path.basename(self.unit), self.variant)

    def fns_named(self, skey):
        return self.by_key.get(skey, [])

    def lock_guard_classes(self):
        """Classes that behave like std::lock_guard, whatever they are called (a hand-written RAII struct of the library): every user-written
        constructor takes the mutex by reference, binds a reference member to it and calls lock() on that member exactly once on every
        path; the destructor calls unlock() on the same member exactly once; nothing else touches it. {short class key: member name}."""
        if getattr(self, '_lgc', None) is not None:
            return self._lgc
        from .effects import writes
        from .paths import path
        res = {}
        self._lgc = {}
        by_cls = defaultdict(list)
        for f in self.fns:
            if f.kind in ('ctor', 'dtor', 'method', 'operator') and not f.d.get('implicit') and not f.d.get('defaulted') and not f.cls.startswith('std::'):
                by_cls[f.cls].append(f)
        for cls, fs in by_cls.items():
            ctors = [f for f in fs if f.kind == 'ctor']
            dtors = [f for f in fs if f.kind == 'dtor']
            if not ctors or not dtors or len(fs) != len(ctors) + len(dtors):
                continue
            member = None
            ok = True
            for f in ctors:
                ws = [w for w in writes(f) if w['how'] in ('++', '--', 'assign', '+=', '-=') or w['how'].startswith('call:')]
                if len(f.params) != 1 or f.params[0].get('pass') != 'lref' or len(ws) != 1 or ws[0]['how'] != 'call:lock' or len(ws[0]['path']) != 2 \
                        or ws[0]['path'][0] != 'this' or not f.pos_postdominates(ws[0]['pos'], (f.entry, 0)):
                    ok = False
                    break
                m = ws[0]['path'][1][1:]
                inits = [i for i in f.d.get('inits', []) if i.get('member') == m]
                t = self.type(inits[0].get('t')) if inits else None
                n = inits[0].get('n') if inits else None
                if not (t and t['ref'] == 1 and n and path(f, n) and path(f, n)[0].startswith('v:') and len(path(f, n)) == 1) or member not in (None, m):
                    ok = False
                    break
                member = m
            if not ok or member is None:
                continue
            for f in dtors:
                ws = [w for w in writes(f) if w['how'] in ('++', '--', 'assign', '+=', '-=') or w['how'].startswith('call:')]
                if len(ws) != 1 or ws[0]['how'] != 'call:unlock' or ws[0]['path'] != ('this', '.' + member) or not f.pos_postdominates(ws[0]['pos'], (f.entry, 0)):
                    ok = False
            if ok:
                res[cls] = member
        self._lgc = res
        return res

    def counter_guard_classes(self):
        """Classes that behave like eventpp::internal_::CounterGuard, whatever they are called and wherever they are declared (a local
        struct of the function that uses it included): every user-written constructor takes one parameter - the counter by reference, or
        a reference / pointer to the object that holds it -, keeps it in a reference / pointer member and increments the counter reached
        through it exactly once on every path; the destructor decrements the same counter through that member exactly once; no other
        member function writes it. {short class key: (member name, path from the constructor argument to the counter)}."""
        if getattr(self, '_cgc', None) is not None:
            return self._cgc
        from .effects import writes
        from .paths import path
        res = {}
        self._cgc = {}      # re-entrant calls (writes() below asks for the table) see the empty table
        by_cls = defaultdict(list)
        for f in self.fns:
            if f.kind in ('ctor', 'dtor', 'method') and not f.d.get('implicit') and not f.d.get('defaulted'):
                by_cls[f.cls].append(f)
        for cls, fs in by_cls.items():
            ctors = [f for f in fs if f.kind == 'ctor']
            dtors = [f for f in fs if f.kind == 'dtor']
            if not ctors or not dtors or cls.startswith('std::'):
                continue
            member = None
            suffix = None
            ok = True
            for f in ctors:
                ws = [w for w in writes(f) if w['how'] in ('++', '--', 'assign', '+=', '-=') or w['how'].startswith('call:')]
                if len(f.params) != 1 or len(ws) != 1 or ws[0]['how'] != '++' or not f.pos_postdominates(ws[0]['pos'], (f.entry, 0)):
                    ok = False
                    break
                wp = ws[0]['path']
                pv = 'v:%s#%d' % (f.params[0]['name'], f.params[0]['id'])
                from_param = [i_ for i_ in f.d.get('inits', []) if i_.get('member') and i_.get('n') and path(f, i_['n']) == (pv,)]
                if wp[0] == 'this' and len(wp) >= 2 and wp[1].startswith('.'):
                    m, suf = wp[1][1:], tuple(wp[2:])
                elif wp[0] == pv and len(from_param) == 1:
                    m, suf = from_param[0]['member'], tuple(wp[1:])
                else:
                    ok = False
                    break
                ini = [i_ for i_ in from_param if i_.get('member') == m]
                t = self.type(ini[0].get('t')) if ini else None
                if not (t and (t.get('ref') == 1 or t.get('ptr'))) or member not in (None, m) or suffix not in (None, suf):
                    ok = False
                    break
                member, suffix = m, suf
            if not ok or member is None:
                continue
            for f in dtors:
                ws = [w for w in writes(f) if w['how'] in ('++', '--', 'assign', '+=', '-=') or w['how'].startswith('call:')]
                if len(ws) != 1 or ws[0]['how'] != '--' or tuple(ws[0]['path']) != ('this', '.' + member) + suffix or not f.pos_postdominates(ws[0]['pos'], (f.entry, 0)):
                    ok = False
            for f in fs:
                if f.kind == 'method' and any(w['path'][:2] == ('this', '.' + member) for w in writes(f)):
                    ok = False
            if ok:
                res[cls] = (member, suffix)
        self._cgc = res
        return res

    def guard_counter_path(self, cls, argpath):
        """Path of the counter a guard object of class `cls` constructed from an argument with path `argpath` keeps raised."""
        suf = self.counter_guard_classes().get(cls, (None, ()))[1]
        if tuple(argpath) == ('this',) and suf[:1] == ('*',):
            suf = suf[1:]
        return tuple(argpath) + tuple(suf)

    def type(self, idx):
        return self.types[idx] if idx is not None and idx >= 0 else None

    def tstr(self, idx):
        t = self.type(idx)
        return t['s'] if t else '?'

    def callers(self):
        """fid -> list of (Fn, call node id)."""
        if self._callers is None:
            c = defaultdict(list)
            for f in self.fns:
                for n, o in f.nodes.items():
                    ci = o.get('c')
                    if ci is not None and ci >= 0 and o['cls'] != 'CXXNewExpr':
                        fid = self.decls[ci].get('fid', -1)
                        if fid >= 0:
                            c[self.fid_alias.get(fid, fid)].append((f, n))
            self._callers = c
        return self._callers


class Fn:
    def __init__(self, tu, d):
        self.tu = tu
        self.d = d
        self.id = d['id']
        self.key = d['key']
        self.skey = short(d['key'])
        self.q = d['q']
        self.name = d['name']
        self.kind = d['kind']
        self.line = d['line']
        self.file = d['file']
        self.loc = d['loc']
        self.cls = short(d.get('cls', ''))
        self.clsq = d.get('clsq', '')
        self.access = d.get('access', 'none')
        self.parent_id = d.get('parent')
        self.lambda_index = 0
        self.nodes = {int(k): v for k, v in d['nodes'].items()}
        self.blocks = {b['id']: b for b in d['blocks']}
        self.entry = d.get('entry')
        self.exit = d.get('exit')
        self.params = d['params']
        self.body = d.get('body')
        self._parent = None
        self._pos = None
        self._preds = None
        self._dom = None
        self._pdom = None
        self._reach = None
        self._decl_of_var = None
        self._thread_short_circuit()
        self.self_params = set()
        self.param_subst = {}
        self.helper_skey = None
        self.pattern_override = None
        self.body_helper = None      # constructor / destructor whose body is one call of a private helper: that helper (facts.TU._collapse_forwarders)
        self.forward_of = None

    def _thread_short_circuit(self):
        """clang builds `while(A && B)` / `for(;A || B;)` with a merge block M that branches on the value of the whole `A op B`: the
        block evaluating A reaches M directly when A decides the result, the block(s) finishing B flow into M. Branching on the
        merged value loses which operand decided. The edges are threaded instead (as clang does itself for `if`): the deciding edge
        of A goes straight to the corresponding successor of M, and the block finishing B branches on B with M's successors."""
        if os.environ.get('EPP_NO_THREAD'):
            return
        for _ in range(4):
            changed = False
            for m, mb in self.blocks.items():
                c = mb.get('cond')
                if c is None or len(mb.get('succ', [])) != 2:
                    continue
                co = self.nodes.get(c)
                if not co or co['cls'] != 'BinaryOperator' or co.get('op') not in ('&&', '||') or len(co.get('kids', [])) != 2:
                    continue
                if [e.get('n') for e in mb['elems'] if e['k'] == 'stmt'] not in ([c], []):
                    continue
                if any(e['k'] != 'stmt' for e in mb['elems']):
                    continue
                decided = mb['succ'][1] if co['op'] == '&&' else mb['succ'][0]
                preds = [(p, pb) for p, pb in self.blocks.items() if m in pb.get('succ', [])]
                ok = True
                plan = []
                for p, pb in preds:
                    if pb.get('term') == c and len(pb['succ']) == 2:
                        plan.append(('lhs', p))
                    elif pb.get('succ') == [m] and pb.get('cond') is None:
                        plan.append(('rhs', p))
                    else:
                        ok = False
                if not ok or not plan:
                    continue
                for kind, p in plan:
                    pb = self.blocks[p]
                    if kind == 'lhs':
                        idx = 1 if co['op'] == '&&' else 0
                        if pb['succ'][idx] == m:
                            pb['succ'][idx] = decided
                        else:
                            ok = False
                    else:
                        pb['succ'] = list(mb['succ'])
                        pb['cond'] = co['kids'][1]
                        pb['fullcond'] = mb.get('fullcond')
                        pb['term'] = mb.get('term')
                        pb['termcls'] = mb.get('termcls')
                mb['succ'] = []
                mb['cond'] = None
                mb['threaded'] = True
                changed = True
            if not changed:
                break

    # ---- identity -------------------------------------------------------------------
    def locpos(self):
        parts = self.loc.rsplit(':', 2)
        try:
            return (int(parts[1]), int(parts[2]))
        except Exception:
            return (self.line, 0)

    def base(self):
        return os.path.basename(self.file)

    def where(self):
        return '%s:%d' % (self.base(), self.line)

    def pattern(self):
        """Stable name of the template pattern this is an instantiation of (no line numbers,
        no template arguments). Lambdas: parent pattern + '::lambda#k'."""
        if self.kind == 'lambda' and self.parent_id is not None:
            p = self.tu.by_id.get(self.parent_id)
            if p is not None:
                return '%s::lambda#%d' % (p.pattern(), self.lambda_index)
        if self.pattern_override:
            return self.pattern_override
        ov = self.tu.overloads.get(self.skey)
        if ov and self.line in ov and self.kind not in ('ctor',):
            return '%s#%d' % (self.skey, ov.index(self.line) + 1)
        if ov and self.kind == 'ctor':
            return '%s#%s' % (self.skey, self.d.get('ctor', 'other') if self.d.get('ctor') != 'other' else str(ov.index(self.line) + 1))
        return self.skey

    def parent_fn(self):
        if self.parent_id is None:
            return None
        return self.tu.by_id.get(self.parent_id)

    def outermost(self):
        f = self
        while f.parent_fn() is not None:
            f = f.parent_fn()
        return f

    # ---- nodes ----------------------------------------------------------------------
    def node(self, n):
        return self.nodes[n]

    def ncls(self, n):
        return self.nodes[n]['cls']

    def kids(self, n):
        return [k for k in self.nodes[n]['kids'] if k]

    def nloc(self, n):
        loc = self.nodes[n].get('loc', '')
        if not loc:
            return self.where()
        parts = loc.rsplit(':', 2)
        return '%s:%s' % (os.path.basename(parts[0]), parts[1])

    def ntype(self, n):
        t = self.nodes[n].get('t')
        return self.tu.type(t) if t is not None else None

    def decl(self, n):
        d = self.nodes[n].get('d')
        return self.tu.decls[d] if d is not None else None

    def callee(self, n):
        c = self.nodes[n].get('c')
        if c is None or c < 0:
            return None
        return self.tu.decls[c]

    def parent_map(self):
        if self._parent is None:
            p = {}
            for n, o in self.nodes.items():
                for k in o['kids']:
                    if k:
                        p.setdefault(k, n)
                for k in o.get('args', []):
                    if k:
                        p.setdefault(k, n)
            self._parent = p
        return self._parent

    def ancestors(self, n):
        p = self.parent_map()
        while n in p:
            n = p[n]
            yield n

    def descendants(self, n, include_self=True):
        out = []
        stack = [n]
        seen = set()
        while stack:
            x = stack.pop()
            if x in seen or not x:
                continue
            seen.add(x)
            if x != n or include_self:
                out.append(x)
            o = self.nodes[x]
            stack.extend(k for k in o['kids'] if k)
            if o['cls'] == 'CXXNewExpr' and o.get('construct'):
                stack.append(o['construct'])
        return out

    def strip(self, n):
        """Strip value-preserving wrappers (parens, temporaries, no-op casts)."""
        while n:
            o = self.nodes[n]
            c = o['cls']
            if c in TRANSPARENT_CLS:
                ks = self.kids(n)
                if not ks:
                    return n
                n = ks[0]
            elif c in CAST_CLS and o.get('ck') in TRANSPARENT_CASTS:
                n = self.kids(n)[0]
            else:
                return n
        return n

    def strip_all_casts(self, n):
        while n:
            o = self.nodes[n]
            c = o['cls']
            if c in TRANSPARENT_CLS or c in CAST_CLS:
                ks = self.kids(n)
                if not ks:
                    return n
                n = ks[0]
            else:
                return n
        return n

    def value_source(self, n):
        """Strip casts and copy/move constructions: the expression whose value initialises/assigns."""
        n = self.strip_all_casts(n)
        while n:
            if self.is_construct(n):
                args = [a for a in self.nodes[n].get('args', []) if self.nodes[a]['cls'] != 'CXXDefaultArgExpr']
                cal = self.callee(n)
                if len(args) == 1 and cal and cal.get('ctor') in ('copy', 'move'):
                    n = self.strip_all_casts(args[0])
                    continue
            elif self.nodes[n]['cls'] == 'CallExpr' and short((self.callee(n) or {}).get('key', '')) in MOVE_LIKE and len(self.nodes[n].get('args', [])) == 1:
                n = self.strip_all_casts(self.nodes[n]['args'][0])     # std::move / std::forward: same object
                continue
            break
        return n

    def value_alternatives(self, n):
        """The expressions whose value n can have: n itself, or the arms of a conditional operator `c ? a : b` (nested ones too),
        each with casts stripped. An arm has its own CFG position inside its branch, so edge-dominance rules written for
        `if(c) return a; else return b;` apply to `return c ? a : b;` unchanged."""
        x = self.value_source(n)
        if self.nodes[x]['cls'] == 'ConditionalOperator':
            ks = self.kids(x)
            if len(ks) == 3:
                return self.value_alternatives(ks[1]) + self.value_alternatives(ks[2])
        return [x]

    def result_sites(self):
        """[(site node, value node)]: where the function's result values are produced. `return e;` is a site of e (each arm of a
        conditional operator separately); with a result variable (`T r = a; if(c) r = b; return r;`) the initialisation and every
        assignment of that local are the sites - each has its own CFG position, so dominance rules written for early returns apply."""
        out = []
        for r in self.return_nodes():
            ks = self.kids(r)
            if not ks:
                continue
            for v in self.value_alternatives(ks[0]):
                o = self.nodes[v]
                vd = None
                if o['cls'] == 'DeclRefExpr' and (self.decl(v) or {}).get('kind') == 'var':
                    vd = self.var_decls().get(self.decl(v)['id'])
                    vt = self.tu.type(vd['t']) if vd else None
                    if vt and (vt.get('ref') or vt.get('const')):
                        vd = None
                if vd is None:
                    out.append((r if len(self.value_alternatives(ks[0])) == 1 else v, v))
                    continue
                vid = self.decl(v)['id']
                if vd.get('init'):
                    for a in self.value_alternatives(vd['init']):
                        out.append((vd['stmt'], a))
                for m, mo in self.nodes.items():
                    if mo['cls'] in ('BinaryOperator', 'CXXOperatorCallExpr') and mo.get('op') == '=':
                        mk = self.kids(m) if mo['cls'] == 'BinaryOperator' else mo.get('args', [])
                        if len(mk) == 2:
                            lhs = self.strip_all_casts(mk[0])
                            if self.nodes[lhs]['cls'] == 'DeclRefExpr' and (self.decl(lhs) or {}).get('id') == vid:
                                for a in self.value_alternatives(mk[1]):
                                    out.append((m, a))
        seen = set()
        res = []
        for x in out:
            if x not in seen:
                seen.add(x)
                res.append(x)
        return res

    def cond_core(self, n):
        """(node, negated): the expression a branch condition really tests - casts stripped, leading `!` peeled, and a local
        `const T x = <expr>` (non-reference) replaced by its initialiser (it cannot change between the declaration and the test)."""
        neg = False
        n = self.strip_all_casts(n)
        for _ in range(8):
            o = self.nodes[n]
            if o['cls'] == 'UnaryOperator' and o.get('op') == '!':
                neg = not neg
                n = self.strip_all_casts(self.kids(n)[0])
                continue
            if o['cls'] == 'DeclRefExpr' and self.decl(n).get('kind') == 'var':
                vd = self.var_decls().get(self.decl(n)['id'])
                vt = self.tu.type(vd['t']) if vd else None
                if vd and vd.get('init') and vt and vt.get('const') and not vt.get('ref'):
                    n = self.strip_all_casts(vd['init'])
                    continue
            break
        return n, neg

    def is_call(self, n):
        return self.nodes[n]['cls'] in ('CallExpr', 'CXXMemberCallExpr', 'CXXOperatorCallExpr')

    def is_construct(self, n):
        return self.nodes[n]['cls'] in ('CXXConstructExpr', 'CXXTemporaryObjectExpr')

    def calls(self):
        return [n for n in self.nodes if self.is_call(n)]

    def constructs(self):
        return [n for n in self.nodes if self.is_construct(n)]

    def callee_key(self, n):
        c = self.callee(n)
        return short(c['key']) if c else None

    def call_args(self, n):
        """Explicit argument nodes (for member operator calls the object is excluded)."""
        o = self.nodes[n]
        a = list(o.get('args', []))
        if o['cls'] == 'CXXOperatorCallExpr' and 'obj' in o and a:
            a = a[1:]
        return a

    def call_obj(self, n):
        return self.nodes[n].get('obj')

    def callee_fns(self, n):
        """Library function instantiations this call/construct resolves to (same TU)."""
        c = self.callee(n)
        if not c:
            return []
        fid = c.get('fid', -1)
        if fid >= 0 and fid in self.tu.by_id:
            return [self.tu.by_id[fid]]
        return []

    def deep_calls(self, pred, depth=2, _seen=None, _top=None):
        """Calls satisfying pred(fn, node), in this function and in the library helpers it calls (members of the same class or free
        functions of the library, `depth` levels down): [(node in self through which it is reached, function holding it, node there)].
        Lets "exactly one call of X" rules survive the extraction of a small private helper."""
        _seen = _seen if _seen is not None else set()
        out = []
        if self.id in _seen:
            return out
        _seen.add(self.id)
        for n in self.calls() + self.constructs():
            top = _top if _top is not None else n
            if pred(self, n):
                out.append((top, self, n))
            elif depth > 0:
                for g in self.callee_fns(n):
                    if g.kind != 'lambda' and g.id != self.id and (g.d.get('lib', True)):
                        out += g.deep_calls(pred, depth - 1, _seen, top)
                # a lambda written in place as an argument (std::for_each(b, e, [..]{..}), an execute-around helper) runs inside that call
                for a in self.nodes[n].get('args', []):
                    if self.nodes[self.value_source(a)]['cls'] == 'LambdaExpr':
                        g = self.functor_body(a)
                        if g is not None:
                            out += g.deep_calls(pred, depth - 1, _seen, top)
        return out

    def functor_body(self, n):
        """The function that runs when the callable expression n is called: a lambda's call operator, or the operator() of a class
        defined in the library / witness whose object n constructs or denotes (named functor instead of a lambda)."""
        x = self.value_source(n)
        o = self.nodes[x]
        if o['cls'] == 'LambdaExpr':
            return self.tu.by_id.get(o.get('fid'))
        # a closure first given a name: `auto pred = [..]{..}; wait(lock, pred);` (a closure object cannot be assigned to afterwards)
        if o['cls'] == 'DeclRefExpr' and (self.decl(x) or {}).get('kind') == 'var':
            vd = self.var_decl_any(self.decl(x)['id'])
            if vd and vd[1].get('init'):
                i = vd[0].value_source(vd[1]['init'])
                if vd[0].nodes[i]['cls'] == 'LambdaExpr':
                    return self.tu.by_id.get(vd[0].nodes[i].get('fid'))
        # a copy / move of a temporary functor: look at the functor's own type
        for _ in range(3):
            if self.is_construct(x) and (self.callee(x) or {}).get('ctor') in ('copy', 'move') and self.nodes[x].get('args'):
                x = self.strip_all_casts(self.nodes[x]['args'][0])
            else:
                break
        t = self.ntype(x) if hasattr(self, 'ntype') else None
        recq = (t or {}).get('recq') or (self.tu.type((t or {}).get('base')) or {}).get('recq') if t else None
        if recq:
            cands = [g for g in self.tu.fns if g.clsq == recq and g.name == 'operator()']
            if cands and len({g.skey for g in cands}) == 1:
                # several candidates print the same class name when the class involves a lambda type (lambdas of different enclosing
                # instantiations share their printed name): they are instantiations of one template body
                return cands[0]
        return None

    # ---- variables --------------------------------------------------------------------
    def var_decls(self):
        """var id -> dict(name,t,init,node) for locals declared in this function."""
        if self._decl_of_var is None:
            m = {}
            for n, o in self.nodes.items():
                if o['cls'] == 'DeclStmt':
                    for v in o.get('decls', []):
                        vv = dict(v)
                        vv['stmt'] = n
                        m[v['id']] = vv
            self._decl_of_var = m
        return self._decl_of_var

    def var_decl_any(self, vid):
        """(function, declaration record) of local variable vid, looked up in this function and, for a lambda, in the enclosing ones
        (captured variables)."""
        f = self
        for _ in range(6):
            if f is None:
                return None
            vd = f.var_decls().get(vid)
            if vd is not None:
                return (f, vd)
            f = f.parent_fn()
        return None

    def param_ids(self):
        return {p['id']: p for p in self.params}

    # ---- CFG -------------------------------------------------------------------------
    def succs(self, b):
        return [s for s in self.blocks[b]['succ'] if s is not None]

    def preds(self):
        if self._preds is None:
            p = defaultdict(list)
            for b in self.blocks:
                for s in self.succs(b):
                    p[s].append(b)
            self._preds = p
        return self._preds

    def positions(self):
        """node id -> (block, index) of the CFG element that evaluates it."""
        if self._pos is None:
            pos = {}
            for bid, b in self.blocks.items():
                for i, e in enumerate(b['elems']):
                    n = e.get('n')
                    if n and e['k'] in ('stmt', 'init') and n not in pos:
                        pos[n] = (bid, i)
            self._pos = pos
        return self._pos

    def pos(self, n):
        """Position of node n; if n itself is not a CFG element, the position of its nearest
        ancestor or else its first descendant that is."""
        P = self.positions()
        if n in P:
            return P[n]
        for a in self.ancestors(n):
            if a in P:
                return P[a]
        for dsc in self.descendants(n):
            if dsc in P:
                return P[dsc]
        return None

    def reachable_blocks(self):
        if self._reach is None:
            seen = set()
            st = [self.entry]
            while st:
                b = st.pop()
                if b in seen or b is None:
                    continue
                seen.add(b)
                st.extend(self.succs(b))
            self._reach = seen
        return self._reach

    def _dominators(self, start, succf, predf):
        blocks = [b for b in self.blocks]
        full = set(blocks)
        dom = {b: set(full) for b in blocks}
        dom[start] = {start}
        changed = True
        while changed:
            changed = False
            for b in blocks:
                if b == start:
                    continue
                ps = [p for p in predf(b)]
                if ps:
                    new = set(full)
                    for p in ps:
                        new &= dom[p]
                else:
                    new = set()
                new = new | {b}
                if new != dom[b]:
                    dom[b] = new
                    changed = True
        return dom

    def dom(self):
        if self._dom is None:
            P = self.preds()
            R = self.reachable_blocks()
            self._dom = self._dominators(self.entry, self.succs, lambda b: [p for p in P.get(b, []) if p in R])
        return self._dom

    def pdom(self):
        if self._pdom is None:
            P = self.preds()
            self._pdom = self._dominators(self.exit, lambda b: P.get(b, []), self.succs)
        return self._pdom

    def pos_dominates(self, a, b):
        """CFG position a dominates position b (a is evaluated on every path reaching b)."""
        if a is None or b is None:
            return False
        if a[0] == b[0]:
            return a[1] <= b[1]
        return a[0] in self.dom()[b[0]]

    def pos_postdominates(self, a, b):
        """a is evaluated on every path from b to the exit (normal paths)."""
        if a is None or b is None:
            return False
        if a[0] == b[0]:
            return a[1] >= b[1]
        return a[0] in self.pdom()[b[0]]

    def block_reaches(self, a, b, avoid=()):
        """Is block b reachable from block a by >=1 edge, avoiding blocks in `avoid`."""
        seen = set()
        st = list(self.succs(a))
        while st:
            x = st.pop()
            if x in seen or x in avoid:
                continue
            seen.add(x)
            if x == b:
                return True
            st.extend(self.succs(x))
        return False

    def pos_reaches(self, a, b):
        """Can control flow from position a to position b (strictly later)?"""
        if a is None or b is None:
            return False
        if a[0] == b[0] and a[1] < b[1]:
            return True
        return self.block_reaches(a[0], b[0])

    def edge_role(self, b, s):
        """'true'/'false'/None for edge b->s of a two-way branch."""
        succ = self.blocks[b]['succ']
        if len(succ) == 2 and self.blocks[b].get('cond'):
            if succ[0] == s and succ[1] != s:
                return 'true'
            if succ[1] == s and succ[0] != s:
                return 'false'
        return None

    def elems(self):
        """All CFG elements as (block, index, elem) in block order (entry first)."""
        out = []
        for bid in sorted(self.blocks, reverse=True):
            for i, e in enumerate(self.blocks[bid]['elems']):
                out.append((bid, i, e))
        return out

    def return_nodes(self):
        return [n for n, o in self.nodes.items() if o['cls'] == 'ReturnStmt']


def load_tus(paths_variants):
    return [TU(p, v, s) for (p, v, s) in paths_variants]
