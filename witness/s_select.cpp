// static_assert witnesses for the compile-time policy selection (C04.W, C13.S4, C05.V, C12.F4).
// Type-checked with g++ and clang++; never linked or run.
#include "common.h"
#include <unordered_map>

namespace wit {
using namespace eventpp;
using namespace eventpp::internal_;

struct V {};
template <typename K, typename T> struct UserMap : std::map<K, T> {};
struct PoliciesUserMap { template <typename K, typename T> using Map = UserMap<K, T>; };
struct NoHash { bool operator < (const NoHash &) const { return false; } };

// SelectMap: user map / hashed / ordered
static_assert(std::is_same<SelectMap<int, V, DefaultPolicies, HasTemplateMap<DefaultPolicies>::value>::Type, std::unordered_map<int, V> >::value, "hashable key -> unordered_map");
static_assert(std::is_same<SelectMap<std::string, V, DefaultPolicies, HasTemplateMap<DefaultPolicies>::value>::Type, std::unordered_map<std::string, V> >::value, "string key -> unordered_map");
static_assert(std::is_same<SelectMap<NoHash, V, DefaultPolicies, HasTemplateMap<DefaultPolicies>::value>::Type, std::map<NoHash, V> >::value, "non-hashable key -> map");
static_assert(std::is_same<SelectMap<OnlyLess, V, DefaultPolicies, HasTemplateMap<DefaultPolicies>::value>::Type, std::map<OnlyLess, V> >::value, "only-less key -> map");
static_assert(std::is_same<SelectMap<int, V, PoliciesUserMap, HasTemplateMap<PoliciesUserMap>::value>::Type, UserMap<int, V> >::value, "user map wins");
static_assert(std::is_same<SelectMap<int, V, PoliciesMapOrdered, HasTemplateMap<PoliciesMapOrdered>::value>::Type, std::map<int, V> >::value, "policy map");
static_assert(HasHash<AnyId<> >::value, "AnyId is hashable");
static_assert(std::is_same<SelectMap<AnyId<>, V, DefaultPolicies, false>::Type, std::unordered_map<AnyId<>, V> >::value, "AnyId -> unordered_map");
// element addresses must be stable: the maps selected above are node based (pointers to elements escape the lock)
static_assert(!HasHash<NoHash>::value && HasHash<int>::value, "HasHash");

// SelectGetEvent: the policy's getEvent exactly when callable with the argument types
static_assert(HasFunctionGetEvent<PoliciesGetEventRef, const EventStruct &, int>::value, "policy callable");
static_assert(HasFunctionGetEvent<PoliciesGetEventRef, EventStruct &&, int>::value, "policy callable with rvalue");
static_assert(!HasFunctionGetEvent<PoliciesGetEventRef, int, int>::value, "policy not callable");
static_assert(!HasFunctionGetEvent<DefaultPolicies, int>::value, "no getEvent");
static_assert(std::is_same<SelectGetEvent<PoliciesGetEventRef, std::string, true>::Type, PoliciesGetEventRef>::value, "selects policy");
static_assert(std::is_same<SelectGetEvent<PoliciesGetEventRef, std::string, false>::Type, DefaultGetEvent<std::string> >::value, "falls back to first argument");
static_assert(std::is_same<decltype(DefaultGetEvent<std::string>::getEvent(std::declval<const std::string &>(), 1)), std::string>::value, "default getEvent yields the key type by value");

// SelectCanContinueInvoking / threading / callback / queue list / mixins
static_assert(HasFunctionCanContinueInvoking<PoliciesCanContinue, int, const std::string &>::value, "canContinue present");
static_assert(!HasFunctionCanContinueInvoking<DefaultPolicies, int>::value, "canContinue absent");
static_assert(std::is_same<SelectCanContinueInvoking<PoliciesCanContinue, true>::Type, PoliciesCanContinue>::value, "policy canContinue");
static_assert(std::is_same<SelectCanContinueInvoking<DefaultPolicies, false>::Type, DefaultCanContinueInvoking>::value, "default canContinue");
static_assert(std::is_same<SelectThreading<DefaultPolicies, HasTypeThreading<DefaultPolicies>::value>::Type, MultipleThreading>::value, "default threading");
static_assert(std::is_same<SelectThreading<PoliciesSingle, HasTypeThreading<PoliciesSingle>::value>::Type, SingleThreading>::value, "policy threading");
static_assert(std::is_same<SelectQueueList<V, DefaultPolicies, HasTemplateQueueList<DefaultPolicies>::value>::Type, std::list<V> >::value, "default queue list");
static_assert(std::is_same<SelectQueueList<V, PoliciesOrdered, HasTemplateQueueList<PoliciesOrdered>::value>::Type, OrderedQueueList<V> >::value, "ordered queue list");
static_assert(std::is_same<SelectCallback<PoliciesCustomCallback, HasTypeCallback<PoliciesCustomCallback>::value, int>::Type, PoliciesCustomCallback::Callback>::value, "policy callback");
static_assert(std::is_same<SelectCallback<DefaultPolicies, HasTypeCallback<DefaultPolicies>::value, int>::Type, int>::value, "default callback");
static_assert(std::is_same<SelectMixins<PoliciesFilter, HasTypeMixins<PoliciesFilter>::value>::Type, MixinList<MixinFilter> >::value, "mixins");
static_assert(std::is_same<SelectMixins<DefaultPolicies, HasTypeMixins<DefaultPolicies>::value>::Type, MixinList<> >::value, "no mixins");

// argument passing modes
static_assert(ArgumentPassingAutoDetect::canIncludeEventType && ArgumentPassingAutoDetect::canExcludeEventType, "auto");
static_assert(ArgumentPassingIncludeEvent::canIncludeEventType && !ArgumentPassingIncludeEvent::canExcludeEventType, "include");
static_assert(!ArgumentPassingExcludeEvent::canIncludeEventType && ArgumentPassingExcludeEvent::canExcludeEventType, "exclude");

// queued arguments are stored by value (C05.V): a const T& parameter is copied at enqueue time
using Q1 = EventQueue<int, void (const std::string &, int &, Payload &&, const char *)>;
static_assert(std::is_same<decltype(Q1::QueuedEvent::arguments), std::tuple<std::string, int, Payload, const char *> >::value, "decayed tuple");
static_assert(std::is_same<decltype(Q1::QueuedEvent::event), int>::value, "event by value");

// IndexSequence generation used to unpack the stored tuple: 0,1,...,N-1 in order
static_assert(std::is_same<MakeIndexSequence<0>::Type, IndexSequence<> >::value, "seq0");
static_assert(std::is_same<MakeIndexSequence<1>::Type, IndexSequence<0> >::value, "seq1");
static_assert(std::is_same<MakeIndexSequence<4>::Type, IndexSequence<0, 1, 2, 3> >::value, "seq4");

} // namespace wit
