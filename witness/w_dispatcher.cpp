// Witness: EventDispatcher under key types, map kinds, argument passing modes, getEvent policies, mixins.
#include "common.h"

namespace wit {

template <typename D, typename K, typename CB>
void exerciseDispatcher(const K & key, CB cb)
{
	D d;
	typename D::Handle h = d.appendListener(key, cb);
	typename D::Handle h2 = d.prependListener(key, cb);
	typename D::Handle h3 = d.insertListener(key, cb, h);
	(void)d.removeListener(key, h2);
	(void)d.hasAnyListener(key);
	(void)d.ownsHandle(key, h3);
	d.forEach(key, [](const typename D::Handle &, const typename D::Callback &) {});
	d.forEach(key, [](const typename D::Callback &) {});
	(void)d.forEachIf(key, [](const typename D::Handle &, const typename D::Callback &) { return true; });
	(void)d.forEachIf(key, [](const typename D::Callback &) { return true; });
	D copied(d);
	D moved(std::move(copied));
	copied = d;
	moved = std::move(copied);
	d.swap(moved);
	swap(d, moved);
	(void)eventpp::hasAnyListener(d, key);
}

void useDispatchers()
{
	{
		using D = eventpp::EventDispatcher<int, void (int, const std::string &)>;
		exerciseDispatcher<D>(1, [](int, const std::string &) {});
		D d; d.dispatch(1, 1, "x"); d.dispatch(1, "x"); d.directDispatch(1, 1, "x");
	}
	{
		using D = eventpp::EventDispatcher<int, void (int, const std::string &), PoliciesSingle>;
		exerciseDispatcher<D>(1, [](int, const std::string &) {});
		D d; d.dispatch(1, 1, "x"); d.dispatch(1, "x");
	}
	{
		using D = eventpp::EventDispatcher<int, void (int, const std::string &), PoliciesSpin>;
		exerciseDispatcher<D>(1, [](int, const std::string &) {});
		D d; d.dispatch(1, 1, "x"); d.dispatch(1, "x");
	}
	{
		using D = eventpp::EventDispatcher<int, void (int, const std::string &), PoliciesMapOrdered>;
		exerciseDispatcher<D>(1, [](int, const std::string &) {});
		D d; d.dispatch(1, 1, "x"); d.dispatch(1, "x");
	}
	{
		// class-type key passed by value in the prototype, include-event form
		using D = eventpp::EventDispatcher<std::string, void (std::string, int), PoliciesInclude>;
		exerciseDispatcher<D>(std::string("k"), [](std::string, int) {});
		D d; d.dispatch(std::string("k"), 1); std::string k; d.dispatch(k, 2);
	}
	{
		using D = eventpp::EventDispatcher<std::string, void (const std::string &, int), PoliciesInclude>;
		exerciseDispatcher<D>(std::string("k"), [](const std::string &, int) {});
		D d; d.dispatch(std::string("k"), 1);
	}
	{
		using D = eventpp::EventDispatcher<std::string, void (Payload, int), PoliciesExclude>;
		exerciseDispatcher<D>(std::string("k"), [](Payload, int) {});
		D d; d.dispatch(std::string("k"), Payload(), 1); std::string k; Payload p; d.dispatch(k, p, 2); d.dispatch("lit", p, 3);
	}
	{
		// auto-detect with both forms and a by-value string event
		using D = eventpp::EventDispatcher<std::string, void (std::string, Payload)>;
		exerciseDispatcher<D>(std::string("k"), [](std::string, Payload) {});
		D d; d.dispatch(std::string("k"), Payload()); d.dispatch(std::string("k"), std::string("k"), Payload());
	}
	{
		using D = eventpp::EventDispatcher<OnlyLess, void (int)>;
		exerciseDispatcher<D>(OnlyLess{1}, [](int) {});
		D d; d.dispatch(OnlyLess{1}, 1);
	}
	{
		using D = eventpp::EventDispatcher<std::string, void (const EventStruct &, int), PoliciesGetEventRef>;
		exerciseDispatcher<D>(std::string("k"), [](const EventStruct &, int) {});
		D d; d.dispatch(EventStruct{"k", 1}, 1); EventStruct e{"k", 2}; d.dispatch(e, 2);
	}
	{
		using D = eventpp::EventDispatcher<std::string, void (EventStruct, int), PoliciesGetEventValue>;
		exerciseDispatcher<D>(std::string("k"), [](EventStruct, int) {});
		D d; d.dispatch(EventStruct{"k", 1}, 1); EventStruct e{"k", 2}; d.dispatch(e, 2);
	}
	{
		using D = eventpp::EventDispatcher<std::string, void (EventStruct), PoliciesGetEventValue>;
		exerciseDispatcher<D>(std::string("k"), [](EventStruct) {});
		D d; d.dispatch(EventStruct{"k", 1});
	}
	{
		// exclude-event form with a getEvent policy that maps the selector (must be used, not DefaultGetEvent)
		using D = eventpp::EventDispatcher<int, void (const std::string &), PoliciesGetEventExcl>;
		exerciseDispatcher<D>(4, [](const std::string &) {});
		D d; d.dispatch(404, "not found"); d.dispatch(200, std::string("ok"));
	}
	{
		// exclude-event form, by-value movable listener argument, policy taking it by value
		using D = eventpp::EventDispatcher<int, void (std::string), PoliciesGetEventExclValue>;
		exerciseDispatcher<D>(4, [](std::string) {});
		D d; d.dispatch(404, std::string("payload")); std::string s("x"); d.dispatch(200, s);
	}
	{
		using D = eventpp::EventDispatcher<int, void (int, const std::string &), PoliciesCanContinue>;
		exerciseDispatcher<D>(1, [](int, const std::string &) {});
		D d; d.dispatch(1, 1, "x");
	}
	{
		using D = eventpp::EventDispatcher<int, void (int, const std::string &), PoliciesCustomCallback>;
		exerciseDispatcher<D>(1, MyCallback<void (int, const std::string &)>());
		D d; d.dispatch(1, 1, "x");
		(void)eventpp::hasListener(d, 1, MyCallback<void (int, const std::string &)>());
		(void)eventpp::removeListener(d, 1, MyCallback<void (int, const std::string &)>());
	}
	{
		using D = eventpp::EventDispatcher<int, void (int, std::string), PoliciesFilter>;
		exerciseDispatcher<D>(1, [](int, std::string) {});
		D d;
		auto fh = d.appendFilter([](int &, std::string &) { return true; });
		(void)d.removeFilter(fh);
		d.dispatch(1, 1, "x"); d.dispatch(1, "x");
	}
	{
		using D = eventpp::EventDispatcher<int, void (int, Payload), PoliciesTwoMixins>;
		exerciseDispatcher<D>(1, [](int, Payload) {});
		D d;
		auto fh = d.appendFilter([](int &, Payload &) { return true; });
		(void)d.removeFilter(fh);
		d.dispatch(1, 1, Payload());
	}
	{
		using D1 = eventpp::EventDispatcher<int, void (int, Payload), PoliciesGateFilter>;
		D1 d1; auto f1 = d1.appendFilter([](int &, Payload &) { return true; }); (void)f1; d1.appendListener(1, [](int, Payload) {}); d1.dispatch(1, 1, Payload());
		using D2 = eventpp::EventDispatcher<int, void (int, Payload), PoliciesFilterGate>;
		D2 d2; auto f2 = d2.appendFilter([](int &, Payload &) { return true; }); (void)f2; d2.appendListener(1, [](int, Payload) {}); d2.dispatch(1, 1, Payload());
		using D3 = eventpp::EventDispatcher<int, void (int, Payload), PoliciesFilterNoop>;
		D3 d3; auto f3 = d3.appendFilter([](int &, Payload &) { return true; }); (void)f3; d3.appendListener(1, [](int, Payload) {}); d3.dispatch(1, 1, Payload());
	}
}

} // namespace wit
