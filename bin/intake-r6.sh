#!/bin/bash
# intake-r6.sh <Cxx>: confirm and file the two round-6 deliverables of one sub-agent (its own worktree /tmp/wt/<Cxx> is reused for the
# unit-test build, so several intakes can run side by side); logs under /tmp/intake.
V=$(cd "$(dirname "$0")/.." && pwd)
P=$1
declare -A SIB=( [C01]=C01,C02,C03,C19 [C02]=C01,C02,C03,C14 [C03]=C01,C02,C03,C04,C14 [C04]=C04,C03,C12,C14,C20 [C05]=C05,C06,C08,C11,C13
 [C06]=C05,C06,C07,C11,C14 [C07]=C05,C06,C07,C10,C11,C14 [C08]=C05,C08,C09,C17,C01 [C09]=C09,C08,C10,C14,C15 [C10]=C10,C08,C09,C07,C01
 [C11]=C11,C05,C06,C07,C14 [C12]=C12,C04,C14 [C13]=C13,C05,C06,C08 [C14]=C14,C02,C04,C05,C12 [C15]=C15,C09,C16 [C16]=C16,C15,C02
 [C17]=C17,C08,C09 [C18]=C18,C20 [C19]=C01,C02,C03,C19 [C20]=C20,C04,C18,C02,C03 )
mkdir -p /tmp/intake
for ms in "m1 r6a" "m2 r6b"; do
  set -- $ms
  [ -f /tmp/wt/$P/_mut/$1/patch.diff ] || continue
  python3 $V/bin/seed-intake.py --id $P-$2 --prop $P --src /tmp/wt/$P/_mut/$1 --wt /tmp/wt/$P --jobs ${JOBS:-4} --props ${SIB[$P]} > /tmp/intake/$P-$2.log 2>&1
  tail -1 /tmp/intake/$P-$2.log
done
