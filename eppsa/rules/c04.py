"""C04 — dispatch reaches exactly the dispatched event's listeners, arguments intact.

  M  no use-after-move, sequenced or unsequenced, in the homogeneous dispatch funnel (dispatch x2, directDispatch,
     CallbackListBase::operator() both variants, queue doDispatchQueuedEvent), for by-value class-type keys/arguments and
     const-ref / by-value getEvent policies
  F  funnel and lookup dataflow: listener lists are invoked only from directDispatch; the list invoked is the result of
     doFindCallableList(e) for the function's own event parameter; dispatch hands getEvent(own arguments) and its own
     arguments, in order, to directDispatch; the map lookup uses the given key under listenerMutex; appendListener etc.
     call exactly the corresponding list operation on eventCallbackListMap[event]
  W  compile-time witnesses: SelectGetEvent / SelectMap / argument-passing static_asserts and compile-fail programs
"""
import os

from ..facts import AnalysisBroken, short
from ..paths import path, pstr, root_var_id, last_field
from ..moves import MoveAnalysis, vtag
from ..locks import ScopeInfo, mutex_name
from .. import witness, extract
from .. import formula as F

EXPLANATION = 'C04: R-MOVE over the dispatch funnel, funnel/lookup dataflow (who invokes listener lists, which list, which arguments), policy-selection witnesses.'
ASSUMPTIONS = ['equality/hash semantics of user key types and the argument values themselves are not decided']
UNITS = ['w_dispatcher.cpp', 'w_queue.cpp', 'w_callbacklist.cpp']

FUNNEL = ('EventDispatcherBase::dispatch', 'EventDispatcherBase::directDispatch', 'CallbackListBase::operator()',
          'EventQueueBase::doDispatchQueuedEvent', 'EventQueueBase::dispatch', 'EventDispatcherBase::DoMixinBeforeDispatch::forEach',
          'ForEachMixins::forEach')
# Witness policies (witness/common.h) whose getEvent is callable with the argument lists the witness units use:
# in those instantiations every getEvent call of dispatch / enqueue must resolve to the policy, not to DefaultGetEvent.
POLICIES_WITH_GETEVENT = ('wit::PoliciesGetEventRef', 'wit::PoliciesGetEventValue', 'wit::PoliciesGetEventExcl', 'wit::PoliciesGetEventExclValue')

LIST_OPS = {'appendListener': 'append', 'prependListener': 'prepend', 'insertListener': 'insert'}


def in_funnel(f):
    k = f.outermost().skey
    return any(k == x or k.startswith(x + '::') for x in FUNNEL)


def check(ctx):
    ctx.rule('C04.M', 'no use-after-move in the dispatch funnel')
    ctx.rule('C04.D', 'the default getEvent policy does not consume its arguments')
    ctx.rule('C04.F', 'listener lists are invoked only through directDispatch with the looked-up list and the own arguments in order')
    ctx.rule('C04.W', 'policy selection witnesses (static_assert / compile-fail)')
    for tu in ctx.tus:
        ma = MoveAnalysis(tu)
        for f in tu.fns:
            if not in_funnel(f):
                continue
            vs, pairs = ma.violations(f)
            # every funnel function is an instance, also those without consuming sites (nothing to move)
            names = sorted({vtag(v) for v in vs})
            ctx.ob('C04.M', f, 'arguments are never read after (or unsequenced with) being moved from', not vs,
                   detail='\n'.join(v['msg'] for v in vs[:3]), key_detail='move ' + ','.join(names),
                   where=f.nloc(vs[0]['site']['consumer']) if vs else None)
        # the default getEvent policy receives the caller's first argument by forwarding reference *before* the listeners do: it has
        # to yield a copy and leave the argument alone (the heterogeneous dispatcher forwards the same object to the listeners next)
        for f in tu.fns:
            if f.skey.startswith('DefaultGetEvent::getEvent'):
                sites = ma.consuming_sites(f)
                ctx.ob('C04.D', f, 'the default getEvent yields the event without moving from any of its arguments', not sites,
                       detail='\n'.join('%s is consumed at %s (%s)' % (x['name'], f.nloc(x['consumer']), x['how']) for x in sites[:3]),
                       key_detail='default getEvent consumes')
        check_funnel(ctx, tu)
    ctx.require_min('C04.D', 1)
    ctx.require_min('C04.M', 5)
    ctx.require_min('C04.F', 8)
    witness.check_static_unit(ctx, 'C04.W', os.path.join(extract.VERIF, 'witness', 's_select.cpp'), 'policy selection', tag='C04')
    witness.check_static_unit(ctx, 'C04.W', os.path.join(extract.VERIF, 'witness', 's_meta.cpp'), 'map policy detection and selection', tag='C04')
    witness.check_fail_unit(ctx, 'C04.W', os.path.join(extract.VERIF, 'witness', 'f_argpass.cpp'), 'argument passing mode')


def arg_var(fn, a, allow_conv=False):
    """Variable an argument expression denotes, looking through forwarding and the copy/move construction of a
    by-value parameter (with allow_conv: also a converting construction to the parameter type)."""
    a = fn.strip_all_casts(a)

    def real_args(n):
        return [x for x in fn.nodes[n].get('args', []) if fn.nodes[x]['cls'] != 'CXXDefaultArgExpr']
    while fn.is_construct(a) and len(real_args(a)) == 1 and \
            ((fn.callee(a) or {}).get('ctor') in ('copy', 'move') or allow_conv):
        a = fn.strip_all_casts(real_args(a)[0])
    p = path(fn, a, resolve_refs=False)
    return root_var_id(p) if len(p) == 1 else None


def arg_is_param(fn, a, pid):
    return arg_var(fn, a) == pid


def check_funnel(ctx, tu):
    # who calls CallbackListBase::operator()
    allowed = ('EventDispatcherBase::directDispatch', 'HeterCallbackListBase::operator()')
    for f in tu.fns:
        for n in f.calls():
            ck = f.callee_key(n)
            if ck == 'CallbackListBase::operator()':
                o = f.outermost()
                if o.file.startswith(extract.REPO) or '/include/eventpp/' in o.file:
                    ctx.ob('C04.F', f, 'listener lists are invoked only from directDispatch (after the mixins) or the heterogeneous list',
                           o.skey in allowed, detail='%s invokes a callback list at %s' % (o.skey, f.nloc(n)), where=f.nloc(n),
                           key_detail='invoker')
    for f in tu.fns_named('EventDispatcherBase::directDispatch'):
        calls = [n for n in f.calls() if f.callee_key(n) == 'CallbackListBase::operator()']
        ctx.ob('C04.F', f, 'directDispatch invokes exactly one listener list', len(calls) == 1, detail='%d invocations' % len(calls))
        eparam = f.params[0]['id'] if f.params else None
        for n in calls:
            obj = f.call_obj(n)
            op = path(f, obj)
            # object is *callableList where callableList = doFindCallableList(e)
            ok = False
            vid = root_var_id(op)
            vd = f.var_decls().get(vid) if vid else None
            how = 'object %s' % pstr(op)
            if vd and vd.get('init') and (op[-1:] == ('*',) or len(op) == 1):     # (*list)(args...) or list->operator()(args...)
                init = f.strip_all_casts(vd['init'])
                if f.is_call(init) and (f.callee_key(init) or '').endswith('::doFindCallableList'):
                    a = f.call_args(init)
                    ok = len(a) == 1 and arg_is_param(f, a[0], eparam)
                    how = 'looked up with %s' % pstr(path(f, a[0])) if a else how
            ctx.ob('C04.F', f, 'the invoked list is doFindCallableList(<own event parameter>)', ok, detail=how, where=f.nloc(n))
            # arguments: params 1..n in order
            args = f.call_args(n)
            want = [p['id'] for p in f.params[1:]]
            got = [arg_var(f, a) for a in args]
            ctx.ob('C04.F', f, 'the listeners receive directDispatch\'s own arguments in order', got == want,
                   detail='passed %s' % [pstr(path(f, a)) for a in args], where=f.nloc(n))
    for f in tu.fns_named('EventDispatcherBase::dispatch'):
        calls = [n for n in f.calls() if (f.callee_key(n) or '').endswith('::directDispatch')]
        ctx.ob('C04.F', f, 'dispatch funnels into exactly one directDispatch', len(calls) == 1, detail='%d calls' % len(calls))
        for n in calls:
            args = f.call_args(n)
            if not args:
                continue
            # first argument: getEvent(own arguments...) possibly through a local
            e = f.strip_all_casts(args[0])
            src = e
            if f.nodes[e]['cls'] == 'DeclRefExpr' and f.decl(e)['kind'] == 'var':
                vd = f.var_decls().get(f.decl(e)['id'])
                if vd and vd.get('init'):
                    src = f.strip_all_casts(vd['init'])
                    while f.is_construct(src) and len(f.nodes[src].get('args', [])) == 1:
                        src = f.strip_all_casts(f.nodes[src]['args'][0])
            ok = False
            detail = ''
            if f.is_call(src) and (f.callee(src) or {}).get('name') == 'getEvent':
                ga = f.call_args(src)
                got = [arg_var(f, a) for a in ga]
                want = [p['id'] for p in f.params]
                ok = got == want
                detail = 'getEvent called with %s' % [pstr(path(f, a)) for a in ga]
            else:
                detail = 'event expression is %s at %s' % (f.nodes[src]['cls'], f.nloc(src))
            ctx.ob('C04.F', f, 'the event is getEvent(<all own arguments, in order>)', ok, detail=detail, where=f.nloc(n))
            rest = [arg_var(f, a) for a in args[1:]]
            # overload #1: all params forwarded; overload #2: params after `first`
            want1 = [p['id'] for p in f.params]
            want2 = [p['id'] for p in f.params[1:]]
            ctx.ob('C04.F', f, 'dispatch forwards its own arguments to directDispatch in order', rest in (want1, want2),
                   detail='forwarded %s' % [pstr(path(f, a)) for a in args[1:]], where=f.nloc(n))
    check_listener_management(ctx, tu, 'EventDispatcherBase', 'C04.F')


# per-event helper -> (list operation it stands for, what that operation answers on an empty list; None = returns nothing)
PER_EVENT = {'removeListener': ('remove', False), 'ownsHandle': ('ownsHandle', False), 'hasAnyListener': ('empty', None),
             'forEach': ('forEach', None), 'forEachIf': ('forEachIf', True)}


def check_per_event_delegation(ctx, tu, cls, rule):
    """"Per event every listener-management operation behaves exactly like the corresponding callback-list operation": the helper
    looks the list of its own event up, applies the one list operation to *that list object* (not to a copy of it: handles and callback
    references handed to the visitor have to denote the registered listeners) with its own arguments, and when the event has no list it
    answers what the operation answers on an empty list."""
    for name, (op, empty_result) in PER_EVENT.items():
        for f in tu.fns_named(cls + '::' + name):
            finds = [n for n in f.calls() if (f.callee_key(n) or '').endswith('::doFindCallableList')]
            # (`!list->empty()` may be spelled through the list's own `operator bool`, which is defined as `!empty()`)
            names = (op, 'operator bool') if op == 'empty' else (op,)
            ops = [n for n in f.calls() if (f.callee(n) or {}).get('name') in names and (f.callee_key(n) or '').split('::')[0] in ('CallbackListBase', 'HeterCallbackListBase')]
            ok = len(finds) == 1 and len(ops) == 1 and arg_is_param(f, f.call_args(finds[0])[0], f.params[0]['id'])
            detail = 'lookups: %d, %s calls on a list: %d' % (len(finds), op, len(ops))
            if ok:
                # the object of the list operation is the looked-up element itself: *ptr where ptr is the local initialised by the lookup
                obj = f.call_obj(ops[0])
                po = path(f, obj) if obj else ()
                vid = root_var_id(po)
                vd = f.var_decls().get(vid) if vid is not None else None
                src = f.strip_all_casts(vd['init']) if vd and vd.get('init') else None
                vt = f.tu.type(vd['t']) if vd else None
                is_ptr_or_ref = bool(vt) and (vt.get('ptr') is not None or vt.get('ref'))
                ok = src == finds[0] and is_ptr_or_ref
                detail = 'the %s call is made on %s' % (op, pstr(po) + ('' if ok else ' (not the object the lookup returned - a copy has its own nodes and handles)'))
                # own arguments, in order
                want = [p['id'] for p in f.params[1:]]
                got = [arg_var(f, a) for a in f.call_args(ops[0])]
                if got != want:
                    ok = False
                    detail += '; arguments %s' % [pstr(path(f, a)) for a in f.call_args(ops[0])]
            ctx.ob(rule, f, '%s applies %s to the looked-up list of its own event, with its own arguments' % (name, op), ok, detail=detail,
                   key_detail='per-event delegation')
            if ok and empty_result is not None:
                try:
                    fm = F.formula(f, inline=False)
                    ats = F.atoms(fm)
                    la = [a for a in ats if '(' not in a]
                    oa = [a for a in ats if ('%s(' % op) in a or ('.%s' % op) in a or ('->%s' % op) in a]
                    okr = len(la) == 1 and len(oa) == 1 and len(ats) == 2
                    if okr:
                        # the list test may be written `list`, `list != nullptr` or `list == nullptr`
                        t = la[0].replace(' ', '')
                        has_list = ('not', ('atom', la[0])) if t.endswith('==nullptr') or t.startswith('nullptr==') else ('atom', la[0])
                        want_f = ('or', ('and', has_list, ('atom', oa[0])), ('and', ('not', has_list), ('const', empty_result)))
                        okr = F.equivalent(fm, want_f)[0]
                    shown = F.show(fm)
                except F.Unsupported as e:
                    okr, shown = False, 'not extractable: %s' % e
                ctx.ob(rule, f, '%s answers the list\'s own result, and %s when the event has no list (as %s does on an empty list)' % (name, empty_result, op),
                       okr, detail='extracted result: %s' % shown, key_detail='per-event empty result')


def execute_around(f, op):
    """The operation written as a closure handed to a helper of the class that looks the list up and applies the closure to it
    (`return withListOf(event, [&](List & l) { return l.append(callback); });`): (ok, detail), or None when f has no such call."""
    for n in f.calls():
        gs = [g for g in f.callee_fns(n) if g.clsq == f.clsq and g.kind == 'method']
        if len(gs) != 1:
            continue
        g = gs[0]
        args = f.call_args(n)
        for k, a in enumerate(args):
            if f.nodes[f.value_source(a)]['cls'] != 'LambdaExpr':
                continue
            lam = f.functor_body(a)
            if lam is None or len(lam.params) != 1 or k >= len(g.params):
                continue
            lc = [m for m in lam.calls() if (lam.callee(m) or {}).get('name') in ('append', 'prepend', 'insert')]
            if not lc:
                continue
            detail = 'closure passed to %s' % g.skey
            ok = len(lc) == 1 and lam.callee(lc[0])['name'] == op and lam.call_obj(lc[0]) is not None \
                and path(lam, lam.call_obj(lc[0]), resolve_refs=False) == ('v:%s#%d' % (lam.params[0]['name'], lam.params[0]['id']),) \
                and lam.pos_postdominates(lam.pos(lc[0]), (lam.entry, 0))
            # its arguments are f's own further parameters (captured), in order, and its result is what the closure returns
            ok = ok and [arg_var(lam, x) for x in lam.call_args(lc[0])] == [p['id'] for p in f.params[1:]]
            # the helper applies the closure exactly once, to eventCallbackListMap[<its parameter bound to f's event>], and returns that result
            fid = g.params[k]['id']
            inv = [m for m in g.calls() if g.nodes[m]['cls'] == 'CXXOperatorCallExpr' and g.nodes[m].get('op') == '()' and g.nodes[m].get('obj') is not None
                   and root_var_id(path(g, g.nodes[m]['obj'], resolve_refs=False)) == fid]
            ok = ok and len(inv) == 1 and g.pos_postdominates(g.pos(inv[0]), (g.entry, 0))
            if ok:
                ia = g.call_args(inv[0])
                x = g.strip_all_casts(ia[0]) if len(ia) == 1 else None
                if x is not None and g.nodes[x]['cls'] == 'DeclRefExpr' and g.decl(x)['kind'] == 'var':
                    vd = g.var_decls().get(g.decl(x)['id'])
                    vt = g.tu.type(vd['t']) if vd else None
                    x = g.strip_all_casts(vd['init']) if vd and vd.get('init') and vt and vt.get('ref') else None
                ok = x is not None and g.nodes[x]['cls'] == 'CXXOperatorCallExpr' and g.nodes[x].get('op') == '[]'
                if ok:
                    oa = g.nodes[x]['args']
                    ev = [j for j, pp in enumerate(g.params) if arg_is_param(g, oa[1], pp['id'])]
                    ok = last_field(path(g, oa[0])) == 'eventCallbackListMap' and len(ev) == 1 and ev[0] < len(args) and arg_is_param(f, args[ev[0]], f.params[0]['id'])
                rets = g.return_nodes()
                ok = ok and bool(rets) and all(g.kids(r) and g.value_source(g.kids(r)[0]) == inv[0] for r in rets)
                frets = f.return_nodes()
                ok = ok and bool(frets) and all(f.kids(r) and f.value_source(f.kids(r)[0]) == n for r in frets)
                lrets = lam.return_nodes()
                ok = ok and bool(lrets) and all(lam.kids(r) and lam.value_source(lam.kids(r)[0]) == lc[0] for r in lrets)
            return ok, detail
    return None


def check_listener_management(ctx, tu, cls, rule, inv_key='CallbackListBase::operator()'):
    """Lookup and per-event listener management of a dispatcher class map exactly onto the list operations."""
    for f in tu.fns_named(cls + '::doFindCallableListHelper'):
        si = ScopeInfo(f)
        finds = [n for n in f.calls() if (f.callee(n) or {}).get('name') == 'find' and f.call_obj(n) and last_field(path(f, f.call_obj(n))) == 'eventCallbackListMap']
        ctx.ob(rule, f, 'lookup performs exactly one find on eventCallbackListMap', len(finds) == 1)
        for n in finds:
            a = f.call_args(n)
            okk = len(a) == 1 and arg_is_param(f, a[0], f.params[1]['id'])
            held = any(mutex_name(m) == 'listenerMutex' for m in si.node_held_must(n))
            ctx.ob(rule, f, 'the map is searched for the given key under listenerMutex', okk and held,
                   detail='key %s, lock held: %s' % (pstr(path(f, a[0])) if a else '?', held), where=f.nloc(n))
        # returns &it->second exactly when found
        rets = f.return_nodes()
        # returns &it->second on the found edge, null otherwise
        found_ret = [r for r in rets if f.kids(r) and f.nodes[f.strip_all_casts(f.kids(r)[0])]['cls'] == 'UnaryOperator' and
                     path(f, f.strip_all_casts(f.kids(r)[0]))[-2:] == ('.second', '&')]
        ctx.ob(rule, f, 'lookup returns the address of the found element (or null)', len(found_ret) == 1 and len(rets) >= 2)
    if cls != 'EventDispatcherBase':
        pass
    for f in tu.fns:
        if cls == 'EventDispatcherBase' and f.skey in ('EventDispatcherBase::dispatch', 'EventQueueBase::enqueue') and any(pn + ',' in f.clsq or pn + '>' in f.clsq for pn in POLICIES_WITH_GETEVENT):
            for n in f.calls():
                cal = f.callee(n)
                if cal and cal['name'] == 'getEvent':
                    ctx.ob('C04.W', f, 'a getEvent policy that accepts the call\'s arguments is the one that computes the event', not cal.get('lib'),
                           detail='%s resolves getEvent to %s although the policy %s provides a callable getEvent: the policy is silently bypassed'
                                  % (f.q[:120], short(cal['key']), [pn for pn in POLICIES_WITH_GETEVENT if pn in f.clsq][0]),
                           where=f.nloc(n), key_detail='policy getEvent used')
    for name, op in LIST_OPS.items():
        for f in tu.fns_named(cls + '::' + name):
            calls = [n for n in f.calls() if (f.callee(n) or {}).get('name') in ('append', 'prepend', 'insert')]
            ok = len(calls) == 1 and f.callee(calls[0])['name'] == op
            detail = ''
            if not calls:
                ea = execute_around(f, op)
                if ea is not None:
                    ctx.ob(rule, f, '%s performs exactly %s(callback...) on the list of the given event' % (name, op), ea[0], detail=ea[1])
                    continue
            if ok:
                n = calls[0]
                objp = path(f, f.call_obj(n))
                # eventCallbackListMap[event]
                objn = f.strip_all_casts(f.call_obj(n))
                # the list may first be bound to a local reference: `auto & list = eventCallbackListMap[event]; list.append(...)`
                if f.nodes[objn]['cls'] == 'DeclRefExpr' and f.decl(objn)['kind'] == 'var':
                    vd = f.var_decls().get(f.decl(objn)['id'])
                    vt = f.tu.type(vd['t']) if vd else None
                    if vd and vd.get('init') and vt and vt.get('ref'):
                        objn = f.strip_all_casts(vd['init'])
                okobj = False
                if f.nodes[objn]['cls'] == 'CXXOperatorCallExpr' and f.nodes[objn].get('op') == '[]':
                    oa = f.nodes[objn]['args']
                    okobj = last_field(path(f, oa[0])) == 'eventCallbackListMap' and arg_is_param(f, oa[1], f.params[0]['id'])
                elif f.is_call(objn):
                    # a private helper that hands back `eventCallbackListMap[<its parameter>]`, called with the event
                    for g in f.callee_fns(objn):
                        rets = g.return_nodes()
                        ca = f.call_args(objn)
                        if len(rets) == 1 and g.params and len(ca) == 1 and arg_is_param(f, ca[0], f.params[0]['id']):
                            rv = g.strip_all_casts(g.kids(rets[0])[0])
                            if g.nodes[rv]['cls'] == 'CXXOperatorCallExpr' and g.nodes[rv].get('op') == '[]':
                                ga = g.nodes[rv]['args']
                                okobj = last_field(path(g, ga[0])) == 'eventCallbackListMap' and arg_is_param(g, ga[1], g.params[0]['id'])
                args = f.call_args(n)
                want = [p['id'] for p in f.params[1:]]
                got = [arg_var(f, a) for a in args]
                ok = okobj and got == want
                detail = 'object %s args %s' % (f.nodes[objn]['cls'], [pstr(path(f, a)) for a in args])
            ctx.ob(rule, f, '%s performs exactly %s(callback...) on the list of the given event' % (name, op), ok, detail=detail)
    for f in tu.fns_named(cls + '::removeListener'):
        calls = [n for n in f.calls() if (f.callee(n) or {}).get('name') == 'remove']
        finds = [n for n in f.calls() if (f.callee_key(n) or '').endswith('::doFindCallableList')]
        ok = len(calls) == 1 and len(finds) == 1 and arg_is_param(f, f.call_args(finds[0])[0], f.params[0]['id']) \
            and arg_is_param(f, f.call_args(calls[0])[0], f.params[1]['id'])
        ctx.ob(rule, f, 'removeListener removes the given handle from the list of the given event', ok)
    check_per_event_delegation(ctx, tu, cls, rule)
    for f in tu.fns_named(cls + '::hasAnyListener'):
        finds = [n for n in f.calls() if (f.callee_key(n) or '').endswith('::doFindCallableList')]
        em = [n for n in f.calls() if (f.callee(n) or {}).get('name') in ('empty', 'operator bool') and (f.callee_key(n) or '').split('::')[0] in ('CallbackListBase', 'HeterCallbackListBase')]
        ok = len(finds) == 1 and len(em) == 1 and arg_is_param(f, f.call_args(finds[0])[0], f.params[0]['id'])
        if ok:
            try:
                fm = F.formula(f, inline=False)
                ats = F.atoms(fm)
                la = [a for a in ats if '(' not in a]
                oa = [a for a in ats if a not in la]
                ok = len(ats) == 2 and len(la) == 1 and len(oa) == 1
                if ok:
                    # true exactly when the event has a list and that list is not empty
                    t = la[0].replace(' ', '')
                    has_list = ('not', ('atom', la[0])) if t.endswith('==nullptr') or t.startswith('nullptr==') else ('atom', la[0])
                    nonempty = ('not', ('atom', oa[0])) if f.callee(em[0])['name'] == 'empty' else ('atom', oa[0])
                    ok = F.equivalent(fm, ('and', has_list, nonempty))[0]
            except F.Unsupported:
                ok = False
        ctx.ob(rule, f, 'hasAnyListener answers from the list of the given event', ok)
