"""C09 — Exceptions propagate and leave every container consistent and leak-free (static fault-point enumeration).

  C  commit-point rule for the strong-guarantee operations: on every path no fault point (allocation, user callable,
     user copy/move/comparison) is reachable after the first write to the object's observable state
  N  a function declared noexcept (or a destructor) reaches no fault point (exemptions by (function, reason))
  R  RAII only: no bare mutex lock()/unlock(); traversal and dispatch functions write no container state
  D  the node-building copy constructor delegates to a complete constructor first; copy assignment of both callback
     list classes is copy-and-swap
  P  slot set(): the placement construction precedes the publication of the destructor pointer
"""
from ..facts import AnalysisBroken, short
from ..paths import path, pstr, last_field, root_var_id, fields_in
from ..effects import USER_INVOKE, USER_COPY, ALLOC, UNKNOWN, classify_callee
from .qcommon import TUInfo, is_lifetime, CONTAINER_CALLEES, SLOT_CLASSES, QUEUES, queue_of

EXPLANATION = ('C09: every call site that may throw (allocation, user callable, user copy) is enumerated from the call graph and classified '
               'against the commit point of each strong-guarantee operation; noexcept functions reach no fault point; locks/counters only through '
               'scope objects; delegating copy constructor and copy-and-swap assignment; placement-new before destructor publication.')
ASSUMPTIONS = ['mutex operations and destructors do not throw (outside the library\'s documented exception model)',
               'standard-library callees are classified by the frozen table in eppsa/effects.py; std::list::splice/swap, shared_ptr copies and atomics do not throw']
UNITS = None

FAULTS = {ALLOC, USER_INVOKE, USER_COPY}

STRONG_OPS = (
    'CallbackListBase::append', 'CallbackListBase::prepend', 'CallbackListBase::insert', 'CallbackListBase::remove',
    'CallbackListBase::operator=',
    'EventDispatcherBase::appendListener', 'EventDispatcherBase::prependListener', 'EventDispatcherBase::insertListener',
    'EventDispatcherBase::removeListener',
    'HeterCallbackListBase::append', 'HeterCallbackListBase::prepend', 'HeterCallbackListBase::insert', 'HeterCallbackListBase::remove',
    'HeterCallbackListBase::operator=',
    'HeterEventDispatcherBase::appendListener', 'HeterEventDispatcherBase::prependListener', 'HeterEventDispatcherBase::insertListener',
    'HeterEventDispatcherBase::removeListener',
    'ScopedRemover::appendListener', 'ScopedRemover::prependListener', 'ScopedRemover::insertListener',
    'ScopedRemover::append', 'ScopedRemover::prepend', 'ScopedRemover::insert',
    'CounterRemover::appendListener', 'CounterRemover::prependListener', 'CounterRemover::insertListener',
    'CounterRemover::append', 'CounterRemover::prepend', 'CounterRemover::insert',
    'ConditionalRemover::appendListener', 'ConditionalRemover::prependListener', 'ConditionalRemover::insertListener',
    'ConditionalRemover::append', 'ConditionalRemover::prepend', 'ConditionalRemover::insert',
    'EventQueueBase::enqueue', 'EventQueueBase::doEnqueue', 'EventQueueBase::peekEvent',
    'HeterEventQueueBase::enqueue', 'HeterEventQueueBase::doEnqueue', 'HeterEventQueueBase::doEnqueueItem',
    'MixinFilter::appendFilter', 'MixinHeterFilter::appendFilter',
)

# writes that do not change what the object observably holds (reason)
NONOBSERVABLE_FIELDS = {
    'freeList': 'capacity cache of recycled EMPTY slots',
    'eventCallbackListMap': 'operator[] may create an empty listener list, which is indistinguishable from no list',
    'callbackListList': 'doGetCallbackList may create an empty per-prototype list',
    'currentCounter': 'drawing a generation that ends up unused is not observable',
}

NOEXCEPT_EXEMPT = {
    # (pattern prefix) -> reason
    'ScopedRemover::ScopedRemover': 'reset() runs on the moved-from remover whose record list is empty',
    'ScopedRemover::~ScopedRemover': 'reset() only removes listeners; removal allocates nothing and fails only through a throwing user key comparison',
    'ScopedRemover::operator=': 'reset() only removes listeners (see destructor)',
    'SingleThreading::': 'policy primitives',
}


def check(ctx):
    ctx.rule('C09.C', 'no fault point after the first observable write in strong-guarantee operations')
    ctx.rule('C09.N', 'noexcept functions reach no fault point')
    ctx.rule('C09.R', 'locks only through scope objects; traversal and dispatch write no container state')
    ctx.rule('C09.D', 'delegating copy constructor; copy-and-swap assignment')
    ctx.rule('C09.P', 'placement construction precedes publication of the slot destructor')
    ctx.rule('C09.T', 'calls that consume at most one event take at most one event out of the queue (what a throwing listener can lose)')
    fault_table = {}
    for tu in ctx.tus:
        info = TUInfo(tu)
        mut = Mutation(tu, info)
        for f in tu.fns:
            if f.skey in STRONG_OPS and f.kind != 'lambda':
                check_commit(ctx, tu, info, mut, f, fault_table)
        check_noexcept(ctx, tu, info)
        check_raii(ctx, tu, info, mut)
        check_copy(ctx, tu, info)
        check_placement(ctx, tu, info, 'C09.P')
        check_take_width(ctx, tu, info)
    ctx.require_min('C09.T', 3)
    ctx.extra['fault_points'] = {k: sorted(v)[:12] for k, v in sorted(fault_table.items())}
    ctx.require_min('C09.C', 30)
    ctx.require_min('C09.N', 15)
    ctx.require_min('C09.R', 8)
    ctx.require_min('C09.D', 3)
    ctx.require_min('C09.P', 2)


# What an exception escaping a processing call may discard is what that call had taken out of the queue. The calls that hand exactly
# one event to user code (processOne, takeEvent) must therefore take exactly one element - a whole-list take (swap / whole-list splice),
# directly or through a sibling such as processUntil, would put every pending event at the mercy of one throwing listener.
ONE_EVENT_CALLS = ('processOne', 'takeEvent')


def take_width(info, f, depth=0, seen=None):
    """[(function, node, 'single'|'whole')] for every take out of this.queueList made by f or by the queue members it calls."""
    from .c05 import takes_of
    seen = seen if seen is not None else set()
    if f.id in seen or depth > 4:
        return []
    seen.add(f.id)
    out = []
    for w in takes_of(info, f):
        n = w['node']
        meth = (f.callee(n) or {}).get('name', '')
        nargs = len([a for a in f.call_args(n) if f.nodes[a]['cls'] != 'CXXDefaultArgExpr']) if f.is_call(n) else 0
        out.append((f, n, 'single' if meth == 'splice' and nargs == 3 else 'whole'))
    for n in f.calls():
        cal = f.callee(n)
        if cal and cal.get('lib') and cal.get('fid', -1) in f.tu.by_id:
            g = f.tu.by_id[cal['fid']]
            if queue_of(g) and g.id != f.id:
                out += take_width(info, g, depth + 1, seen)
    return out


def check_take_width(ctx, tu, info):
    for q in QUEUES:
        for f in info.members(q):
            if f.kind == 'lambda' or f.name not in ONE_EVENT_CALLS or f.outermost().id != f.id:
                continue
            tw = take_width(info, f)
            wide = [(g, n) for g, n, k in tw if k == 'whole']
            ctx.ob('C09.T', f, '%s takes at most one element out of the queue list (directly or through the members it calls)' % f.name,
                   bool(tw) and not wide,
                   detail='takes found: %d; whole-list takes at %s - an exception escaping the single dispatch would discard every pending event'
                          % (len(tw), ', '.join('%s (%s)' % (g.nloc(n), g.name) for g, n in wide[:3])),
                   key_detail='take width')


class Mutation:
    """Does calling fn write observable state of its receiver / reference arguments? And is fn itself 'strong'?"""

    def __init__(self, tu, info):
        self.tu = tu
        self.info = info
        self._m = {}
        self._st = set()

    def fresh_locals(self, fn):
        """Locals that denote objects created in this call (not yet reachable by anybody else)."""
        out = set()
        for vid, vd in fn.var_decls().items():
            init = vd.get('init')
            t = fn.tu.type(vd['t'])
            if t and t['ref']:
                continue
            if not init:
                out.add(vid)
                continue
            n = fn.strip_all_casts(init)
            while fn.is_construct(n) and len(fn.nodes[n].get('args', [])) == 1 and (fn.callee(n) or {}).get('ctor') in ('copy', 'move'):
                n = fn.strip_all_casts(fn.nodes[n]['args'][0])
            c = fn.nodes[n]['cls']
            if fn.is_construct(n) or c in ('InitListExpr', 'LambdaExpr', 'IntegerLiteral', 'CXXBoolLiteralExpr'):
                out.add(vid)
            elif fn.is_call(n):
                ck = fn.callee_key(n) or ''
                nm = (fn.callee(n) or {}).get('name', '')
                if ck in ('std::make_shared', 'CallbackListBase::doAllocateNode', 'CallbackListBase::getNextCounter') or nm in ('begin', 'end', 'load'):
                    out.add(vid)
                elif t and not t.get('rec'):
                    out.add(vid)   # scalars
                elif nm in ('append', 'prepend', 'insert', 'appendListener', 'prependListener', 'insertListener'):
                    out.add(vid)   # a handle value
        return out

    def observable_writes(self, fn):
        """(pos, node, description) of writes to state reachable by others."""
        fresh = self.fresh_locals(fn)
        out = []
        for w in self.info.writes(fn):
            p = w['path']
            r = p[0]
            if r.startswith('tmp') or r.startswith('enum') or r.startswith('func'):
                continue
            how = w['how']
            if how.startswith('call:'):
                m = how[5:]
                if m in ('begin', 'end', 'front', 'back', 'lock', 'get', 'load', 'data', 'operator bool', 'find', 'empty', 'cbegin', 'cend'):
                    continue
                # member calls on library objects are judged through the callee (below)
                cal = fn.callee(w['node'])
                if cal and cal.get('lib') and cal.get('fid', -1) >= 0:
                    continue
            if how.startswith('arg:'):
                cal = fn.callee(w['node'])
                if cal and cal.get('lib') and cal.get('fid', -1) >= 0:
                    continue
                k = how[4:]
                if not (k.endswith('::splice') or k.endswith('swap') or k.endswith('::merge')):
                    continue     # passing a reference to a non-mutating standard function / constructor
            if how == 'guard':
                continue
            vid = root_var_id(p)
            if vid is not None and vid in fresh and len(p) >= 1:
                # writes into a fresh object (or through a fresh iterator into a fresh list) are private
                continue
            flds = fields_in(p)
            if any(f in NONOBSERVABLE_FIELDS for f in flds[:1]) and r == 'this':
                continue
            if r == 'this' and not flds:
                continue
            if vid is not None and vid in fn.param_ids():
                pt = fn.tu.type(fn.param_ids()[vid]['t'])
                # out-parameters given by pointer (peekEvent/takeEvent) are the caller's object, not the container
                if pt and pt.get('ptr') is not None and not pt['ref']:
                    continue
                if pt and not pt['ref'] and not pt.get('ptr'):
                    continue     # by-value parameter: a private copy
            out.append((w['pos'], w['node'], '%s %s' % (how, pstr(p))))
        return out

    def mutates(self, fn):
        if fn.id in self._m:
            return self._m[fn.id]
        if fn.id in self._st:
            return False
        self._st.add(fn.id)
        res = bool(self.observable_writes(fn))
        if not res:
            for n in fn.nodes:
                if (fn.is_call(n) or fn.is_construct(n)) and self.call_mutates(fn, n):
                    res = True
                    break
        self._st.discard(fn.id)
        self._m[fn.id] = res
        return res

    def written_roots(self, g):
        """{'this': bool, 'params': set of parameter indices} the function writes observable state through (directly), or None when it
        also mutates through further library calls (then everything it can reach counts)."""
        pidx = {pp['id']: i for i, pp in enumerate(g.params)}
        out = {'this': False, 'params': set()}
        _depth = getattr(self, '_wr_depth', 0)
        for n in g.nodes:
            if (g.is_call(n) or g.is_construct(n)) and n in g.nodes and self.call_mutates(g, n):
                # a helper split further: what the inner helper writes, seen through the binding of this call
                hs = g.callee_fns(n)
                if len(hs) != 1 or _depth >= 3:
                    return None
                self._wr_depth = _depth + 1
                try:
                    wr = self.written_roots(hs[0])
                finally:
                    self._wr_depth = _depth
                if wr is None:
                    return None
                obj = g.nodes[n].get('obj')
                gfresh = self.fresh_locals(g)
                if wr['this']:
                    op = path(g, obj) if obj is not None else ('this',)
                    ovid = root_var_id(op)
                    if op == ('this',):
                        out['this'] = True
                    elif ovid is not None and ovid in pidx and len(op) == 1:
                        out['params'].add(pidx[ovid])       # a member call on a list handed in by reference
                    elif ovid is not None and ovid in gfresh:
                        pass
                    elif op[0] == 'this' and fields_in(op) and fields_in(op)[0] in NONOBSERVABLE_FIELDS:
                        pass
                    else:
                        return None
                args = g.call_args(n)
                for i in wr['params']:
                    if i >= len(args):
                        return None
                    ap = path(g, args[i])
                    vid = root_var_id(ap)
                    if vid is not None and vid in pidx and len(ap) == 1:
                        out['params'].add(pidx[vid])
                    elif vid is not None and vid in gfresh:
                        continue
                    elif ap[0] == 'this' and fields_in(ap) and fields_in(ap)[0] in NONOBSERVABLE_FIELDS:
                        continue
                    else:
                        return None
        for (pos, node, desc) in self.observable_writes(g):
            pass
        for w in self.info.writes(g):
            p = w['path']
            vid = root_var_id(p)
            if w['how'].startswith(('call:', 'arg:')):
                cal = g.callee(w['node'])
                if cal and cal.get('lib') and cal.get('fid', -1) >= 0:
                    continue      # a library callee with a body: judged through that callee (above)
            if p[0] == 'this':
                flds = fields_in(p)
                if flds and flds[0] in NONOBSERVABLE_FIELDS:
                    continue
                if w['how'].startswith('call:') and w['how'][5:] in ('begin', 'end', 'front', 'back', 'lock', 'get', 'load', 'data', 'operator bool', 'find', 'empty', 'cbegin', 'cend'):
                    continue
                if w['how'] == 'guard':
                    continue
                if w['how'].startswith('arg:'):
                    k = w['how'][4:]
                    if not (k.endswith('::splice') or k.endswith('swap') or k.endswith('::merge')):
                        continue     # e.g. a mutex handed to a lock_guard
                out['this'] = True
            elif vid is not None and vid in pidx:
                out['params'].add(pidx[vid])
        return out

    def call_mutates(self, fn, n):
        """The call n (to a library function with a body) writes observable state as seen from fn."""
        gs = fn.callee_fns(n)
        if not gs:
            return False
        g = gs[0]
        if g.kind in ('ctor', 'dtor'):
            return False
        if not self.mutates(g):
            return False
        # receiver / arguments fresh? then the mutation is private to this call
        obj = fn.nodes[n].get('obj')
        fresh = self.fresh_locals(fn)
        roots = []
        if obj:
            roots.append(path(fn, obj))
        for a in fn.call_args(n):
            roots.append(path(fn, a))
        if not obj and g.d.get('cls') and not g.d.get('static'):
            roots.append(('this',))
        # which of its roots does the callee really write? (a helper that only fills a list handed in by reference and takes a node
        # from the free list changes nothing observable when that list is a fresh local of the caller)
        wroots = self.written_roots(g)
        if wroots is not None:
            pidx = {pp['id']: i for i, pp in enumerate(g.params)}
            kept = []
            args = fn.call_args(n)
            recv = path(fn, obj) if obj else ('this',)
            for p in roots:
                if p == recv:
                    if wroots['this']:
                        kept.append(p)
                else:
                    kept.append(p)
            # arguments bound to parameters the callee never writes through are not mutated by it
            kept2 = []
            for p in kept:
                if p == recv:
                    kept2.append(p)
                    continue
                try:
                    ai = [path(fn, a) for a in args].index(p)
                except ValueError:
                    kept2.append(p)
                    continue
                if ai in wroots['params']:
                    kept2.append(p)
            roots = kept2
        for p in roots:
            vid = root_var_id(p)
            if p[0] == 'this' or (vid is not None and vid not in fresh):
                if p[0] == 'this' and len(p) >= 2 and p[1][1:] in ('freeList', 'currentCounter'):
                    continue
                if vid is not None and vid in fn.param_ids():
                    pt = fn.tu.type(fn.param_ids()[vid]['t'])
                    if pt and not pt['ref'] and not pt.get('ptr'):
                        continue
                    if pt and pt['ref'] == 2:
                        continue     # an rvalue argument being consumed is the caller's temporary, not container state
                return True
        return False


def fault_of(info, fn, n):
    """Effect classes that make call/construct n a fault point (through library callees)."""
    ck = fn.callee_key(n) or ''
    eff = info.summ.node_effects(fn, n)
    return eff & FAULTS


def check_commit(ctx, tu, info, mut, f, fault_table):
    writes_ = mut.observable_writes(f)
    events = []   # (pos, kind, node, desc)
    for (pos, node, desc) in writes_:
        events.append((pos, 'W', node, desc))
    for n in f.nodes:
        if not (f.is_call(n) or f.is_construct(n)):
            continue
        fl = fault_of(info, f, n)
        isw = mut.call_mutates(f, n)
        if fl:
            events.append((f.pos(n), 'F', n, '%s (%s)' % (f.callee_key(n) or 'indirect call', ','.join(sorted(fl)))))
            fault_table.setdefault(f.pattern(), set()).add('%s@%s' % (f.callee_key(n) or 'indirect', f.nloc(n).split(':')[-1]))
        if isw:
            events.append((f.pos(n), 'W', n, 'call %s' % (f.callee_key(n) or '?')))
    bad = []
    for (wp, wk, wn, wd) in events:
        if wk != 'W':
            continue
        for (fp, fk, fnode, fd) in events:
            if fk != 'F' or fnode == wn:
                continue
            # a fault point inside the arguments of the writing call is evaluated before the call
            if fnode in f.descendants(wn):
                continue
            if f.pos_reaches(wp, fp):
                bad.append((wn, wd, fnode, fd))
    def fault_name(n, fn=f, depth=2):
        k = fn.callee_key(n) or 'indirect'
        last = k.split('::')[-1]
        # the finding is "a container insertion that may throw", whichever of the standard insertion members spells it
        if short(k).startswith('std::') and last in ('push_back', 'emplace_back', 'push_front', 'emplace_front', 'insert', 'emplace'):
            return 'container-insert'
        # ... and whether it is written in place or in a helper of the library whose only fault points are such insertions
        if depth > 0:
            for g in fn.callee_fns(n):
                if g.kind == 'lambda' or not g.d.get('lib', True):
                    continue
                inner = {fault_name(m, g, depth - 1) for m in g.nodes if (g.is_call(m) or g.is_construct(m)) and fault_of(info, g, m)}
                if inner == {'container-insert'}:
                    return 'container-insert'
        return last
    names = sorted({fault_name(b[2]) for b in bad})
    ctx.ob('C09.C', f, 'no allocation / user code / user copy can fail after the object was modified', not bad,
           detail='\n'.join('after %s at %s, %s at %s may throw: the operation is then half done (listener attached but not recorded, '
                            'node linked but result lost, ...)' % (b[1], f.nloc(b[0]), b[3], f.nloc(b[2])) for b in bad[:3]),
           key_detail='fault after commit: ' + ','.join(names))


def check_noexcept(ctx, tu, info):
    for f in tu.fns:
        if f.kind == 'lambda':
            continue
        if not (f.d.get('noexcept_written') or f.kind == 'dtor'):
            continue
        if f.d.get('implicit') or f.d.get('defaulted'):
            continue
        eff = info.summ.effects(f) & FAULTS
        exempt = None
        for k, why in NOEXCEPT_EXEMPT.items():
            if f.skey.startswith(k):
                exempt = why
        if exempt:
            ctx.ob('C09.N', f, 'noexcept function exempt by table: %s' % exempt, True, key_detail='exempt')
            continue
        # where does the fault come from?
        src = []
        if eff:
            for n in f.nodes:
                if f.is_call(n) or f.is_construct(n):
                    e = info.summ.node_effects(f, n) & FAULTS
                    if e:
                        src.append('%s at %s (%s)' % (f.callee_key(n) or 'indirect call', f.nloc(n), ','.join(sorted(e))))
        ctx.ob('C09.N', f, '%s reaches no call that may throw' % ('destructor' if f.kind == 'dtor' else 'noexcept function'), not eff,
               detail='declared noexcept but may throw through: %s  -> std::terminate instead of an exception reaching the caller' % '; '.join(src[:4]),
               key_detail='noexcept reaches fault')


TRAVERSAL_FNS = ('CallbackListBase::doForEachIf', 'CallbackListBase::operator()', 'CallbackListBase::forEach', 'CallbackListBase::forEachIf',
                 'EventDispatcherBase::dispatch', 'EventDispatcherBase::directDispatch', 'HeterEventDispatcherBase::dispatch',
                 'HeterEventDispatcherBase::directDispatch', 'HeterEventDispatcherBase::doDispatch', 'HeterCallbackListBase::operator()',
                 'MixinFilter::mixinBeforeDispatch', 'MixinHeterFilter::mixinBeforeDispatch')


def check_raii(ctx, tu, info, mut):
    for f in tu.fns:
        si = info.scopes(f)
        o = f.outermost().skey
        if not (o.startswith(('CallbackListBase::', 'EventDispatcherBase::', 'EventQueueBase::', 'Heter', 'ScopedRemover::', 'MixinFilter', 'removeHandleFrom'))):
            continue
        if si.bare:
            ctx.ob('C09.R', f, 'mutexes are locked only through scope objects', False,
                   detail='bare %s() at %s: an exception between lock and unlock leaves the mutex held forever'
                          % (si.bare[0][1], f.nloc(si.bare[0][3])), key_detail='bare lock')
        elif si.acquires:
            ctx.ob('C09.R', f, 'mutexes are locked only through scope objects', True, key_detail='bare lock')
    for f in tu.fns:
        if f.cls in tu.counter_guard_classes() and f.kind in ('ctor', 'dtor'):
            continue
        if f.outermost().skey.split('::')[0] in ('EventQueueBase', 'HeterEventQueueBase'):
            for w in info.writes(f):
                if w['path'][-1:] == ('.queueEmptyCounter',) and w['how'] in ('++', '--', '+=', '-=', 'assign', 'call:store', 'call:exchange', 'call:fetch_add', 'call:fetch_sub'):
                    ctx.ob('C09.R', f, 'the in-dispatch counter is changed only through CounterGuard (restored during unwinding)', False,
                           detail='manual %s at %s: an exception thrown by a listener, filter or predicate between the increment and the decrement leaves the '
                                  'counter raised for ever (emptyQueue() stays false, waiters never block)' % (w['how'], f.nloc(w['node'])),
                           where=f.nloc(w['node']), key_detail='manual counter')
                elif w['path'][-1:] == ('.queueEmptyCounter',) and w['how'] == 'guard':
                    ctx.ob('C09.R', f, 'the in-dispatch counter is changed only through CounterGuard (restored during unwinding)', True, key_detail='manual counter')
    # scope-exit objects run on the exception path too. One that hands nodes to the free list is right only if the nodes are EMPTY
    # whenever it can run - but a listener / predicate throwing half-way leaves the rest of the batch FULL: those slots would enter the
    # free list uncleared, and the next enqueue that recycles one overwrites a live event (its arguments are never destroyed)
    from .qcommon import invoke_calls, ADD_METHODS
    for f in tu.fns:
        if f.outermost().skey.split('::')[0] not in ('EventQueueBase', 'HeterEventQueueBase') or f.kind == 'lambda':
            continue
        for bid, blk in f.blocks.items():
            for idx, e in enumerate(blk['elems']):
                if e['k'] != 'autodtor' or not isinstance(e.get('c'), int) or e['c'] >= len(tu.decls):
                    continue
                g = tu.by_id.get((tu.decls[e['c']] or {}).get('fid', -1))
                if g is None:
                    continue
                recycles = [w for w in info.writes(g) if w['path'][-1:] == ('.freeList',) and w['how'].startswith('call:') and w['how'][5:].split('::')[-1] in ADD_METHODS]
                if not recycles:
                    continue
                vd = f.var_decls().get(e.get('var'))
                born = f.pos(vd['stmt']) if vd and vd.get('stmt') else None
                user = [n for n in invoke_calls(info, f) if born and f.pos_reaches(born, f.pos(n))]
                ctx.ob('C09.R', f, 'no scope-exit object recycles nodes while user code can still throw with the batch half processed', not user,
                       detail='`%s` (destructor %s) moves nodes into freeList on every exit; user code at %s runs during its lifetime: on an '
                              'exception the slots that were not yet cleared enter the free list FULL' % (e.get('name'), g.skey, ', '.join(f.nloc(n) for n in user[:2])),
                       key_detail='recycle on unwind')
    for f in tu.fns:
        if f.skey in TRAVERSAL_FNS:
            ws = [w for w in mut.observable_writes(f)]
            ctx.ob('C09.R', f, 'traversal / dispatch writes no container state (an escaping exception leaves the lists as the callbacks left them)',
                   not ws, detail='; '.join('%s at %s' % (w[2], f.nloc(w[1])) for w in ws[:3]), key_detail='traversal writes')


def check_copy(ctx, tu, info):
    for f in tu.fns:
        if f.skey == 'CallbackListBase::CallbackListBase' and f.d.get('ctor') == 'copy':
            ctx.ob('C09.D', f, 'the node-building copy constructor delegates to a complete constructor first '
                               '(if cloning throws, the destructor runs and breaks the node cycles)', bool(f.d.get('delegating')))
        if f.skey in ('CallbackListBase::operator=', 'HeterCallbackListBase::operator=') and f.d.get('assign') == 'copy':
            # copy-and-swap: a local constructed from `other`, then swap(*this, local); no other observable write
            locals_from_other = []
            op = f.params[0]['id'] if f.params else None
            for vid, vd in f.var_decls().items():
                init = vd.get('init')
                if init and f.is_construct(f.strip(init)):
                    a = f.nodes[f.strip(init)].get('args', [])
                    if len(a) == 1 and root_var_id(path(f, a[0])) == op:
                        locals_from_other.append(vid)
            swaps = [n for n in f.calls() if (f.callee(n) or {}).get('name') == 'swap']
            ok = len(locals_from_other) == 1 and len(swaps) == 1
            if ok:
                sp = [path(f, a) for a in f.call_args(swaps[0])]
                ok = any(root_var_id(p) == locals_from_other[0] for p in sp)
                vpos = f.pos(f.var_decls()[locals_from_other[0]]['stmt'])
                ok = ok and f.pos_dominates(vpos, f.pos(swaps[0]))
            other_w = [w for w in info.writes(f) if w['path'][0] == 'this' and len(w['path']) > 1 and w['how'] in ('assign', 'call:reset', 'call:clear')]
            ctx.ob('C09.D', f, 'copy assignment is copy-and-swap (the copy is complete before *this changes)', ok and not other_w,
                   detail='copies: %d, swaps: %d, direct member writes: %d' % (len(locals_from_other), len(swaps), len(other_w)))


def check_placement(ctx, tu, info, rule):
    for f in tu.fns:
        if f.cls.split('::')[0] in SLOT_CLASSES and f.name == 'set':
            news = [n for n, o in f.nodes.items() if o['cls'] == 'CXXNewExpr' and o.get('placement')]
            pubs = [w for w in info.writes(f) if w['path'] == ('this', '.dtor') and w['how'] == 'assign']
            ok = len(news) == 1 and len(pubs) == 1 and f.pos_dominates(f.pos(news[0]), pubs[0]['pos']) and f.pos(news[0]) != pubs[0]['pos']
            ctx.ob(rule, f, 'set() constructs the payload before it publishes the destructor pointer', ok,
                   detail='if the payload constructor throws after `dtor` was set, the slot destructor destroys a payload that was never built',
                   key_detail='placement before dtor')
        # AnyData: the destructor frees the payload whenever `functions` is set. The payload is built in the constructor body after
        # `functions` was initialised - harmless only because a constructor that throws does not run its own destructor. That stops being
        # true once the constructor delegates: after the target constructor returned the object counts as constructed, and a throwing
        # payload constructor runs ~AnyData on a buffer that holds no object.
        if f.cls == 'AnyData' and f.kind == 'ctor':
            news = [n for n, o in f.nodes.items() if o['cls'] == 'CXXNewExpr' and o.get('placement')]
            faulty = [n for n in f.calls() if (f.callee(n) or {}).get('name') == 'moveConstruct'] + news
            if not faulty:
                continue
            unsafe = False
            if f.d.get('delegating'):
                unsafe = True
                for i in f.d.get('inits', []):
                    if i.get('kind') == 'delegating' and i.get('n'):
                        x = f.strip_all_casts(i['n'])
                        g = tu.by_id.get((f.callee(x) or {}).get('fid', -1)) if f.is_construct(x) else None
                        if g is not None:
                            for gi in g.d.get('inits', []):
                                if gi.get('member') == 'functions' and gi.get('n'):
                                    y = g.strip_all_casts(gi['n'])
                                    if g.nodes[y]['cls'] in ('CXXNullPtrLiteralExpr', 'ImplicitValueInitExpr', 'GNUNullExpr') or g.nodes[y].get('value') == 0:
                                        unsafe = False      # the target leaves the object empty: ~AnyData does nothing
            ctx.ob(rule, f, 'the payload is not built after a delegated-to constructor already published the function table', not unsafe,
                   detail='the delegated-to constructor completes the object (functions set); if building the payload at %s then throws, '
                          '~AnyData destroys a payload that was never built' % f.nloc(faulty[0]), key_detail='payload built after delegation')
