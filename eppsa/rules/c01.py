"""C01 — CallbackList invokes exactly the current callbacks, once each, in list order.

  S  link routines realise the sequence edit (A12, eppsa/shape.py): the pointer program extracted from append / prepend /
     insert / remove / ownsHandle (with the helpers they call) is evaluated on every alias configuration - lists of length
     0..N, operand at every position, handle of a removed-but-alive node, expired handle, handle of a foreign list - and
     must yield a well-formed list realising the specified edit; remove returns true exactly when it unlinked a node and a
     removed node keeps its own links and carries the removed mark
  T  traversal idiom of doForEachIf and the GCC-4 operator(): cursor from head, loop while non-null, exactly one advance
     per iteration, the visitor runs exactly when live && generation <= captured, and the loop is left only when the cursor
     is null or after the visitor ran (its false result)
  A  argument passing: callbacks receive the invocation's parameters as lvalues; nothing is consumed in the per-callback code
  H  helpers describe the same content: empty() is !head; forEach/forEachIf pass Handle(node) and node->callback and
     forEach never stops early; the eventutil helpers touch the list only through forEachIf / remove
"""
from .. import witness, extract
import os
from ..facts import AnalysisBroken, short
from ..paths import path, pstr, last_field, root_var_id, fields_in
from ..moves import MoveAnalysis
from .. import formula as F
from .. import shape as S
from .qcommon import TUInfo
from . import listrules as L

EXPLANATION = ('C01: the link-editing pointer programs are evaluated on every alias configuration of short lists (operand at every position, removed / '
               'expired / foreign handles) against the sequence-edit specification and list well-formedness; traversal idiom and loop exits; '
               'lvalue argument passing; helper functions restricted to the traversal and remove.')
ASSUMPTIONS = ['arbitrary-length histories compose by the per-operation invariant (well-formed list + exact sequence edit), which is not mechanised',
               'the shape evaluation is bounded (list length <= 4 quick / 6 thorough); the routines dereference at most one link away from their operands and the ends, so longer lists add only untouched frame cells']
UNITS = ['w_callbacklist.cpp', 'w_dispatcher.cpp']

OPS = ('append', 'prepend', 'insert', 'remove', 'ownsHandle')


def check(ctx):
    ctx.rule('C01.S', 'link routines realise the sequence edit on every alias configuration')
    ctx.rule('C01.T', 'traversal idiom and loop exits')
    ctx.rule('C01.A', 'callbacks receive the invocation parameters as lvalues')
    ctx.rule('C01.H', 'helpers describe the same content')
    maxlen = 6 if ctx.tier == 'thorough' else 4
    ncfg = 0
    for tu in ctx.tus:
        info = TUInfo(tu)
        ncfg += check_shape(ctx, tu, maxlen)
        # a copied list is a callback list too: its initial shape must be the well-formed image of its source
        from .c10 import check_clone_shape
        check_clone_shape(ctx, tu, maxlen, rule='C01.S')
        n = L.check_traversal(ctx, 'C01.T', tu, info)
        check_loop_exits(ctx, tu)
        check_args(ctx, tu)
        check_helpers(ctx, tu)
        L.check_invoked_in_place(ctx, tu, 'C01.A', lambda o: o.cls == 'CallbackListBase' or o.file.endswith('eventutil.h'))
    ctx.extra['alias_configurations_evaluated'] = ncfg
    ctx.extra['max_list_length'] = maxlen
    ctx.require(ncfg >= 100, 'C01.S: fewer than 100 configurations evaluated (%d)' % ncfg)
    witness.check_static_unit(ctx, 'C01.H', os.path.join(extract.VERIF, 'witness', 's_meta.cpp'), 'callable detection used by forEach / forEachIf', tag='C01')
    ctx.require_min('C01.S', 5)
    ctx.require_min('C01.T', 2)
    ctx.require_min('C01.A', 1)
    ctx.require_min('C01.H', 5)


# ------------------------------------------------------------------------------------------------
def check_shape(ctx, tu, maxlen, rule='C01.S', only_laws=None):
    by_cls = {}
    for f in tu.fns:
        if f.cls == 'CallbackListBase' and f.name in OPS and f.kind == 'method':
            by_cls.setdefault(f.clsq, {})[f.name] = f
    total = 0
    done = 0
    for clsq, fs in sorted(by_cls.items()):
        need = OPS if only_laws is None else ('append', 'prepend', 'insert')
        if not all(k in fs for k in need):
            continue
        if done >= 3:
            break       # three instantiations per unit are enough: the routines do not depend on the policies
        done += 1
        total += shape_instance(ctx, tu, fs, maxlen, rule, only_laws)
    return total


def names(seq):
    return [x.name for x in seq] if not isinstance(seq, str) else seq


def shape_instance(ctx, tu, fs, maxlen, rule='C01.S', only_laws=None):
    pp = S.PointerProgram(tu)
    fails = {}    # (op, law) -> description
    count = [0]
    CB = object()

    def run(op, L, *args):
        count[0] += 1
        return pp.call(fs[op], L, list(args))

    def expect(op, law, cond, desc):
        if not cond and (op, law) not in fails:
            fails[(op, law)] = desc

    def snapshot(nodes):
        return {id(n): (n.previous, n.next, n.counter) for n in nodes}

    try:
        for n in range(0, maxlen + 1):
            # append / prepend
            L_, nodes = S.build_list(n)
            h = run('append', L_, CB)
            seq = S.sequence(L_)
            new = L_.fresh[-1] if L_.fresh else None
            expect('append', 'sequence', not isinstance(seq, str) and seq == nodes + [new], 'length %d: got %s' % (n, names(seq)))
            expect('append', 'well-formed', S.well_formed(L_) is None, 'length %d: %s' % (n, S.well_formed(L_)))
            expect('append', 'handle', isinstance(h, S.Handle) and h.node is new, 'length %d: returned handle does not denote the new node' % n)
            L_, nodes = S.build_list(n)
            h = run('prepend', L_, CB)
            seq = S.sequence(L_)
            new = L_.fresh[-1] if L_.fresh else None
            expect('prepend', 'sequence', not isinstance(seq, str) and seq == [new] + nodes, 'length %d: got %s' % (n, names(seq)))
            expect('prepend', 'well-formed', S.well_formed(L_) is None, 'length %d: %s' % (n, S.well_formed(L_)))
            expect('prepend', 'handle', isinstance(h, S.Handle) and h.node is new, 'length %d' % n)
            # insert before every position
            for i in range(n):
                L_, nodes = S.build_list(n)
                h = run('insert', L_, CB, S.Handle(nodes[i]))
                seq = S.sequence(L_)
                new = L_.fresh[-1] if L_.fresh else None
                expect('insert', 'sequence', not isinstance(seq, str) and seq == nodes[:i] + [new] + nodes[i:],
                       'length %d before position %d: got %s' % (n, i, names(seq)))
                expect('insert', 'well-formed', S.well_formed(L_) is None, 'length %d before %d: %s' % (n, i, S.well_formed(L_)))
                expect('insert', 'handle', isinstance(h, S.Handle) and h.node is new, 'length %d before %d' % (n, i))
            # insert before an expired handle -> back
            L_, nodes = S.build_list(n)
            run('insert', L_, CB, S.Handle(None))
            seq = S.sequence(L_)
            new = L_.fresh[-1] if L_.fresh else None
            expect('insert', 'expired handle appends', not isinstance(seq, str) and seq == nodes + [new] and S.well_formed(L_) is None,
                   'length %d: got %s' % (n, names(seq)))
            if only_laws is not None and ('remove' not in fs or 'ownsHandle' not in fs):
                continue
            # remove at every position, then everything again through the handle of the removed (still alive) node
            for i in range(n):
                L_, nodes = S.build_list(n)
                before = snapshot(nodes)
                hd = S.Handle(nodes[i])
                r = run('remove', L_, hd)
                seq = S.sequence(L_)
                rest = nodes[:i] + nodes[i + 1:]
                expect('remove', 'result', r is True, 'length %d position %d: returned %s for a callback that is in the list' % (n, i, r))
                expect('remove', 'sequence', not isinstance(seq, str) and seq == rest, 'length %d position %d: got %s' % (n, i, names(seq)))
                expect('remove', 'well-formed', S.well_formed(L_) is None, 'length %d position %d: %s' % (n, i, S.well_formed(L_)))
                expect('remove', 'marks the node', nodes[i].counter == S.REMOVED, 'length %d position %d: counter %s' % (n, i, nodes[i].counter))
                expect('remove', 'keeps the removed node\'s own links', (nodes[i].previous, nodes[i].next) == before[id(nodes[i])][:2],
                       'length %d position %d: links of the removed node were changed (a traversal standing on it loses its way)' % (n, i))
                refs = [x for x in rest if x.previous is nodes[i] or x.next is nodes[i]]
                expect('remove', 'nothing live references the removed node', not refs and L_.head is not nodes[i] and L_.tail is not nodes[i],
                       'length %d position %d' % (n, i))
                # inert afterwards
                r2 = run('remove', L_, hd)
                seq2 = S.sequence(L_)
                expect('remove', 'second remove through the same handle is inert', r2 is False and seq2 == rest and S.well_formed(L_) is None,
                       'length %d position %d: returned %s, list %s' % (n, i, r2, names(seq2)))
                o = run('ownsHandle', L_, hd)
                expect('ownsHandle', 'removed handle', o is False, 'length %d position %d: ownsHandle of a removed callback is %s' % (n, i, o))
                run('insert', L_, CB, hd)
                seq3 = S.sequence(L_)
                new = L_.fresh[-1] if L_.fresh else None
                expect('insert', 'removed handle appends', not isinstance(seq3, str) and seq3 == rest + [new] and S.well_formed(L_) is None,
                       'length %d, before the removed callback formerly at %d: got %s (%s)' % (n, i, names(seq3), S.well_formed(L_)))
            # remove through an expired handle
            L_, nodes = S.build_list(n)
            r = run('remove', L_, S.Handle(None))
            expect('remove', 'expired handle', r is False and S.sequence(L_) == nodes and S.well_formed(L_) is None, 'length %d: returned %s' % (n, r))
            # ownsHandle
            for i in range(n):
                L_, nodes = S.build_list(n)
                o = run('ownsHandle', L_, S.Handle(nodes[i]))
                expect('ownsHandle', 'member', o is True, 'length %d position %d: %s' % (n, i, o))
                other, onodes = S.build_list(max(n, 1))
                o = run('ownsHandle', L_, S.Handle(onodes[0]))
                expect('ownsHandle', 'foreign handle', o is False, 'length %d: handle of another list reported as owned' % n)
            L_, nodes = S.build_list(n)
            o = run('ownsHandle', L_, S.Handle(None))
            expect('ownsHandle', 'expired handle', o is False, 'length %d' % n)
    except S.Unsupported as e:
        ctx.broken_later(rule + ': the link routines use a construct outside the pointer-program fragment: %s' % e)
    except S.NullDeref as e:
        fails[('(any)', 'no null dereference')] = str(e)
    laws = [('append', 'sequence'), ('append', 'well-formed'), ('append', 'handle'), ('prepend', 'sequence'), ('prepend', 'well-formed'),
            ('prepend', 'handle'), ('insert', 'sequence'), ('insert', 'well-formed'), ('insert', 'handle'), ('insert', 'expired handle appends'),
            ('insert', 'removed handle appends'), ('remove', 'result'), ('remove', 'sequence'), ('remove', 'well-formed'), ('remove', 'marks the node'),
            ('remove', 'keeps the removed node\'s own links'), ('remove', 'nothing live references the removed node'),
            ('remove', 'second remove through the same handle is inert'), ('remove', 'expired handle'), ('ownsHandle', 'member'),
            ('ownsHandle', 'foreign handle'), ('ownsHandle', 'removed handle'), ('ownsHandle', 'expired handle')]
    for (op, law) in laws:
        if only_laws is not None and law not in only_laws:
            continue
        if op not in fs:
            continue
        f = fs[op]
        ctx.ob(rule, f, '%s: %s (all configurations up to length %d)' % (op, law, maxlen), (op, law) not in fails,
               detail='fails for %s' % fails.get((op, law)), key_detail='%s %s' % (op, law))
    if ('(any)', 'no null dereference') in fails:
        ctx.ob(rule, fs['append'], 'no link routine dereferences a null pointer', False, detail=fails[('(any)', 'no null dereference')],
               key_detail='null dereference')
    return count[0]


# ------------------------------------------------------------------------------------------------
def check_loop_exits(ctx, tu, rule='C01.T'):
    """The traversal leaves its loop only through the null test of the cursor or after the visitor ran in that iteration."""
    for f in tu.fns:
        if f.skey not in L.TRAVERSALS:
            continue
        loops = [b for b in f.blocks if f.block_reaches(b, b)]
        if not loops:
            continue
        cursors = [(vid, vd) for vid, vd in f.var_decls().items() if L.is_node_ptr_type(tu, vd['t'])]
        if len(cursors) != 1:
            continue
        cname = cursors[0][1]['name']
        cid = cursors[0][0]
        invokes = []
        for n in f.calls():
            o = f.nodes[n]
            if o['cls'] == 'CXXOperatorCallExpr' and o.get('op') == '()':
                objp = path(f, o['obj']) if o.get('obj') else ()
                argps = [path(f, a) for a in f.call_args(n)]
                if ('v:%s#%d' % (cname, cid),) in argps or (objp and root_var_id(objp) == cid):
                    invokes.append(n)
        if len(invokes) != 1:
            continue
        ipos = f.pos(invokes[0])
        bad = []
        inloop = set(loops)
        for b in loops:
            for s in f.succs(b):
                if s in inloop:
                    continue
                blk = f.blocks[b]
                c = blk.get('cond')
                r = L.nonnull_test(f, c, cname) if c else None
                if r and blk['succ'][1 if r == 'true' else 0] == s:
                    continue     # the edge taken when the cursor is null (`while(node)` false edge, `if(! node) break` true edge)
                if b == ipos[0] or ipos[0] in f.dom()[b]:
                    # reached only after the visitor ran; but it must be *this iteration's* visit: the path from the loop test to b passes the invocation
                    continue
                bad.append(f.nloc(c) if c else 'block %d' % b)
        ctx.ob(rule, f, 'the traversal stops only at the end of the list or when the visitor asks to stop', not bad,
               detail='the loop can be left at %s before the end of the list without the visitor having returned false: callbacks behind '
                      'that point are not invoked' % ', '.join(bad), key_detail='loop exits')


def check_args(ctx, tu):
    ma = MoveAnalysis(tu)
    for f in tu.fns:
        o = f.outermost()
        if o.skey != 'CallbackListBase::operator()':
            continue
        vs, _ = ma.violations(f)
        sites = ma.consuming_sites(f)
        ctx.ob('C01.A', f, 'the per-callback code never consumes (moves from) the invocation\'s parameters', not sites and not vs,
               detail='\n'.join(['%s is consumed at %s (%s)' % (s['name'], f.nloc(s['consumer']), s['how']) for s in sites][:3]),
               key_detail='consumes parameter')


def check_helpers(ctx, tu):
    for f in tu.fns_named('CallbackListBase::empty'):
        try:
            fm = F.formula(f, inline=False)
            ok, _ = F.equivalent(fm, ('not', ('atom', 'head')))
        except F.Unsupported:
            ok = False
        ctx.ob('C01.H', f, 'empty() is exactly "head is null"', ok)
    for f in tu.fns_named('CallbackListBase::operator bool'):
        try:
            fm = F.formula(f, inline=True)
            ok, _ = F.equivalent(fm, ('atom', 'head'))
        except F.Unsupported:
            ok = False
        ctx.ob('C01.H', f, 'operator bool is !empty()', ok)
    for nm in ('forEach', 'forEachIf'):
        for f in tu.fns_named('CallbackListBase::' + nm):
            calls = [n for n in f.calls() if (f.callee_key(n) or '') == 'CallbackListBase::doForEachIf']
            # the per-node visitor handed to doForEachIf: a lambda, or a named functor of the library
            lam = f.functor_body(f.call_args(calls[0])[0]) if len(calls) == 1 and f.call_args(calls[0]) else None
            ok = lam is not None and len(calls) == 1
            if ok:
                inv = [n for n in lam.calls() if (lam.callee_key(n) or '') == 'CallbackListBase::doForEachInvoke']
                rets = lam.return_nodes()
                ok = len(inv) == 1 and len(rets) == 1
                if ok:
                    v = lam.strip_all_casts(lam.kids(rets[0])[0])
                    if nm == 'forEach':
                        ok = lam.nodes[v]['cls'] == 'CXXBoolLiteralExpr' and lam.nodes[v].get('value') is True and lam.pos_dominates(lam.pos(inv[0]), lam.pos(rets[0]))
                    else:
                        ok = v == inv[0]
                    # the node handed on is the traversal's node parameter
                    a = lam.call_args(inv[0])
                    ok = ok and len(a) == 2 and root_var_id(path(lam, a[1])) == lam.params[0]['id']
                if nm == 'forEachIf' and ok:
                    r = f.return_nodes()
                    ok = len(r) == 1 and f.value_source(f.kids(r[0])[0]) == calls[0]
            ctx.ob('C01.H', f, '%s visits through doForEachIf and %s' % (nm, 'never stops early' if nm == 'forEach' else 'returns the visitor\'s verdict'), ok)
    for f in tu.fns_named('CallbackListBase::doForEachInvoke'):
        calls = [n for n in f.calls() if f.nodes[n].get('op') == '()' or f.nodes[n].get('c', 0) == -1]
        ok = len(calls) == 1
        if ok:
            node_p = f.params[1]['id']
            args = f.call_args(calls[0])
            srcs = []
            for a in args:
                x = f.value_source(a)
                xs = [x] + f.descendants(x)
                ids = {f.decl(d)['id'] for d in xs if f.nodes[d]['cls'] == 'DeclRefExpr' and f.decl(d)['kind'] == 'parm'}
                srcs.append(ids == {node_p})
            cbp = path(f, f.value_source(args[-1])) if args else ()
            ok = all(srcs) and len(args) in (1, 2) and cbp[-1:] == ('.callback',)
            rets = f.return_nodes()
            ok = ok and len(rets) == 1 and f.strip_all_casts(f.kids(rets[0])[0]) == calls[0]
        ctx.ob('C01.H', f, 'the visitor receives the node\'s own handle and callback and its result is returned', ok)
    # eventutil helpers
    for f in tu.fns:
        if not f.file.endswith('eventutil.h'):
            continue
        allowed = ('forEachIf', 'removeListener', 'remove', 'operator()', 'operator==')
        bad = []
        for n in f.calls():
            cal = f.callee(n)
            if cal and cal.get('lib') and cal['name'] not in allowed and not cal.get('lambdaop'):
                if any(leaf_setter(h) is not None for h in f.callee_fns(n)):
                    continue      # `found = true; return false;` behind a free helper that touches nothing but its reference parameter
                bad.append('%s at %s' % (short(cal['key']), f.nloc(n)))
        ctx.ob('C01.H', f, 'the eventutil helper reaches the list only through forEachIf / remove', not bad, detail=', '.join(bad), key_detail='helper callees')
        if f.kind == 'lambda' and f.parent_fn() is not None and f.parent_fn().name in ('removeListener', 'hasListener', 'hasAnyListener'):
            check_util_visitor(ctx, tu, f)


def leaf_setter(h):
    """h is a free helper of the library without calls of its own whose only effects are assignments of literals to its reference
    parameters: {parameter index: literal value}; None otherwise."""
    from ..effects import writes as _writes
    if h.kind != 'free' or h.body is None or h.calls() or any(h.block_reaches(b, b) for b in h.blocks):
        return None
    out = {}
    pidx = {'v:%s#%d' % (pp['name'], pp['id']): i for i, pp in enumerate(h.params) if pp.get('pass') == 'lref'}
    for w in _writes(h):
        if w['how'] != 'assign' or len(w['path']) != 1 or w['path'][0] not in pidx or w.get('rhs') is None:
            return None
        v = h.nodes[h.strip_all_casts(w['rhs'])].get('value')
        if v is None or not h.pos_postdominates(w['pos'], (h.entry, 0)):
            return None
        out[pidx[w['path'][0]]] = v
    return out or None


def check_util_visitor(ctx, tu, f):
    """The visitor lambdas of the eventutil helpers, stated as what the helper's result needs (not as a frozen shape):
      hasAnyListener   found := true on every visit (whether the visitor then stops is only a matter of speed)
      hasListener      found := true only where `item == listener` held; the visitor keeps going while there was no match
      removeListener   as hasListener, plus: on a match the visited handle is removed and the enumeration stops (the helper is documented to
                       remove the first match only); found may be `true` or the result of that removal (a visited handle is in the list)"""
    from ..effects import writes as _writes
    par = f.parent_fn()
    try:
        fm = F.formula(f, inline=False)
    except F.Unsupported:
        fm = None
    ats = F.atoms(fm) if fm else []
    match = [a for a in ats if '==' in a]
    # blocks whose condition is the match test
    match_blocks = []
    for bid, blk in f.blocks.items():
        c = blk.get('cond')
        if c and len(blk['succ']) == 2:
            try:
                cf = F.boolexpr(f, c, {}, False)
            except F.Unsupported:
                continue
            if cf[0] == 'atom' and '==' in cf[1]:
                match_blocks.append(bid)

    def on_match_edge(pos):
        return any(L.edge_dominates(f, b, 'true', pos) for b in match_blocks)
    rm = [n for n in f.calls() if (f.callee(n) or {}).get('name') in ('remove', 'removeListener')]
    ws = [w for w in _writes(f) if w['how'] == 'assign' and 'found' in pstr(w['path'])]
    via_helper = False
    for n in f.calls():
        for h in f.callee_fns(n):
            ls = leaf_setter(h)
            if ls:
                for i, v in ls.items():
                    a = f.call_args(n)
                    if i < len(a) and 'found' in pstr(path(f, a[i])):
                        ws.append({'how': 'assign', 'path': path(f, a[i]), 'pos': f.pos(n), 'node': n, 'rhs': None, 'lit': v})
                        via_helper = True
    if via_helper:
        try:
            fm = F.formula(f, inline=True)      # the helper's constant result is part of the visitor's result
            ats = F.atoms(fm)
            match = [a for a in ats if '==' in a]
        except F.Unsupported:
            pass

    def rhs_ok(w):
        if w.get('rhs') is None:
            return w.get('lit') is True
        r = f.strip_all_casts(w['rhs'])
        if f.nodes[r].get('value') is True:
            return True
        return par.name == 'removeListener' and len(rm) == 1 and f.value_source(r) == rm[0]
    if par.name == 'hasAnyListener':
        okf = len(ws) >= 1 and all(rhs_ok(w) for w in ws) and any(f.pos_postdominates(w['pos'], (f.entry, 0)) for w in ws)
        ctx.ob('C01.H', f, 'every visit records that a listener exists', okf, key_detail='helper found flag')
        return
    okf = len(ws) >= 1 and all(rhs_ok(w) and on_match_edge(w['pos']) for w in ws)
    ctx.ob('C01.H', f, '`found` is set only where the visited callback equals the one searched for (to true, or to the result of removing it)', okf,
           key_detail='helper found flag')
    # visitor result: atoms other than the match test (e.g. `found`) equal the match test at the return (found is written on the match edge only)
    ok = fm is not None and len(match) == 1
    if ok:
        others = [a for a in ats if a != match[0]]
        ok = all('found' in a for a in others)
        if ok:
            for mval in (False, True):
                env = {match[0]: mval}
                for a in others:
                    env[a] = mval
                val = F.evaluate(fm, env) if hasattr(F, 'evaluate') else None
                if val is None:
                    ok = False
                    break
                if not mval and val is not True:
                    ok = False      # no match: the enumeration must go on
                if mval and par.name == 'removeListener' and val is not False:
                    ok = False      # first match removed: stop (only the first match is removed)
    what = 'the visitor continues while there is no match' + (' and stops once the match was removed' if par.name == 'removeListener' else '')
    ctx.ob('C01.H', f, what, ok, detail=F.show(fm) if fm else 'formula not extractable', key_detail='helper visitor result')
    if par.name == 'removeListener':
        okr = len(rm) == 1 and on_match_edge(f.pos(rm[0]))
        if okr:
            hp = f.params[0]['id']
            okr = any(root_var_id(path(f, f.value_source(a))) == hp for a in f.call_args(rm[0]))
        ctx.ob('C01.H', f, 'removeListener removes the visited handle, and only where the callback matched', bool(okr), key_detail='helper removes handle')
