"""C15 — No listener added through a ScopedRemover outlives its remover (both specialisations).

  P1 release before overwrite: outside constructors, a write that replaces itemList or the target pointer is dominated by
     reset() on *this (or is a swap with another remover, which keeps both sets of responsibilities alive)
  P2 the destructor calls reset(); reset() removes every recorded item from the target (walk over itemList) before it clears
     the record
  P3 recording: each add function records, on every normal path, the handle returned by the target's matching add call,
     under the record mutex, and returns it; remove* erases the record first and touches the target only when it was recorded
  P4 move construction takes both fields and ends with the source holding no responsibilities; swap exchanges both fields
"""
from ..facts import AnalysisBroken, short
from ..paths import path, pstr, last_field, root_var_id, fields_in
from ..locks import mutex_name
from .qcommon import TUInfo
from .. import formula as F

EXPLANATION = 'C15: typestate of the remover (reset before overwrite), destructor/reset walk, recording of the returned handle under the mutex, move/swap field completeness.'
ASSUMPTIONS = ['histories follow from the per-method invariant "recorded items include everything attached through this remover"']
UNITS = ['w_utils.cpp']

TARGET_FIELDS = ('dispatcher', 'callbackList')
ADDS = {'appendListener': 'appendListener', 'prependListener': 'prependListener', 'insertListener': 'insertListener',
        'append': 'append', 'prepend': 'prepend', 'insert': 'insert'}
REMOVES = {'removeListener': 'removeListener', 'remove': 'remove'}


def argpath(f, a):
    """Path of an argument, looking through the copy/move construction of a by-value parameter."""
    a = f.strip_all_casts(a)
    while f.is_construct(a) and len(f.nodes[a].get('args', [])) == 1 and (f.callee(a) or {}).get('ctor') in ('copy', 'move'):
        a = f.strip_all_casts(f.nodes[a]['args'][0])
    return path(f, a, resolve_refs=False)


def is_sr(f):
    return f.outermost().skey.startswith('ScopedRemover::')


def reset_calls(f):
    return [n for n in f.calls() if (f.callee_key(n) or '') == 'ScopedRemover::reset']


def for_each_walks(f, listroot_pred):
    """std::for_each(L.begin(), L.end(), callable) in f whose callable (lambda or functor) calls the target's remove with its own
    parameter's fields, for a list L satisfying listroot_pred: [(for_each call node, path of L)]."""
    out = []
    for n in f.calls():
        if (f.callee_key(n) or '') != 'std::for_each':
            continue
        a = f.call_args(n)
        if len(a) != 3:
            continue
        ends = []
        for want, x in zip((('begin', 'cbegin'), ('end', 'cend')), a[:2]):
            v = f.value_source(x)
            while f.is_construct(v) and len(f.nodes[v].get('args', [])) == 1:
                v = f.value_source(f.nodes[v]['args'][0])
            if f.is_call(v) and (f.callee(v) or {}).get('name') in want and f.call_obj(v):
                ends.append(path(f, f.call_obj(v), resolve_refs=False))
        if len(ends) != 2 or ends[0] != ends[1] or not listroot_pred(ends[0]):
            continue
        g = f.functor_body(a[2])
        if g is None or len(g.params) != 1:
            continue
        rem = [m for m in g.calls() if (g.callee(m) or {}).get('name') in ('removeListener', 'remove') and g.call_obj(m)
               and last_field(path(g, g.call_obj(m))) in TARGET_FIELDS and path(g, g.call_obj(m))[0] == 'this']
        if len(rem) != 1 or not g.pos_postdominates(g.pos(rem[0]), (g.entry, 0)):
            continue
        roots = {root_var_id(argpath(g, x)) for x in g.call_args(rem[0])}
        if roots == {g.params[0]['id']}:
            out.append((n, ends[0]))
    return out


def walk_over(f, listroot_pred):
    """Loops in f that call the target's remove for the elements of a list satisfying listroot_pred(path of the range):
    returns [(remove call node, range path)]."""
    out = []
    removes = [n for n in f.calls() if (f.callee(n) or {}).get('name') in ('removeListener', 'remove') and f.call_obj(n)
               and last_field(path(f, f.call_obj(n))) in TARGET_FIELDS and path(f, f.call_obj(n))[0] == 'this']
    out += for_each_walks(f, listroot_pred)
    for n in removes:
        if not f.block_reaches(f.pos(n)[0], f.pos(n)[0]):
            continue
        # the loop's range
        rng = [vd for vd in f.var_decls().values() if vd['name'].startswith('__range') and vd.get('init')]
        args = f.call_args(n)
        roots = {argpath(f, a)[0] for a in args}
        if len(roots) != 1 or not list(roots)[0].startswith('v:'):
            continue
        for vd in rng:
            rp = path(f, vd['init'], resolve_refs=False)
            if listroot_pred(rp):
                # the element variable is bound to *__begin of that range: accept when there is exactly one range loop
                out.append((n, rp))
        if not rng:
            # the same loop written with iterators: a local initialised from <list>.begin() / cbegin()
            for vd in f.var_decls().values():
                init = vd.get('init')
                x = f.value_source(init) if init else None
                if x is not None and f.is_call(x) and (f.callee(x) or {}).get('name') in ('begin', 'cbegin') and f.call_obj(x):
                    rp = path(f, f.call_obj(x), resolve_refs=False)
                    if listroot_pred(rp):
                        out.append((n, rp))
                        break
    return out


def taken_locals(f, info):
    """Locals of f that received the recorded items from this.itemList (swap / move) while starting empty: {var id: position}."""
    out = {}
    for vid, vd in f.var_decls().items():
        t = f.tu.tstr(vd['t'])
        if 'std::vector<' not in t or 'Item' not in t:
            continue
        init = vd.get('init')
        if init:
            src = f.strip_all_casts(init)
            if f.is_construct(src):
                a = [x for x in f.nodes[src].get('args', []) if f.nodes[x]['cls'] != 'CXXDefaultArgExpr']
                if len(a) == 1 and path(f, a[0]) == ('this', '.itemList') and (f.callee(src) or {}).get('ctor') == 'move':
                    out[vid] = f.pos(vd['stmt'])
                    continue
                if a:
                    continue
        root = ('v:%s#%d' % (vd['name'], vid),)
        for w in info.writes(f):
            if w['how'] in ('call:swap',) and w['path'] in (root, ('this', '.itemList')):
                ops = [path(f, x) for x in ([f.call_obj(w['node'])] if f.call_obj(w['node']) else []) + f.call_args(w['node'])]
                if root in ops and ('this', '.itemList') in ops:
                    out[vid] = w['pos']
            elif w['how'].startswith('arg:') and w['how'].endswith('swap'):
                ops = [path(f, x) for x in f.call_args(w['node'])]
                if root in ops and ('this', '.itemList') in ops:
                    out[vid] = w['pos']
            elif w['how'] == 'assign' and w['path'] == root and w.get('rhs') and path(f, w['rhs']) == ('this', '.itemList'):
                out[vid] = w['pos']
    return out


def detach_sites(tu, info, f, depth=0):
    """Positions in f after which everything recorded so far has been detached from the *current* target:
    reset() on *this, an inline walk over itemList / a local that took the items, or a helper that walks such a list."""
    sites = []
    for n in reset_calls(f):
        obj = f.nodes[n].get('obj')
        if obj is None or path(f, obj) == ('this',):
            sites.append(f.pos(n))
    taken = taken_locals(f, info)

    def is_items(rp):
        if rp == ('this', '.itemList'):
            return True
        vid = root_var_id(rp)
        return len(rp) == 1 and vid in taken
    for (n, rp) in walk_over(f, is_items):
        sites.append(f.pos(n))
    if depth < 2:
        for n in f.calls():
            for g in f.callee_fns(n):
                if g.cls != 'ScopedRemover' or g.name == 'reset' or g.id == f.id:
                    continue
                # helper receiving the taken list by reference and walking it
                for prm, a in zip(g.params, f.call_args(n)):
                    ap = path(f, a)
                    if is_items(ap):
                        pid = prm['id']
                        if walk_over(g, lambda rp, pid=pid: len(rp) == 1 and root_var_id(rp) == pid):
                            sites.append(f.pos(n))
    return sites


def check(ctx):
    ctx.rule('C15.P1', 'reset() dominates every overwrite of the record or the target')
    ctx.rule('C15.P2', 'destructor resets; reset detaches every recorded listener before clearing')
    ctx.rule('C15.P3', 'add functions record the returned handle under the mutex; remove erases the record first')
    ctx.rule('C15.P4', 'move construction transfers both fields and empties the source; swap exchanges both')
    ctx.rule('C15.P5', 'append/prepend/insert of the target list return a handle to the node they linked (every list shape up to length 3)')
    for tu in ctx.tus:
        info = TUInfo(tu)
        for f in tu.fns:
            if not is_sr(f) or f.kind == 'lambda':
                continue
            if f.cls != 'ScopedRemover':
                continue
            check_fn(ctx, tu, info, f)
        # the remover can detach only what the recorded handle denotes: the target's add operations have to hand back a handle to
        # the node they linked (an empty or foreign handle makes the listener unremovable, so it outlives every remover)
        from .c01 import check_shape
        check_shape(ctx, tu, 3, rule='C15.P5', only_laws=('handle',))
    ctx.require_min('C15.P5', 3)
    ctx.require_min('C15.P1', 3)
    ctx.require_min('C15.P2', 2)
    ctx.require_min('C15.P3', 8)
    ctx.require_min('C15.P4', 2)


def this_field_writes(info, f):
    out = []
    for w in info.writes(f):
        p = w['path']
        if p[0] == 'this' and len(p) == 2 and p[1][1:] in TARGET_FIELDS + ('itemList',):
            out.append(w)
    return out


def check_records_kept(ctx, tu, info, f):
    """A record leaves the remover only after its listener was detached. Detaching calls into the target (key hash / comparison of a
    user type, a policy mutex) and may throw; whatever was taken out of itemList *before* the walk (swap / move into a local that is then
    walked) is lost when a removal throws half-way: those listeners stay attached and no remover is responsible for them any more, so
    they outlive the remover. Walking itemList in place and clearing it afterwards keeps the remover responsible (a later reset() or the
    destructor finishes the job)."""
    taken = taken_locals(f, info)
    if not taken:
        return
    walks = walk_over(f, lambda rp: len(rp) == 1 and root_var_id(rp) in taken)
    helper = False
    for n in f.calls():
        for g in f.callee_fns(n):
            if g.cls == 'ScopedRemover' and g.id != f.id:
                for prm, a in zip(g.params, f.call_args(n)):
                    if len(path(f, a)) == 1 and root_var_id(path(f, a)) in taken and \
                            walk_over(g, lambda rp, pid=prm['id']: len(rp) == 1 and root_var_id(rp) == pid):
                        helper = True
    if not walks and not helper:
        return
    if any(o['cls'] in ('CXXTryStmt', 'CXXCatchStmt') for o in f.nodes.values()):
        ctx.broken_later('C15.P2: %s hands the records to a local before detaching and contains a try block - restoring the records on a '
                         'throwing removal is not modelled' % f.pattern())
        return
    ctx.ob('C15.P2', f, 'records stay in the remover until their listeners are detached (a throwing removal must not orphan the rest)', False,
           detail='the records are swapped / moved out of itemList before the walk that detaches them: if a removal throws, the remaining '
                  'listeners stay attached and unrecorded, and outlive the remover', key_detail='records taken before detach')


def check_fn(ctx, tu, info, f):
    name = f.name
    si = info.scopes(f)
    if f.kind == 'ctor':
        if f.d.get('ctor') == 'move':
            inits = {i.get('member'): i for i in f.d.get('inits', []) if i.get('kind') == 'member'}
            other = f.params[0]['id']
            ok = True
            for fld in ('itemList',) + TARGET_FIELDS:
                if fld in inits and fld != 'itemListMutex':
                    n = inits[fld].get('n')
                    p = path(f, n) if n else ()
                    arg = n
                    if n and f.is_construct(f.strip_all_casts(n)):
                        a = f.nodes[f.strip_all_casts(n)].get('args', [])
                        p = path(f, a[0]) if a else ()
                    if not (root_var_id(p) == other and last_field(p) == fld):
                        ok = False
            has_target = any(t in inits for t in TARGET_FIELDS)
            ctx.ob('C15.P4', f, 'move construction takes the target and the record from the source', ok and has_target and 'itemList' in inits)
            # the source ends with no responsibilities: its itemList was moved from (vector move leaves it empty) and/or reset
            moved = False
            if 'itemList' in inits and inits['itemList'].get('n'):
                n = f.strip_all_casts(inits['itemList']['n'])
                moved = f.is_construct(n) and (f.callee(n) or {}).get('ctor') == 'move'
            ctx.ob('C15.P4', f, 'the moved-from remover keeps no record (its vector is moved from)', moved)
        return
    if f.kind == 'dtor':
        rc = reset_calls(f)
        ok = len(rc) >= 1 and any(f.pos_postdominates(f.pos(n), (f.entry, 0)) for n in rc)
        ctx.ob('C15.P2', f, 'the destructor detaches everything through reset() on every path', ok)
        return
    if name == 'swap':
        sw = [w for w in info.writes(f) if w['how'].startswith('arg:') and w['how'].endswith('swap')]
        flds = sorted({w['path'][1][1:] for w in sw if w['path'][0] == 'this' and len(w['path']) == 2})
        other = f.params[0]['id']
        oflds = sorted({last_field(w['path']) for w in sw if root_var_id(w['path']) == other})
        want = sorted(['itemList'] + [t for t in TARGET_FIELDS if any(c['key'].endswith('ScopedRemover') and any(fl['name'] == t for fl in c['fields']) and c['q'] == f.clsq for c in tu.classes)])
        ctx.ob('C15.P4', f, 'swap exchanges the target and the record of both removers', flds == want and oflds == want,
               detail='exchanged %s / %s, expected %s' % (flds, oflds, want))
        # ... on every path: a record that changes hands without its target (or the other way round) is detached from the wrong target,
        # or from none at all when the receiving remover is unbound
        cond = [w for w in sw if not f.pos_postdominates(w['pos'], (f.entry, 0))]
        ctx.ob('C15.P4', f, 'both fields are exchanged unconditionally (record and target always travel together)', not cond,
               detail='exchanged only on some paths: %s' % ', '.join(sorted({pstr(w['path']) + ' at ' + f.nloc(w['node']) for w in cond})),
               key_detail='swap unconditional')
        return
    check_records_kept(ctx, tu, info, f)
    if name == 'reset':
        check_reset(ctx, tu, info, f)
        return
    # P1 for every other method
    ows = [w for w in this_field_writes(info, f) if w['how'] in ('assign', 'call:clear', 'call:erase', 'call:pop_back', 'call:resize')
           or (w['how'].startswith('call:') and w['how'][5:] in ('swap',))]
    rc = reset_calls(f)
    if name not in ADDS and name not in REMOVES:
        sites = detach_sites(tu, info, f)
        taken = taken_locals(f, info)
        for w in ows:
            if w['path'] == ('this', '.itemList') and w['how'] == 'call:swap' and any(w['pos'] == p_ for p_ in taken.values()):
                continue      # handing the record to a local that is then walked (judged at the target overwrite / in P2)
            ok = any(f.pos_dominates(sp, w['pos']) and sp != w['pos'] for sp in sites)
            ctx.ob('C15.P1', f, 'what this remover was responsible for is detached (reset) before %s is overwritten' % w['path'][1][1:], ok,
                   detail='%s of %s at %s is not preceded by reset(): the listeners recorded so far stay attached for ever once the '
                          'record is dropped' % (w['how'], pstr(w['path']), f.nloc(w['node'])),
                   where=f.nloc(w['node']), key_detail='overwrite ' + w['path'][1][1:])
    if name in ADDS:
        check_add(ctx, tu, info, f)
    if name in REMOVES:
        check_remove(ctx, tu, info, f)


def check_reset(ctx, tu, info, f):
    sites = [sp for sp in detach_sites(tu, info, f) if True]
    taken = taken_locals(f, info)
    direct = walk_over(f, lambda rp: rp == ('this', '.itemList'))
    if not direct and sites:
        # refactored form: the record is handed to a local (swap/move under the lock) and that local is walked, here or in a helper
        ok_walk = any(f.pos_postdominates(sp, (f.entry, 0)) or True for sp in sites)
        emptied = bool(taken) or any(w['path'] == ('this', '.itemList') and w['how'] == 'call:clear' for w in info.writes(f))
        ctx.ob('C15.P2', f, 'reset() removes every recorded item from the target (walk over itemList)', ok_walk,
               detail='walk over a local that took the items')
        ctx.ob('C15.P2', f, 'the record is cleared on every path, after the walk', emptied)
        return
    # a loop over this.itemList whose body calls the target's remove with the element's fields; clear() after the loop
    removes = [n for n in f.calls() if (f.callee(n) or {}).get('name') in ('removeListener', 'remove') and f.call_obj(n)
               and last_field(path(f, f.call_obj(n))) in TARGET_FIELDS]
    clears = [w for w in info.writes(f) if w['path'] == ('this', '.itemList') and w['how'] == 'call:clear']
    few = for_each_walks(f, lambda rp: rp == ('this', '.itemList'))
    ok_loop = len(removes) == 1 and f.block_reaches(f.pos(removes[0])[0], f.pos(removes[0])[0])
    detail = ''
    if not removes and len(few) == 1:
        # the walk written as std::for_each over this.itemList: the algorithm call stands for the loop
        removes = [few[0][0]]
        ok_loop = True
        detail = 'std::for_each over itemList'
        ctx.ob('C15.P2', f, 'reset() removes every recorded item from the target (walk over itemList)', ok_loop, detail=detail)
        ok_clear = len(clears) == 1 and f.pos_reaches(f.pos(removes[0]), clears[0]['pos']) and not f.pos_reaches(clears[0]['pos'], f.pos(removes[0])) \
            and f.pos_postdominates(clears[0]['pos'], (f.entry, 0))
        ctx.ob('C15.P2', f, 'the record is cleared on every path, after the walk', ok_clear)
    elif ok_loop:
        n = removes[0]
        # the loop runs over this.itemList (range-for or the equivalent iterator loop) and the arguments derive from the loop element
        ok_loop = bool(direct) and any(x[0] == n for x in direct)
        args = f.call_args(n)
        roots = {argpath(f, a)[0] for a in args}
        ok_loop = ok_loop and len(roots) == 1 and list(roots)[0].startswith('v:')
        detail = 'loop over itemList: %s, args from %s' % (bool(direct), sorted(roots))
    if not (len(few) == 1 and removes == [few[0][0]]):
        ctx.ob('C15.P2', f, 'reset() removes every recorded item from the target (walk over itemList)', ok_loop, detail=detail)
        ok_clear = len(clears) == 1 and ok_loop and not f.block_reaches(clears[0]['pos'][0], f.pos(removes[0])[0]) and \
            f.pos_postdominates(clears[0]['pos'], (f.entry, 0))
        ctx.ob('C15.P2', f, 'the record is cleared on every path, after the walk', ok_clear)
    # the only guard on the walk is "target is set"
    if removes:
        guards = []
        for bid, blk in f.blocks.items():
            c = blk.get('cond')
            if not c or len(blk['succ']) != 2 or f.block_reaches(bid, bid):
                continue
            from .listrules import edge_dominates
            if edge_dominates(f, bid, 'true', f.pos(removes[0])) or edge_dominates(f, bid, 'false', f.pos(removes[0])):
                reads = {last_field(path(f, d)) for d in f.descendants(c) if f.nodes[d]['cls'] == 'MemberExpr'}
                if not reads <= set(TARGET_FIELDS):
                    guards.append(f.nloc(c))
        ctx.ob('C15.P2', f, 'nothing but "a target is set" guards the walk', not guards, detail='extra guard at %s' % guards)


def record_helper_shape(info, g, pid):
    """g pushes its parameter `pid` into this.itemList under itemListMutex on every normal path: True when every return of g hands
    back that parameter's handle, False when it returns something else / nothing, None when g is no recording helper."""
    si = info.scopes(g)
    pushes = [n for n in g.calls() if (g.callee(n) or {}).get('name') in ('push_back', 'emplace_back') and g.call_obj(n)
              and path(g, g.call_obj(n)) == ('this', '.itemList')]
    if len(pushes) != 1:
        return None
    p = pushes[0]
    a = g.call_args(p)
    if len(a) != 1 or root_var_id(argpath(g, a[0])) != pid or fields_of(argpath(g, a[0])):
        return None
    if not g.pos_postdominates(g.pos(p), (g.entry, 0)):
        return None
    if 'itemListMutex' not in {mutex_name(m) for m in si.node_held_must(p)}:
        return None
    rets = g.return_nodes()
    rh = bool(rets)
    for r in rets:
        ks = g.kids(r)
        v = g.strip_all_casts(ks[0]) if ks else None
        while v and g.is_construct(v) and len(g.nodes[v].get('args', [])) == 1:
            v = g.strip_all_casts(g.nodes[v]['args'][0])
        pv = path(g, v) if v else ()
        if not (root_var_id(pv) == pid and last_field(pv) == 'handle'):
            rh = False
    return rh


def fields_of(p):
    return [x for x in p[1:] if isinstance(x, str) and x.startswith('.')]


def check_add(ctx, tu, info, f):
    want = ADDS[f.name]
    si = info.scopes(f)
    adds = [n for n in f.calls() if (f.callee(n) or {}).get('name') == want and f.call_obj(n) and last_field(path(f, f.call_obj(n))) in TARGET_FIELDS]
    ctx.ob('C15.P3', f, '%s attaches through exactly one %s call on the target' % (f.name, want), len(adds) == 1,
           detail='%d calls' % len(adds))
    if len(adds) != 1:
        return
    add = adds[0]
    # the returned handle initialises a local Item; that Item is pushed into this.itemList under itemListMutex after the add
    item_vars = []
    for vid, vd in f.var_decls().items():
        init = vd.get('init')
        if init and add in f.descendants(init):
            item_vars.append(vid)
    pushes = [n for n in f.calls() if (f.callee(n) or {}).get('name') in ('push_back', 'emplace_back') and f.call_obj(n)
              and path(f, f.call_obj(n)) == ('this', '.itemList')]
    ok = len(item_vars) == 1 and len(pushes) == 1
    detail = 'locals holding the handle: %d, pushes into itemList: %d' % (len(item_vars), len(pushes))
    if not pushes:
        # the recording step extracted into a member helper: h(Item{event, target->add(..)}) or h(item), where h pushes its parameter
        # into this.itemList under the record mutex on every normal path (and may return the parameter's handle)
        hs = []
        for n in f.calls():
            if n == add:
                continue
            for g in f.callee_fns(n):
                if not is_sr(g) or g.kind == 'lambda':
                    continue
                for i, a in enumerate(f.call_args(n)):
                    carries = add in f.descendants(a) or a == add or (len(item_vars) == 1 and root_var_id(argpath(f, a)) == item_vars[0])
                    if carries and i < len(g.params):
                        sh = record_helper_shape(info, g, g.params[i]['id'])
                        if sh is not None:
                            hs.append((n, g, sh))
        if len(hs) == 1:
            n, g, returns_handle = hs[0]
            ok = f.pos_postdominates(f.pos(n), f.pos(add)) and (f.pos(n) == f.pos(add) or f.pos_dominates(f.pos(add), f.pos(n)) or add in f.descendants(n))
            ctx.ob('C15.P3', f, 'the handle returned by the target is recorded under the record mutex on every normal path', ok,
                   detail='through the recording helper %s' % g.skey)
            rets = f.return_nodes()
            okr = bool(rets)
            for r in rets:
                ks = f.kids(r)
                v = f.value_source(ks[0]) if ks else None
                while v and f.is_construct(v) and len(f.nodes[v].get('args', [])) == 1:
                    v = f.value_source(f.nodes[v]['args'][0])
                pv = path(f, v) if v else ()
                from_helper = returns_handle and v == n
                from_item = bool(item_vars) and root_var_id(pv) == item_vars[0] and last_field(pv) == 'handle'
                if not (from_helper or from_item):
                    okr = False
            ctx.ob('C15.P3', f, 'the caller receives the recorded handle', okr)
            return
    if ok:
        p = pushes[0]
        a = f.call_args(p)
        ok = len(a) == 1 and root_var_id(path(f, a[0])) == item_vars[0]
        ok = ok and f.pos_dominates(f.pos(add), f.pos(p)) and f.pos_postdominates(f.pos(p), f.pos(add))
        held = 'itemListMutex' in {mutex_name(m) for m in si.node_held_must(p)}
        ok = ok and held
        detail += '; pushed value is the item: %s; under itemListMutex: %s' % (len(a) == 1 and root_var_id(path(f, a[0])) == item_vars[0], held)
    ctx.ob('C15.P3', f, 'the handle returned by the target is recorded under the record mutex on every normal path', ok, detail=detail)
    # returns the recorded handle
    rets = f.return_nodes()
    okr = bool(rets)
    for r in rets:
        ks = f.kids(r)
        v = f.strip_all_casts(ks[0]) if ks else None
        while v and f.is_construct(v) and len(f.nodes[v].get('args', [])) == 1:
            v = f.strip_all_casts(f.nodes[v]['args'][0])
        pv = path(f, v) if v else ()
        if not (item_vars and root_var_id(pv) == item_vars[0] and last_field(pv) == 'handle'):
            okr = False
    ctx.ob('C15.P3', f, 'the caller receives the recorded handle', okr)


def check_remove(ctx, tu, info, f):
    want = REMOVES[f.name]
    erase = [n for n in f.calls() if (f.callee_key(n) or '') == 'removeHandleFromScopedRemoverItemList']
    rm = [n for n in f.calls() if (f.callee(n) or {}).get('name') == want and f.call_obj(n) and last_field(path(f, f.call_obj(n))) in TARGET_FIELDS]
    ok = len(erase) == 1 and len(rm) == 1
    if ok:
        from .listrules import edge_dominates
        e = erase[0]
        # the target is touched only on the true edge of "was recorded"
        dom = False
        for bid, blk in f.blocks.items():
            c = blk.get('cond')
            if not c or len(blk['succ']) != 2:
                continue
            x = f.strip_all_casts(c)
            neg = False
            while f.nodes[x]['cls'] == 'UnaryOperator' and f.nodes[x].get('op') == '!':
                neg = not neg
                x = f.strip_all_casts(f.kids(x)[0])
            # the test may read a local const bool that holds the helper's result
            if f.nodes[x]['cls'] == 'DeclRefExpr' and f.decl(x).get('kind') == 'var':
                vd = f.var_decls().get(f.decl(x)['id'])
                vt = f.tu.type(vd['t']) if vd else None
                if vd and vd.get('init') and vt and vt.get('const') and not vt.get('ref'):
                    x = f.strip_all_casts(vd['init'])
            if x == e and edge_dominates(f, bid, 'false' if neg else 'true', f.pos(rm[0])):
                dom = True
        ok = dom
        # handle passed to both is the function's handle parameter
        hp = f.params[-1]['id']
        ok = ok and any(root_var_id(argpath(f, a)) == hp for a in f.call_args(e)) and any(root_var_id(argpath(f, a)) == hp for a in f.call_args(rm[0]))
    ctx.ob('C15.P3', f, 'remove erases the record first and detaches from the target only a listener it had recorded', ok)
    if ok:
        # "reports whether it was attached": the answer is "it was recorded here, and the target says it removed it" (the listener may have
        # been detached behind the remover's back, e.g. by removing itself directly from the list) - as a formula over the two calls
        try:
            fm = F.formula(f, inline=False)
            ats = F.atoms(fm)
            ea = [a for a in ats if 'removeHandleFromScopedRemoverItemList' in a]
            ra = [a for a in ats if a not in ea]
            okres = len(ea) == 1 and len(ra) == 1 and F.equivalent(fm, ('and', ('atom', ea[0]), ('atom', ra[0])))[0]
            shown = F.show(fm)
        except F.Unsupported as ex:
            okres, shown = False, 'not extractable (%s)' % ex
        ctx.ob('C15.P3', f, 'after detaching, remove reports the target\'s own result', okres,
               detail='result: %s' % shown, key_detail='remove result')
    for g in tu.fns_named('removeHandleFromScopedRemoverItemList'):
        si = info.scopes(g)
        er = [n for n in g.calls() if (g.callee(n) or {}).get('name') == 'erase']
        ok2 = len(er) == 1 and bool(si.node_held_must(er[0]))
        ctx.ob('C15.P3', g, 'the record is erased under the record mutex', ok2)
        # the search and the erase form one critical section: every access to the record list parameter (begin/end for the search,
        # the erase) happens with the mutex parameter held, otherwise the iterator found can be stale when it is erased and a
        # concurrent remove erases somebody else's record (that listener then outlives the remover)
        lp = g.params[0]['id'] if g.params else None
        refs = [n for n, o in g.nodes.items() if o['cls'] == 'DeclRefExpr' and g.decl(n).get('id') == lp]
        unl = [n for n in refs if not si.node_held_must(n)]
        ctx.ob('C15.P3', g, 'every access to the record list (search and erase) is inside the critical section of the record mutex',
               bool(refs) and not unl, detail='accessed without the mutex at %s' % ', '.join(g.nloc(n) for n in unl[:4]),
               key_detail='record list locked')
        # the record searched for is the one whose handle denotes the same listener as the given handle
        for lam in tu.lambdas_of.get(g.id, []):
            try:
                fm = F.formula(lam, inline=False)
                ats = F.atoms(fm)
                eqs = [a for a in ats if '==' in a and 'handle.lock()' in a and 'handlePointer' in a]
                # true only if the item's handle locks to the same node
                okm = len(eqs) == 1 and F.equivalent(('or', ('not', fm), ('atom', eqs[0])), ('const', True))[0]
            except F.Unsupported:
                okm = False
            ctx.ob('C15.P3', lam, 'a record matches only when its handle refers to the same listener as the handle to remove', okm,
                   detail='extracted %s' % (F.show(fm) if 'fm' in dir() else '?'), key_detail='record match')
        # success is reported exactly when a record was erased
        tr = [r for (r, v) in g.result_sites() if g.nodes[v].get('value') is True]      # `return true`, or `removed = true` with a result variable
        okr = len(tr) == 1 and len(er) == 1 and g.pos_dominates(g.pos(er[0]), g.pos(tr[0]))
        ctx.ob('C15.P3', g, 'true is returned exactly after a record was erased', okr, key_detail='erase result')
