"""C07 — wait/waitFor never miss a wake-up; DisableQueueNotify only defers it.

Condition-variable discipline, decided on both queue classes:
  W1 every wait on the queue's condition variable uses the predicate overload and a unique_lock on queueListMutex
  W2 the predicate (through doCanProcess/emptyQueue/...) is equivalent, over its atoms, to what the property states:
     pred => (queue non-empty or an event in dispatch) and notification enabled;  (list non-empty and enabled) => pred
  W3 every write that can turn the predicate true happens inside a critical section of the waiters' mutex
     (or is followed by an acquire of it) before the notify
  W4 every such write is followed on all normal paths by notify_* on the same condition variable, possibly
     skipped only when a re-evaluation of (part of) the predicate is false
  W5 wait/waitFor return only through the predicate form; DisableQueueNotify's ctor/dtor are the only writers of
     queueNotifyCounter and are balanced.
"""
import re

from ..facts import AnalysisBroken, short
from ..paths import path, pstr, last_field, root_var_id, fields_in
from ..locks import ScopeInfo, mutex_name
from ..effects import writes
from .. import formula as F

EXPLANATION = ('C07: condition-variable discipline (predicate-form waits under queueListMutex, predicate formula, '
               'enabling writes published under the waiters\' mutex and followed by notify, balanced DisableQueueNotify).')
ASSUMPTIONS = [
    'std::condition_variable::wait(lock, pred) re-evaluates pred under the lock before blocking and after every wake-up (C++ standard)',
    'liveness under fair scheduling and notify_one vs several waiters are not decided',
]
UNITS = ['w_queue.cpp', 'w_heter.cpp']

QUEUES = ('EventQueueBase', 'HeterEventQueueBase')
READ_METHODS = {'begin', 'end', 'front', 'back', 'empty', 'size', 'cbegin', 'cend', 'load'}
ADD_METHODS = {'splice', 'emplace_back', 'push_back', 'emplace_front', 'push_front', 'insert', 'emplace', 'merge'}
REMOVE_METHODS = {'clear', 'pop_front', 'pop_back', 'erase', 'remove', 'remove_if'}
PRED_FIELDS = ('queueList', 'queueEmptyCounter', 'queueNotifyCounter')


def canon_atom(a):
    """Map an atom text of the predicate to E / C0 / N0."""
    if re.search(r'queueList\.empty\(\)', a):
        return 'E'
    if 'queueEmptyCounter' in a and re.search(r'== 0|0 ==', a):
        return 'C0'
    if 'queueNotifyCounter' in a and re.search(r'== 0|0 ==', a):
        return 'N0'
    return None


def canon_formula(f):
    k = f[0]
    if k == 'atom':
        c = canon_atom(f[1])
        if c is None:
            raise F.Unsupported('unrecognised predicate atom "%s"' % f[1])
        return ('atom', c)
    if k == 'const':
        return f
    if k == 'not':
        return ('not', canon_formula(f[1]))
    return (k, canon_formula(f[1]), canon_formula(f[2]))


def implies(f, g):
    """f => g over atoms E,C0,N0 (truth table)."""
    ok, cex = F.equivalent(('or', ('not', f), g), ('const', True))
    return ok, cex


def queue_of(fn):
    """Queue class pattern this function belongs to (method, nested class method or lambda)."""
    k = fn.outermost().skey
    for q in QUEUES:
        if k.startswith(q + '::'):
            return q
    return None


def is_cv_call(fn, n, names):
    cal = fn.callee(n)
    if not cal or cal['name'] not in names:
        return False
    obj = fn.call_obj(n)
    if not obj:
        return False
    p = path(fn, obj)
    lf = last_field(p)
    return lf is not None and 'ConditionVariable' in lf or (lf or '').lower().endswith('conditionvariable')


def check(ctx):
    ctx.rule('C07.W1', 'waits use the predicate overload with a unique_lock on queueListMutex')
    ctx.rule('C07.W2', 'wait predicate is equivalent to what the property states')
    ctx.rule('C07.W3', 'enabling writes are published under the waiters\' mutex')
    ctx.rule('C07.W4', 'enabling writes are followed by notify on all paths')
    ctx.rule('C07.W5', 'wait returns only through the predicate; queueNotifyCounter written only by balanced ctor/dtor')

    ctx.rule('C07.W7', 'the put-back of declined events (no notify) happens inside the in-dispatch guard that was entered before the take')
    ctx.rule('C07.W8', 'the in-dispatch counter (read by the wait predicate) is written only by its RAII guard')
    ctx.rule('C07.W6', 'queueNotifyCounter starts at zero in every constructor')
    ctx.rule('C07.W9', 'state derived from the list that the wait predicate reads is refreshed in every critical section that changes the list')
    from .qcommon import check_counter_zero, check_derived_emptiness, TUInfo as _TUInfo
    for tu in ctx.tus:
        _info = _TUInfo(tu)
        for q in QUEUES:
            check_derived_emptiness(ctx, tu, _info, q, 'C07.W9')
        check_tu(ctx, tu)
        check_counter_zero(ctx, tu, 'C07.W6')
        from .c11 import check_guard_span
        from .qcommon import TUInfo
        info7 = TUInfo(tu)
        for q in QUEUES:
            check_guard_span(ctx, tu, info7, q, 'C07.W7', only_with_putback=True)
    ctx.require_min('C07.W7', 3)    # processIf, processUntil, heter doProcessIf
    ctx.require_min('C07.W6', 6)
    ctx.require_min('C07.W9', 2)
    ctx.require_min('C07.W8', 7)    # default, copy, move x 2 queue classes

    ctx.require_min('C07.W1', 4)    # wait, waitFor x 2 queue classes
    ctx.require_min('C07.W2', 4)
    ctx.require_min('C07.W3', 3)    # doEnqueue, doEnqueueItem, ~DisableQueueNotify
    ctx.require_min('C07.W4', 3)
    ctx.require_min('C07.W5', 6)


def loop_form_predicate(ctx, wf, n):
    """`while(!pred()) cv.wait(lock);` is the expansion of the predicate overload. Recognised when the plain wait sits in a loop whose
    test has one edge into the loop (towards the wait) and one out of it, and the function is left only over that exit edge; returns the
    canonical formula of the exit condition, or None (a loop of another shape is reported as analysis-broken by the caller's rules)."""
    from .listrules import edge_dominates
    wpos = wf.pos(n)
    if not wf.block_reaches(wpos[0], wpos[0]):
        return None
    for bid, blk in wf.blocks.items():
        c = blk.get('cond')
        if not c or len(blk['succ']) != 2 or blk['succ'][0] is None or blk['succ'][1] is None:
            continue
        t_in = blk['succ'][0] == wpos[0] or wf.block_reaches(blk['succ'][0], wpos[0])
        f_in = blk['succ'][1] == wpos[0] or wf.block_reaches(blk['succ'][1], wpos[0])
        if t_in == f_in or not wf.block_reaches(wpos[0], bid):
            continue
        exit_edge = 'false' if t_in else 'true'
        if not edge_dominates(wf, bid, exit_edge, (wf.exit, 0)):
            continue
        try:
            fm = F.boolexpr(wf, c, {}, True)
        except F.Unsupported as e:
            ctx.broken_later('C07.W2: cannot extract the loop test around the wait in %s: %s' % (wf.skey, e))
            return None
        return canon_formula(fm if exit_edge == 'true' else ('not', fm))
    ctx.broken_later('C07.W1: %s waits inside a loop of a shape the rule does not model' % wf.skey)
    return None


def check_tu(ctx, tu):
    scope_cache = {}

    def scopes(fn):
        if fn.id not in scope_cache:
            scope_cache[fn.id] = ScopeInfo(fn)
        return scope_cache[fn.id]

    for q in QUEUES:
        wait_fns = [f for f in tu.fns if f.skey in (q + '::wait', q + '::waitFor')]
        members = [f for f in tu.fns if queue_of(f) == q]
        if not members:
            continue
        # group by class instantiation
        by_inst = {}
        for f in members:
            by_inst.setdefault(f.outermost().clsq.split('::DisableQueueNotify')[0], []).append(f)

        pred_formula = {}   # class instantiation -> canonical predicate formula
        cv_fields = set()
        for wf in wait_fns:
            si = scopes(wf)
            wcalls = [n for n in wf.calls() if (wf.callee(n) or {}).get('name') in ('wait', 'wait_for', 'wait_until') and wf.call_obj(n)]
            ctx.ob('C07.W5', wf, 'exactly one wait on the condition variable', len(wcalls) == 1,
                   detail='%d wait calls found' % len(wcalls))
            for n in wcalls:
                cal = wf.callee(n)
                args = wf.call_args(n)
                need = 2 if cal['name'] == 'wait' else 3
                objp = path(wf, wf.call_obj(n))
                cv_fields.add(last_field(objp))
                loop_pred = None
                if len(args) != need and cal['name'] == 'wait':
                    loop_pred = loop_form_predicate(ctx, wf, n)
                ctx.ob('C07.W1', wf, 'predicate overload of %s is used (or the equivalent re-check loop around a plain wait)' % cal['name'],
                       len(args) == need or loop_pred is not None,
                       detail='%s called with %d argument(s) at %s: without the predicate a notification sent before the '
                              'thread blocks is lost and spurious wake-ups return early' % (cal['name'], len(args), wf.nloc(n)),
                       where=wf.nloc(n))
                # the lock argument
                lockvar = root_var_id(path(wf, args[0])) if args else None
                held = [x for x in si.held_must_full(wf.pos(n)) if x[2] == lockvar]
                okm = bool(held) and mutex_name(held[0][1]) == 'queueListMutex'
                ctx.ob('C07.W1', wf, 'wait holds a unique_lock on queueListMutex', okm,
                       detail='lock argument at %s is %s' % (wf.nloc(n), 'a lock on ' + pstr(held[0][1]) if held else 'not a held lock'),
                       where=wf.nloc(n))
                # all paths go through the wait (loop form: through the loop test, which is the predicate)
                ctx.ob('C07.W5', wf, 'every path of %s passes through the predicate-form wait' % wf.name,
                       wf.pos_postdominates(wf.pos(n), (wf.entry, 0)) or loop_pred is not None, where=wf.nloc(n))
                if cal['name'] != 'wait':
                    bad = []
                    for r in wf.return_nodes():
                        ks = wf.kids(r)
                        v = wf.strip_all_casts(ks[0]) if ks else None
                        if v != n:
                            # allow 'auto r = cv.wait_for(...); return r;'
                            if v and wf.nodes[v]['cls'] == 'DeclRefExpr':
                                vd = wf.var_decls().get(wf.decl(v)['id'])
                                if vd and vd.get('init') and wf.strip_all_casts(vd['init']) == n:
                                    continue
                            bad.append(wf.nloc(r))
                    ctx.ob('C07.W5', wf, 'waitFor returns exactly the result of the predicate-form wait', not bad,
                           detail='return at %s does not return the wait result' % ', '.join(bad))
                # predicate
                if loop_pred is not None:
                    f = loop_pred
                    pred_formula[wf.clsq] = f
                    E, C0, N0 = ('atom', 'E'), ('atom', 'C0'), ('atom', 'N0')
                    ok1, cex1 = implies(f, ('and', ('or', ('not', E), ('not', C0)), N0))
                    ok2, cex2 = implies(('and', ('not', E), N0), f)
                    ctx.ob('C07.W2', wf, 'predicate true => queue non-empty (or in dispatch) and notification enabled', ok1,
                           detail='loop exit condition %s is true under %s' % (F.show(f), cex1), where=wf.nloc(n))
                    ctx.ob('C07.W2', wf, 'queue list non-empty and notification enabled => predicate true', ok2,
                           detail='loop exit condition %s is false under %s' % (F.show(f), cex2), where=wf.nloc(n))
                elif len(args) == need:
                    lam = wf.strip_all_casts(args[-1])
                    # the predicate parameter is taken by value: strip the copy construction
                    while wf.nodes[lam]['cls'] in ('CXXConstructExpr',) and wf.nodes[lam].get('args'):
                        lam = wf.strip_all_casts(wf.nodes[lam]['args'][0])
                    lfn = wf.functor_body(args[-1]) or wf.functor_body(lam)      # a lambda, or a named functor class with one operator()
                    if lfn is None:
                        raise AnalysisBroken('C07.W2: wait predicate at %s is neither a lambda nor a library functor the analysis can read' % wf.nloc(n))
                    try:
                        f = canon_formula(F.formula(lfn))
                    except F.Unsupported as e:
                        raise AnalysisBroken('C07.W2: cannot extract the wait predicate of %s: %s' % (wf.skey, e))
                    pred_formula[wf.clsq] = f
                    E, C0, N0 = ('atom', 'E'), ('atom', 'C0'), ('atom', 'N0')
                    sound = ('and', ('or', ('not', E), ('not', C0)), N0)
                    complete = ('and', ('not', E), N0)
                    ok1, cex1 = implies(f, sound)
                    ok2, cex2 = implies(complete, f)
                    ctx.ob('C07.W2', wf, 'predicate true => queue non-empty (or in dispatch) and notification enabled', ok1,
                           detail='predicate %s is true under %s' % (F.show(f), cex1), where=wf.nloc(n))
                    ctx.ob('C07.W2', wf, 'queue list non-empty and notification enabled => predicate true', ok2,
                           detail='predicate %s is false under %s' % (F.show(f), cex2), where=wf.nloc(n))
                    ctx.sample({'rule': 'C07.W2', 'function': wf.skey, 'predicate': F.show(f)})

        # ---- writes to predicate state -------------------------------------------------------
        any_pred = next(iter(pred_formula.values()), None)
        if any_pred is None:
            # no wait()/waitFor() instantiated for this queue in this unit: the predicate is doCanProcess()
            for g in tu.fns_named(q + '::doCanProcess'):
                try:
                    any_pred = canon_formula(F.formula(g))
                    break
                except F.Unsupported:
                    pass
        for f in members:
            if f.cls in tu.counter_guard_classes() and f.kind in ('ctor', 'dtor'):
                continue      # the ++ / -- of a recognised guard class (local RAII struct): its shape is what makes it a guard
            ws = [w for w in writes(f) if any(x in PRED_FIELDS for x in fields_in(w['path']))]
            if not ws:
                continue
            si = scopes(f)
            for w in ws:
                fld = [x for x in fields_in(w['path']) if x in PRED_FIELDS][-1]
                how = w['how']
                meth = how.split(':', 1)[1] if ':' in how else how
                kind = None
                pos = w['pos']
                if how.startswith('call:') and meth in READ_METHODS:
                    continue
                if fld == 'queueNotifyCounter':
                    kind = {'--': 'enabling', '++': 'disabling'}.get(how)
                    if kind is None and (how in ('assign',) or how.startswith('call:') and meth.split('::')[-1] in ('store', 'exchange')):
                        # the counter counts live DisableQueueNotify objects: each may only add / subtract its own one. Writing back a
                        # value saved earlier is right for nested lifetimes only - two objects whose lifetimes overlap without nesting
                        # overwrite each other's contribution (notification enabled while one is alive, or disabled for ever)
                        ctx.ob('C07.W5', f, 'queueNotifyCounter is changed by increment / decrement only (each object adds and removes exactly its own one)',
                               False, detail='"%s" at %s writes an absolute value' % (how, f.nloc(w['node'])), where=f.nloc(w['node']),
                               key_detail='absolute counter write')
                        kind = 'enabling'
                elif fld == 'queueEmptyCounter':
                    # part of the wait predicate (through emptyQueue()): only the RAII guard may change it, so that it is back at its
                    # previous value however the processing call ends - a manual ++/-- pair leaves it raised when a listener throws,
                    # and wait()/waitFor() then return at once on an empty queue for ever
                    ctx.ob('C07.W8', f, 'queueEmptyCounter is changed only through the scope guard (balanced on every exit, exceptions included)',
                           how == 'guard', detail='"%s" at %s' % (how, f.nloc(w['node'])), where=f.nloc(w['node']), key_detail='raw counter write')
                    if how != 'guard':
                        continue
                    kind = 'neutral'
                elif fld == 'queueList':
                    if w['path'][-1] != '.queueList':
                        continue   # access to an element, not a write to the list
                    if how.startswith('call:') and meth in ADD_METHODS:
                        guard = any(last_field(g) == 'queueEmptyCounter' for g in si.held_must(pos, 'guard'))
                        if not guard and f.kind == 'method' and f.access in ('private', 'protected'):
                            # a non-public step (`lock; queueList.splice(begin, list)` extracted from the processing functions): guarded when
                            # every call site holds the in-dispatch guard
                            cs = [(g, n) for (g, n) in tu.callers().get(f.id, []) if queue_of(g) == queue_of(f)]
                            guard = bool(cs) and all(any(last_field(p) == 'queueEmptyCounter' for p in scopes(g).held_must(g.pos(n), 'guard')) for (g, n) in cs)
                        kind = 'neutral' if guard else 'enabling'
                    elif how.startswith('call:') and meth in REMOVE_METHODS:
                        kind = 'disabling'
                    elif how.startswith('arg:') and meth.split('::')[-1] in ('splice',):
                        kind = 'disabling'      # queueList is the *source* of a splice
                    elif meth.split('::')[-1] == 'swap':
                        kind = 'disabling' if swap_with_fresh_local(f, w) else None
                if kind is None:
                    raise AnalysisBroken('C07.W3: unclassified write "%s" to %s in %s at %s' % (how, pstr(w['path']), f.skey, f.nloc(w['node'])))
                if kind != 'enabling':
                    continue
                # W3: under the waiters' mutex
                mpaths = si.held_must(pos, 'lock')
                held = any(mutex_name(m) == 'queueListMutex' for m in mpaths)
                notifies = [n for n in f.calls() if (f.callee(n) or {}).get('name') in ('notify_one', 'notify_all')]
                later_acq = False
                if not held:
                    for (apos, akind, ap, avar, an) in si.acquires:
                        if akind == 'lock' and mutex_name(ap) == 'queueListMutex' and f.pos_dominates(pos, apos):
                            if all(f.pos_dominates(apos, f.pos(nn)) for nn in notifies) and notifies:
                                later_acq = True
                ctx.ob('C07.W3', f, 'write that enables the wait predicate (%s %s) is made under queueListMutex' % (how, fld),
                       held or later_acq,
                       detail='%s at %s changes %s outside any critical section of queueListMutex: a waiter that has just evaluated '
                              'the predicate (false) and not yet blocked misses the following notify (lost wake-up)'
                              % (how, f.nloc(w['node']), pstr(w['path'])),
                       where=f.nloc(w['node']), key_detail='%s %s' % (how, fld))
                # W4: followed by notify
                ok, why = notify_after(ctx, tu, f, pos, any_pred, set())
                ctx.ob('C07.W4', f, 'enabling write (%s %s) is followed by notify on every normal path' % (how, fld), ok,
                       detail=why, where=f.nloc(w['node']), key_detail='%s %s notify' % (how, fld))

        # ---- who writes queueNotifyCounter ----------------------------------------------------
        for f in members:
            ws = [w for w in writes(f) if last_field(w['path']) == 'queueNotifyCounter' and w['how'] in ('++', '--', 'assign', '+=', '-=') or
                  (last_field(w['path']) == 'queueNotifyCounter' and w['how'].startswith('call:') and w['how'][5:] not in READ_METHODS)]
            if not ws:
                continue
            isctor = f.skey.endswith('DisableQueueNotify::DisableQueueNotify')
            isdtor = f.skey.endswith('DisableQueueNotify::~DisableQueueNotify')
            ctx.ob('C07.W5', f, 'queueNotifyCounter is written only by DisableQueueNotify ctor/dtor', isctor or isdtor,
                   detail='write at %s' % f.nloc(ws[0]['node']))
            if isctor or isdtor:
                want = '++' if isctor else '--'
                good = [w for w in ws if w['how'] == want and f.pos_postdominates(w['pos'], (f.entry, 0))]
                ctx.ob('C07.W5', f, '%s performs exactly one %s of the counter on every path' % ('constructor' if isctor else 'destructor', want),
                       len(good) == 1 and len(ws) == 1, detail='%d write(s): %s' % (len(ws), ', '.join(w['how'] for w in ws)))


def swap_with_fresh_local(fn, w):
    """The other operand of a swap is a local list that is default-constructed and untouched before the swap."""
    n = w['node']
    o = fn.nodes[n]
    operands = list(o.get('args', []))
    if o.get('obj') and o['obj'] not in operands:
        operands.append(o['obj'])
    others = [a for a in operands if path(fn, a) != w['path']]
    if len(others) != 1:
        return False
    return fresh_local_operand(fn, w, others[0])


def fresh_local_operand(fn, w, operand, _depth=0):
    n = w['node']
    op = path(fn, operand)
    vid = root_var_id(op)
    # a local list, or a list member of a local aggregate (`struct { List pending, done; } lists;`), default-constructed
    if vid is None or len(op) > 2 or (len(op) == 2 and (not op[1].startswith('.') or op[1].endswith('()'))):
        return False
    vd = fn.var_decls().get(vid)
    if not vd and len(op) == 1 and _depth < 3 and fn.access in ('private', 'protected'):
        # a list handed in by reference to a non-public step: fresh when every call site passes a fresh local that is not used before the call
        pidx = {pp['id']: i for i, pp in enumerate(fn.params)}
        cs = fn.tu.callers().get(fn.id, [])
        if vid in pidx and cs:
            for (g, cn) in cs:
                ca = g.call_args(cn)
                if pidx[vid] >= len(ca):
                    return False
                pseudo = {'node': cn, 'path': None, 'pos': g.pos(cn)}
                if not fresh_local_operand(g, pseudo, ca[pidx[vid]], _depth + 1):
                    return False
            return True
        return False
    if not vd or not vd.get('init'):
        return False
    init = fn.strip(vd['init'])
    if fn.nodes[init]['cls'] == 'InitListExpr' and not fn.kids(init):
        pass
    elif not fn.is_construct(init) or [a for a in fn.nodes[init].get('args', []) if fn.nodes[a]['cls'] != 'CXXDefaultArgExpr']:
        return False
    if len(op) == 2:
        t = fn.tu.type(vd['t'])
        c = fn.tu.class_by_q.get((t or {}).get('recq') or '')
        # an aggregate without default member initialisers for that member: value / default construction leaves the list empty
        if not c or c.get('bases') or not any(fl['name'] == op[1][1:] and not fl.get('init') for fl in c.get('fields', [])):
            return False
    # no earlier use of the local
    pmap = fn.parent_map()
    for m, mo in fn.nodes.items():
        if mo['cls'] == 'DeclRefExpr' and fn.decl(m)['kind'] == 'var' and fn.decl(m)['id'] == vid:
            if m in fn.descendants(n):
                continue
            if fn.nodes.get(pmap.get(m), {}).get('cls') == 'LambdaExpr':
                continue      # naming the local in a capture list (by reference) does not touch it
            if fn.pos_reaches(fn.pos(m), w['pos']) and not fn.pos_reaches(w['pos'], fn.pos(m)):
                return False
    return True


def helper_always_notifies(ctx, tu, g, pred, visiting):
    key = ('helper', g.id)
    if key in visiting:
        return False
    if not any((g.callee(n) or {}).get('name') in ('notify_one', 'notify_all') for n in g.calls()):
        return False
    ok, _ = notify_after(ctx, tu, g, (g.entry, -1), pred, visiting | {key}, no_callers=True)
    return ok


def wait_predicates(ctx, tu, q):
    """[(wait function, call node, canonical predicate formula)] for the waits of queue class q - predicate overloads (lambda, named
    closure or functor) and re-check loops around a plain wait. Unreadable predicates are left out (C07.W2 reports them)."""
    out = []
    for wf in tu.fns:
        if wf.skey not in (q + '::wait', q + '::waitFor'):
            continue
        for n in wf.calls():
            cal = wf.callee(n) or {}
            if cal.get('name') not in ('wait', 'wait_for', 'wait_until') or not wf.call_obj(n):
                continue
            args = wf.call_args(n)
            need = 2 if cal['name'] == 'wait' else 3
            try:
                if len(args) == need:
                    lfn = wf.functor_body(args[-1])
                    if lfn is not None:
                        out.append((wf, n, canon_formula(F.formula(lfn))))
                elif cal['name'] == 'wait':
                    lp = loop_form_predicate(ctx, wf, n)
                    if lp is not None:
                        out.append((wf, n, lp))
            except (F.Unsupported, AnalysisBroken):
                pass
    return out


def notify_after(ctx, tu, fn, pos, pred, visiting, no_callers=False):
    """Every normal path from `pos` reaches a notify_* call, or skips it only on the false edge of a test implied
    by the predicate. If the function can return first, all library call sites must satisfy the same."""
    key = (fn.id, pos)
    if key in visiting:
        return True, ''
    visiting = visiting | {key}
    notif_pos = {}
    for n in fn.calls():
        cal = fn.callee(n)
        if cal and cal['name'] in ('notify_one', 'notify_all'):
            notif_pos[fn.pos(n)] = n
        elif cal and cal.get('lib') and len(visiting) < 6:
            # a library helper that itself notifies on every path (up to the same predicate-implied skips) counts as the notify
            for g in fn.callee_fns(n):
                if g.id != fn.id and queue_of(g) and g.kind != 'lambda' and helper_always_notifies(ctx, tu, g, pred, visiting):
                    notif_pos[fn.pos(n)] = n
    # forward exploration at element granularity. Along a path the outcomes of the tests passed since the write are remembered: a path
    # on which they contradict the wait predicate has no waiter to wake (false edge of a re-test of the predicate, true edge of a
    # guard clause `if(! pred) return;`, or the same test spelled out as a short-circuit condition spread over several blocks)
    b0, i0 = pos
    work = [(b0, i0 + 1, ())]
    seen = set()
    escapes = False
    while work:
        b, i, assum = work.pop()
        if (b, i, assum) in seen:
            continue
        seen.add((b, i, assum))
        blk = fn.blocks[b]
        hit = False
        for j in range(i, len(blk['elems'])):
            if (b, j) in notif_pos:
                hit = True
                break
        if hit:
            continue
        if b == fn.exit or not fn.succs(b):
            escapes = True
            continue
        succ = blk['succ']
        if len(succ) == 2 and blk.get('cond'):
            cf = None
            try:
                cf = canon_formula(F.boolexpr(fn, blk['cond'], {}, True))
            except (F.Unsupported, Exception):
                cf = None
            # the test has to look at the state *after* the write: a local that was computed before the write (and is merely read
            # here) describes the state another thread may have changed since - skipping the notify on its word loses a wake-up
            if cf is not None:
                c0 = blk['cond']
                for d in [c0] + fn.descendants(c0):
                    if fn.nodes[d]['cls'] == 'DeclRefExpr' and fn.decl(d).get('kind') == 'var':
                        vd = fn.var_decls().get(fn.decl(d)['id'])
                        vt = tu.type(vd['t']) if vd else None
                        if vt and (vt.get('ref') or vt.get('ptr') is not None):
                            continue      # a reference / pointer to the queue reads the current state, it is no snapshot
                        if vd and vd.get('stmt') and fn.pos(vd['stmt']) and not fn.pos_reaches(pos, fn.pos(vd['stmt'])):
                            cf = None
                            break
            for s_, lit in ((succ[0], cf), (succ[1], ('not', cf) if cf is not None else None)):
                if s_ is None:
                    continue
                na = assum
                if lit is not None and pred is not None:
                    shown = F.show(cf)
                    na = tuple(x for x in assum if x[0] != shown) + ((shown, lit),)      # a later test of the same expression replaces the earlier outcome
                    conj = pred
                    for _sh, l in na:
                        conj = ('and', conj, l)
                    try:
                        unsat, _ = F.equivalent(conj, ('const', False))
                    except (F.Unsupported, Exception):
                        unsat = False
                    if unsat:
                        continue          # the predicate cannot hold on this path: nobody to wake
                work.append((s_, 0, na))
        else:
            for s in succ:
                if s is not None:
                    work.append((s, 0, assum))
    if not escapes:
        return True, ''
    if no_callers:
        return False, 'helper can return without notifying'
    # the function may return without notifying: every library caller must notify after the call
    callers = tu.callers().get(fn.id, [])
    if not callers:
        return False, ('%s can return at %s without notifying the condition variable after the write, and it is an entry point'
                       % (fn.skey, fn.where()))
    for (g, n) in callers:
        ok, why = notify_after(ctx, tu, g, g.pos(n), pred, visiting)
        if not ok:
            return False, why or ('caller %s does not notify after calling %s (%s)' % (g.skey, fn.skey, g.nloc(n)))
    return True, ''
