import sys
pid=sys.argv[1]
round2 = len(sys.argv) > 2 and sys.argv[2] == 'round2'
wt = sys.argv[3] if len(sys.argv) > 3 else '/tmp/wt/' + pid
import json
prop = None
for l in open('/verif/properties.jsonl'):
    d = json.loads(l)
    if d['id'] == pid:
        prop = '%s — %s\n\n%s\n' % (d['id'], d['title'], d['statement'])
hint = ''
if round2:
    hint = '''
Diversity request: an earlier study already collected the most obvious changes in the functions most directly connected with this property. Look further afield this time. Prefer changes in places such as: helper templates and metafunctions (policy selection, prototype matching, index sequences), the heterogeneous variants (HeterCallbackList / HeterEventDispatcher / HeterEventQueue), internal headers (include/eventpp/internal), mixins and utility classes, constructors / assignment / swap, or rarely taken branches. Prefer kinds such as: wrong value category (lvalue vs rvalue, missing or extra std::forward / std::move), wrong template argument or off-by-one in a template recursion, a state field forgotten in one of several sibling operations, a check performed on a stale copy, a condition inverted or weakened in a rarely taken branch, two sibling implementations that drift apart, a resource released a little too early or too late. The two changes must be of different kinds and in different functions.
'''

if len(sys.argv) > 2 and sys.argv[2] == 'round3':
    hint = '''
Diversity request: earlier studies already collected the obvious changes in the functions most directly connected with this property, and also changes of these kinds: missing/extra std::move or std::forward, a check moved outside its lock, a counter or field forgotten in a copy/move constructor, a dropped self-assignment guard, a wrong index in a template recursion. Do NOT repeat those. Look instead at: the interaction of two features (filters or other mixins with queues; removers with heterogeneous containers; the ordered queue list with processIf/processUntil; nested invocation with SingleThreading; a custom Callback type, a custom map, custom Threading primitives); compile-time selected alternatives (enable_if overload pairs, #if branches such as the GCC-4 variant of CallbackList::operator(), const vs non-const overload pairs that must agree); memory-order arguments and atomics; noexcept specifiers and exception paths (what state is left when a user callable or a copy throws half-way); default template arguments and policy defaults; lifetime of temporaries and captured state (by reference vs by value, dangling); the helpers in eventutil.h, forEach/forEachIf, argumentadapter.h, conditionalfunctor.h, anydata.h, anyid.h, orderedqueuelist.h. The two changes must be of different kinds and in different functions, and at least one of them should involve two sites or two features that each look fine alone.
'''

FOCUS = {
 'C01': 'forEach, forEachIf, ownsHandle, empty and the hasListener/removeListener helpers "always describe that same content"; insert "at the back when that callback is no longer in the list"',
 'C02': '"nested invocations obey the same rules on their own" and "when the outermost invocation returns the list holds exactly what the same operations would have produced outside an invocation"',
 'C03': '"the final listener order [is that] of some sequential execution" and "every invocation or enumeration visits each callback that stayed in the list for its whole duration exactly once"',
 'C04': '"any key type and map kind" and "per event every listener-management operation behaves exactly like the corresponding callback-list operation" (hasAnyListener, forEach, insertListener, prependListener ...)',
 'C05': 'peekEvent, takeEvent and clearEvents ("handed out by exactly one takeEvent, or discarded by clearEvents", "each call\'s boolean result tells whether it ... found (peek/take) an event")',
 'C06': 'takeEvent, peekEvent and clearEvents racing with enqueue and process*, and "no call deadlocks"',
 'C07': '"A wait during whose entire duration a DisableQueueNotify object is alive does not return" and "waitFor returns false only after its timeout" (HeterEventQueue included)',
 'C08': '"a removed callback is released as soon as no invocation that was running when it was removed is still in progress" and "copies, moves, swaps" of lists, dispatchers and queues',
 'C09': '"a failed copy of any container leaves its source untouched and its destination valid" and "an exception escaping an invocation, dispatch or processing call leaves the listener lists as the callbacks themselves left them"',
 'C10': 'moving and swapping dispatchers, queues and the heterogeneous classes; "a queue reports empty until something is enqueued into it, and waiting, notification and processing work" on the object obtained',
 'C11': 'HeterEventQueue, and "from every other thread during that time"',
 'C12': 'argumentAdapter ("receives those same argument values converted to its own parameter types", shared_ptr conversions), "removed filters never run again", MixinHeterFilter',
 'C13': '"all exactly-once guarantees of the queue continue to hold" with the ordered list: takeEvent, peekEvent, clearEvents, processOne on an ordered queue; custom comparator',
 'C14': 'HeterEventQueue process / processOne "each consumed exactly once in FIFO order" across prototypes; handles, forEach/forEachIf and removal in the heterogeneous list and dispatcher',
 'C15': '"Listeners not added through the remover are never touched", "re-targeted" (setDispatcher / setCallbackList), swap, and the heterogeneous dispatcher as target',
 'C16': '"for nested and queued dispatches, and after the helper object itself has been destroyed"; prepend / insert variants; trigger count n <= 0',
 'C17': '"reading it back ... by get, conversion to reference or pointer, or getAddress yields an equal value at a stable address" and "inside a queued event"',
 'C18': '"equal ids hash equally", the default-constructed id, ids built from string literals / different integer types, use as EventQueue key',
 'C19': '"removed callbacks stay removed, and callbacks added afterwards are invoked by later invocations" and "Only invocations already in progress at the moment of the wrap may additionally call callbacks added during them"; swap / move / copy of lists near the wrap',
 'C20': '"user-supplied map, std::function or custom callback storage" and "any ... language standard from C++11 on" (feature-test macros, #if branches, constexpr / noexcept differences)',
}
if len(sys.argv) > 2 and sys.argv[2] == 'round4':
    hint = '''
Focus request: earlier studies already collected many changes for this property, in particular in the functions most directly connected with it and of these kinds: missing/extra std::move or std::forward, a check moved outside its lock, counters or fields forgotten in copy/move constructors, dropped self-assignment guards, wrong template indices, guards acquired too late or released too early, algorithm substitutions in the ordered queue list, delegating constructors. Do NOT repeat those. This time concentrate on this part of the statement: ''' + FOCUS[pid] + '''. Pick changes whose effect is on that part. The two changes must be of different kinds and in different functions.
'''

FILES = {
 'C01': 'include/eventpp/utilities/eventutil.h and the forEach / forEachIf / empty / operator bool / ownsHandle members of include/eventpp/callbacklist.h',
 'C02': 'include/eventpp/hetercallbacklist.h and include/eventpp/hetereventdispatcher.h (nested use of the heterogeneous classes)',
 'C03': 'include/eventpp/eventdispatcher.h (listenerMutex, doFindCallableListHelper, the per-event helpers) and include/eventpp/hetereventdispatcher.h',
 'C04': 'include/eventpp/internal/eventpolicies_i.h and include/eventpp/eventpolicies.h (policy detection and selection templates)',
 'C05': 'include/eventpp/internal/eventqueue_i.h and the enqueue / doEnqueue / doDispatchQueuedEvent members of include/eventpp/eventqueue.h',
 'C06': 'include/eventpp/hetereventqueue.h',
 'C07': 'include/eventpp/hetereventqueue.h (wait, waitFor, doEnqueue / doEnqueueItem notification) and the enqueue side of include/eventpp/eventqueue.h',
 'C08': 'include/eventpp/internal/eventqueue_i.h (BufferedItem, BufferedUnion, commonDtor) and include/eventpp/utilities/anydata.h',
 'C09': 'include/eventpp/hetercallbacklist.h, include/eventpp/hetereventdispatcher.h and include/eventpp/hetereventqueue.h',
 'C10': 'the constructors / assignment operators / swap of include/eventpp/eventdispatcher.h, include/eventpp/hetereventdispatcher.h and include/eventpp/hetercallbacklist.h',
 'C11': 'peekEvent / takeEvent / clearEvents / emptyQueue / doCanProcess of include/eventpp/eventqueue.h and include/eventpp/hetereventqueue.h',
 'C12': 'include/eventpp/mixins/mixinfilter.h, include/eventpp/mixins/mixinheterfilter.h and include/eventpp/utilities/argumentadapter.h',
 'C13': 'how include/eventpp/eventqueue.h uses its QueueList (SelectQueueList, BufferedItemList, splice positions) and include/eventpp/utilities/orderedqueuelist.h members other than the whole-list splice',
 'C14': 'include/eventpp/internal/hetercallbacklist_i.h and include/eventpp/internal/typeutil_i.h (prototype matching metafunctions, CanInvoke, tuple helpers)',
 'C15': 'the CallbackList specialisation of ScopedRemover in include/eventpp/utilities/scopedremover.h, and its use with HeterCallbackList / HeterEventDispatcher targets',
 'C16': 'include/eventpp/utilities/conditionalremover.h',
 'C17': 'the LargeData class and the accessor members (get, getAddress, isType, conversion operators) of include/eventpp/utilities/anydata.h',
 'C18': 'include/eventpp/utilities/anyid.h (HasEqual / HasLess / compare helpers / EmptyAnyStorage) ',
 'C19': 'the swap / move / copy members and doFreeNode / doFreeAllNodes of include/eventpp/callbacklist.h',
 'C20': 'include/eventpp/eventpolicies.h (SpinLock, GeneralThreading, SingleThreading) and include/eventpp/internal/typeutil_i.h',
}
if len(sys.argv) > 2 and sys.argv[2] == 'round5':
    hint = '''
Focus request: earlier studies already collected more than a hundred changes for these properties, most of them in the functions most directly connected with each property. This time the place is fixed instead: make your changes in ''' + FILES[pid] + '''. Find edits THERE whose effect breaks the property above (if the first place offers nothing after honest effort, the second one named). Avoid the kinds collected already: missing/extra std::move or std::forward, a check moved outside its lock, counters or fields forgotten in copy/move constructors, dropped self-assignment guards, guards acquired late or released early, algorithm substitutions in the ordered queue list, delegating constructors, save-and-restore of counters, copy assignment rewritten in place. The two changes must be of different kinds and in different functions.
'''

if len(sys.argv) > 2 and sys.argv[2] == 'round6':
    hint = '''
Shape request: earlier studies already collected about 150 single-site changes for these properties (missing/extra std::move or std::forward, checks moved outside their lock, fields forgotten in copy/move constructors, dropped guards, wrong template indices, inverted or weakened conditions, algorithm substitutions). Do NOT deliver another single-site change of those kinds. This time each change should consist of TWO OR MORE COORDINATED EDITS in different functions (possibly different files), each of which looks like a harmless refactoring or optimisation on its own - ideally each alone even leaves the property intact - but which together break it. Shapes to think about (not to copy literally): a helper's postcondition is weakened or its result re-interpreted in a way that only one of its several callers depended on; the meaning of a field or counter is changed (count vs count-1, "owned" vs "borrowed", generation compared with < instead of <=, flag set before vs after) and one of the sites using it is not brought along; an invariant established in a constructor / assignment is relied on in a member function and the constructor is "simplified"; one lock is split into two (or one critical section into two) and a compound operation now spans both; a cached copy of a computed value (size, emptiness, last node, looked-up list, hash) is introduced and one mutator does not invalidate it; work is moved from one side of a hand-over to the other (enqueue side vs process side, remover vs list, filter mixin vs dispatcher) and one path of the receiving side is missed; a default template argument, trait or overload is changed and a distant specialisation silently selects another branch. The two deliverables must be of different shapes. Prefer places in this order where the property allows: the heterogeneous classes, the utilities (scopedremover, counterremover, conditionalremover, conditionalfunctor, argumentadapter, eventutil, orderedqueuelist, anydata, anyid), the mixins, the internal headers, then the three core headers.
'''

print(f'''You are given a scratch git worktree of the header-only C++11 library wqking/eventpp at {wt} (work ONLY inside that directory; never touch /repo or /verif, never read /verif). The library headers are in {wt}/include/eventpp, its unit tests (Catch) in {wt}/tests/unittest.

Here is a semantic property the library is supposed to satisfy:

{prop}

Your task: produce TWO different, realistic source changes to the library headers (under include/eventpp) that each BREAK this property while the code still compiles and the existing unit test suite still passes. We are studying whether bugs that slip through the test suite can be detected by other means, so the changes should look like plausible maintenance edits / refactorings / "optimisations" a developer might make (not sabotage like deleting a whole function), and should need something specific to manifest: a particular interleaving, a fault at a particular point, a multi-step sequence of operations, an unusual input or configuration (policy, key type, argument kind), or two cooperating sites that each look fine alone. Do not choose changes that ordinary use would expose at once.{hint}

For each change i in (1,2):
 1. Start from a clean tree (git -C {wt} checkout -- . ).
 2. Make the edit. Save the diff as {wt}/_mut/m{{i}}/patch.diff (git -C {wt} diff > ...; paths relative to the repo root, applicable with `git apply`).
 3. Confirm the existing tests still build and pass with the change: 
      cmake -G Ninja -S {wt}/tests -B {wt}/_b -DCMAKE_BUILD_TYPE=RelWithDebInfo >/dev/null && cmake --build {wt}/_b --target unittest && {wt}/_b/unittest/unittest
    (first build takes a few minutes; incremental builds are faster; expected output ends with "All tests passed").  If a test fails, pick a different change.
 4. Write a small standalone demonstration program {wt}/_mut/m{{i}}/demo.cpp (plain main(), exit code 0 = property holds, non-zero = violated; print what was observed) that FAILS with your change and PASSES on the unchanged tree. Build it with: g++ -std=c++17 -O1 -g -pthread -I{wt}/include demo.cpp -o demo . Verify both directions yourself (with the patch applied: fails; after `git checkout -- .`: passes). If the failure needs a particular thread interleaving, make it deterministic where you can (e.g. by injecting a custom Threading policy / mutex / condition variable that yields at the right point, or by performing the second thread's action from inside a callback), otherwise loop enough iterations for it to fail reliably and say so.
 5. Write {wt}/_mut/m{{i}}/README.txt: which clause of the property is broken, why the existing tests do not notice, what is needed for it to manifest, and the exact commands you ran with their observed results.
Leave the worktree clean (git checkout -- .) at the end; keep the _mut directory (untracked) and you may leave _b. Report back a short summary of the two changes (file, function, one-line description, how it manifests) and whether every verification step succeeded. If you cannot find a second valid change after reasonable effort, deliver one and say so.''')
