"""C19 — Generation-counter wrap-around never loses or resurrects a callback.

  Z  the removed mark is never issued: every value getNextCounter() returns is != 0 (the non-wrap path returns the tested
     non-zero value; on the wrap path the value is redrawn after the counter was 0, i.e. 1); the counter type is unsigned
  W  rewrite on wrap: on the `== 0` edge, under the list mutex and before the second draw, a recognised walk from head over
     next assigns every linked node one constant generation g with 0 < g <= 1 (the first value drawn afterwards); removed nodes
     are not reachable from head (C01.S), so they are not resurrected
  G  the traversal comparison is non-strict (node generation <= captured); the counter travels with the nodes in swap and move
     assignment; cloned nodes draw through getNextCounter
"""
from ..facts import AnalysisBroken, short
from ..paths import path, pstr, last_field, root_var_id, fields_in
from ..locks import mutex_name
from ..effects import writes
from .. import formula as F
from .qcommon import TUInfo
from . import listrules as L
from .listrules import edge_dominates, nonnull_test

EXPLANATION = 'C19: zero/non-zero abstract interpretation of getNextCounter, recognised rewrite walk under the mutex with a constant generation 1, non-strict traversal comparison, counter transfer in swap/move.'
ASSUMPTIONS = ['the arithmetic over 2^32 additions and concurrent wraps are not decided; unsigned wrap-around is defined behaviour']
UNITS = ['w_callbacklist.cpp', 'w_dispatcher.cpp']


def check(ctx):
    ctx.rule('C19.Z', 'getNextCounter never returns the removed mark')
    ctx.rule('C19.W', 'on wrap every linked node is rewritten to generation 1 under the mutex before the redraw')
    ctx.rule('C19.G', 'non-strict traversal comparison; counter travels with the nodes')
    for tu in ctx.tus:
        info = TUInfo(tu)
        for f in tu.fns_named('CallbackListBase::getNextCounter'):
            check_next(ctx, tu, info, f)
        L.check_traversal(ctx, 'C19.G', tu, info)
        check_transfer(ctx, tu, info)
        # every generation is drawn by getNextCounter: a raw increment elsewhere bypasses the wrap handling and can hand out 0, the
        # mark of a removed callback (nodes stamped with it are never invoked, and remove() reports them as already gone)
        from ..effects import writes as _writes
        for f in tu.fns:
            if f.outermost().cls != 'CallbackListBase' or f.outermost().name == 'getNextCounter':
                continue
            raw = [w for w in _writes(f) if w['path'] == ('this', '.currentCounter') and
                   (w['how'] in ('++', '--', '+=', '-=') or (w['how'].startswith('call:') and w['how'][5:].split('::')[-1] in ('fetch_add', 'fetch_sub')))]
            if raw or f.name in ('cloneFrom', 'doAllocateNode', 'append', 'prepend', 'insert'):
                ctx.ob('C19.Z', f, 'generations are drawn through getNextCounter only', not raw,
                       detail='raw %s of currentCounter at %s' % (', '.join(w['how'] for w in raw), ', '.join(f.nloc(w['node']) for w in raw)),
                       key_detail='raw draw')
    ctx.require_min('C19.Z', 1)
    ctx.require_min('C19.W', 1)
    ctx.require_min('C19.G', 3)


def is_draw(f, n):
    """n is `++this.currentCounter` (prefix)."""
    n = f.strip_all_casts(n)
    o = f.nodes[n]
    if o['cls'] == 'CXXOperatorCallExpr' and o.get('op') == '++' and len(o.get('args', [])) == 1:
        return path(f, o['args'][0]) == ('this', '.currentCounter')
    if o['cls'] == 'UnaryOperator' and o.get('op') == '++' and not o.get('postfix'):
        return path(f, f.kids(n)[0]) == ('this', '.currentCounter')
    return False


def check_next(ctx, tu, info, f):
    rets = f.return_nodes()
    okr = len(rets) == 1
    rv = None
    if okr:
        v = f.strip_all_casts(f.kids(rets[0])[0])
        okr = f.nodes[v]['cls'] == 'DeclRefExpr' and f.decl(v)['kind'] == 'var'
        if okr:
            rv = f.decl(v)
    ctx.ob('C19.Z', f, 'getNextCounter returns one local result variable', okr)
    if not okr:
        return
    rid, rname = rv['id'], rv['name']
    t = tu.type(rv['t'])
    ctx.ob('C19.Z', f, 'the generation type is unsigned (wrap-around is defined)', bool(t) and t.get('unsigned'))
    vd = f.var_decls().get(rid)
    init_ok = bool(vd) and vd.get('init') and is_draw(f, vd['init'])
    ctx.ob('C19.Z', f, 'the result is drawn with an atomic pre-increment of currentCounter', bool(init_ok))
    assigns = [w for w in writes(f) if w['path'] == ('v:%s#%d' % (rname, rid),) and w['how'] == 'assign']
    # the zero test
    tests = []
    for bid, blk in f.blocks.items():
        c = blk.get('cond')
        if not c or len(blk['succ']) != 2:
            continue
        try:
            fm = F.boolexpr(f, c, {}, False)
        except F.Unsupported:
            continue
        neg = False
        while fm[0] == 'not':
            neg = not neg
            fm = fm[1]
        if fm == ('atom', '0 == %s' % rname):
            tests.append((bid, 'false' if neg else 'true'))
    ctx.ob('C19.Z', f, 'the drawn value is tested against the removed mark (0)', len(tests) == 1, detail='%d tests' % len(tests))
    if len(tests) != 1:
        return
    bid, zrole = tests[0]
    # every path to the return either takes the non-zero edge with the first draw, or passes a redraw on the zero edge
    redraws = [w for w in assigns if is_draw(f, w['rhs']) and edge_dominates(f, bid, zrole, w['pos'])]
    other = [w for w in assigns if w not in redraws]
    ok = len(redraws) == 1 and not other
    if ok:
        # the redraw lies on every path from the zero edge to the return
        zsucc = f.blocks[bid]['succ'][0] if zrole == 'true' else f.blocks[bid]['succ'][1]
        ok = f.pos_postdominates(redraws[0]['pos'], (zsucc, 0))
    ctx.ob('C19.Z', f, 'on the zero edge the value is redrawn (0 -> 1) on every path before it is returned; nothing else assigns the result', ok,
           detail='redraws on the zero edge: %d, other assignments: %d' % (len(redraws), len(other)))
    # W: the walk
    si = info.scopes(f)
    cw = [w for w in writes(f) if w['path'][-1] == '.counter' and w['how'] == 'assign']
    okw = len(cw) == 1
    detail = '%d assignments to a node counter' % len(cw)
    if okw:
        w = cw[0]
        p = w['path']
        cur = root_var_id(p)
        curvd = f.var_decls().get(cur)
        rhs = f.strip_all_casts(w['rhs'])
        g = f.nodes[rhs].get('value', f.nodes[rhs].get('cv'))
        in_loop = f.block_reaches(w['pos'][0], w['pos'][0])
        held = 'mutex' in {mutex_name(m) for m in si.held_must(w['pos'], 'lock')}
        on_zero = edge_dominates(f, bid, zrole, w['pos'])
        starts_head = bool(curvd) and curvd.get('init') and path(f, f.value_source(curvd['init'])) == ('this', '.head')
        cname = curvd['name'] if curvd else '?'
        adv = [x for x in writes(f) if x['path'] == ('v:%s#%d' % (cname, cur),) and x['how'] == 'assign']
        adv_ok = len(adv) == 1 and path(f, adv[0]['rhs']) == ('v:%s#%d' % (cname, cur), '*', '.next') and f.block_reaches(adv[0]['pos'][0], adv[0]['pos'][0])
        loopconds = [b for b in f.blocks if f.block_reaches(b, b) and f.blocks[b].get('cond') and nonnull_test(f, f.blocks[b]['cond'], cname)]
        before_redraw = bool(redraws) and not f.pos_reaches(redraws[0]['pos'], w['pos']) and f.pos_reaches(w['pos'], redraws[0]['pos'])
        # every iteration both rewrites and advances (no skipping)
        every = False
        if len(loopconds) == 1 and adv_ok:
            body = f.blocks[loopconds[0]]['succ'][0]
            every = L.adv_on_all_back_paths(f, body, loopconds[0], adv[0]['pos']) and L.adv_on_all_back_paths(f, body, loopconds[0], w['pos'])
        okw = in_loop and held and on_zero and starts_head and adv_ok and len(loopconds) == 1 and before_redraw and every and p == ('v:%s#%d' % (cname, cur), '*', '.counter')
        detail = 'walk: in loop=%s under mutex=%s on zero edge=%s starts at head=%s advances by next=%s runs while non-null=%s every node=%s before redraw=%s value=%s' \
                 % (in_loop, held, on_zero, starts_head, adv_ok, len(loopconds) == 1, every, before_redraw, g)
        ctx.ob('C19.W', f, 'the rewritten generation g satisfies 0 < g <= 1 (not the removed mark, not above the next drawn value)', g == 1,
               detail='g = %s: g = 0 would mark every callback removed; g > 1 makes existing callbacks look newer than invocations that start '
                      'right after the wrap (they would be skipped)' % g)
    ctx.ob('C19.W', f, 'on wrap, a walk from head over next rewrites every linked node under the mutex before the redraw', okw, detail=detail)


def check_transfer(ctx, tu, info):
    for f in tu.fns_named('CallbackListBase::swap'):
        other = f.params[0]['id']
        oname = f.params[0]['name']
        ws = info.writes(f)
        mine = [w for w in ws if w['path'] == ('this', '.currentCounter') and w['how'] in ('call:exchange', 'call:store', 'assign')]
        theirs = [w for w in ws if w['path'] == ('v:%s#%d' % (oname, other), '.currentCounter') and w['how'] in ('call:exchange', 'call:store', 'assign')]
        ok = len(mine) == 1 and len(theirs) == 1
        detail = 'writes to this counter: %d, to other\'s: %d' % (len(mine), len(theirs))
        if ok:
            # this gets other's value; other gets the saved value of this
            a = f.call_args(mine[0]['node'])
            src = f.strip_all_casts(a[0]) if a else None
            ok1 = src is not None and f.is_call(src) and path(f, f.call_obj(src)) == ('v:%s#%d' % (oname, other), '.currentCounter')
            b = f.call_args(theirs[0]['node'])
            src2 = f.strip_all_casts(b[0]) if b else None
            ok2 = False
            if src2 is not None and f.nodes[src2]['cls'] == 'DeclRefExpr' and f.decl(src2)['kind'] == 'var':
                vd = f.var_decls().get(f.decl(src2)['id'])
                if vd and vd.get('init'):
                    i = f.strip_all_casts(vd['init'])
                    ok2 = f.is_call(i) and path(f, f.call_obj(i)) == ('this', '.currentCounter') and \
                        f.pos_dominates(f.pos(vd['stmt']), mine[0]['pos']) and f.pos(vd['stmt']) != mine[0]['pos']
            ok = ok1 and ok2
            detail += '; this <- other: %s; other <- saved this: %s' % (ok1, ok2)
        ctx.ob('C19.G', f, 'swap exchanges the generation counters together with the nodes', ok, detail=detail)
        # std::swap(head, other.head), head.swap(other.head) or other.head.swap(head): the member and the other list's member of the same name
        heads = [w for w in ws if w['how'].startswith('arg:') and w['how'].endswith('swap') and w['path'] in (('this', '.head'), ('this', '.tail'))]
        for w in ws:
            if w['how'] == 'call:swap' and len(w['path']) == 2 and w['path'][1] in ('.head', '.tail'):
                a = f.call_args(w['node'])
                pa = path(f, a[0]) if len(a) == 1 else ()
                both = {w['path'], pa}
                if both == {('this', w['path'][1]), ('v:%s#%d' % (oname, other), w['path'][1])}:
                    heads.append({'path': ('this', w['path'][1])})
        ctx.ob('C19.G', f, 'swap exchanges head and tail', len({w['path'] for w in heads}) == 2)
    for f in tu.fns_named('CallbackListBase::operator='):
        if f.d.get('assign') != 'move':
            continue
        other = f.params[0]['id']
        oname = f.params[0]['name']
        ws = [w for w in info.writes(f) if w['path'] == ('this', '.currentCounter')]
        ok = False
        for w in ws:
            srcs = []
            if w.get('rhs'):
                srcs.append(w['rhs'])
            srcs += f.call_args(w['node']) if f.is_call(w['node']) else []
            for s in srcs:
                for d in f.descendants(s):
                    if f.nodes[d]['cls'] == 'MemberExpr' and path(f, d) == ('v:%s#%d' % (oname, other), '.currentCounter'):
                        ok = True
        ctx.ob('C19.G', f, 'move assignment takes the generation counter together with the nodes', ok,
               detail='nodes with generations up to other.currentCounter arrive in a list whose counter is lower: they are skipped by every invocation until the counter catches up')
