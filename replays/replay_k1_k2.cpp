#include <eventpp/hetereventdispatcher.h>
#include <eventpp/callbacklist.h>
#include <eventpp/utilities/scopedremover.h>
#include <iostream>
#include <string>
#include <new>
#include <cstdlib>
using namespace eventpp;
static long failAt = -1, allocs = 0;
void* operator new(std::size_t n) { if (failAt >= 0 && allocs++ == failAt) throw std::bad_alloc(); void* p = std::malloc(n); if(!p) throw std::bad_alloc(); return p; }
void operator delete(void* p) noexcept { std::free(p); }
void operator delete(void* p, std::size_t) noexcept { std::free(p); }
struct P { using ArgumentPassingMode = ArgumentPassingIncludeEvent;
  static std::string getEvent(std::string e, int) { return e; } };
int main(int argc, char**argv) {
  int which = atoi(argv[1]);
  if (which==1) {
    HeterEventDispatcher<std::string, HeterTuple<void(std::string,int)>, P> d;
    std::string seen="<none>";
    const std::string key = "a-long-key-beyond-the-small-string-optimisation";
    d.appendListener(key, [&](std::string s, int){ seen = s; });
    d.dispatch(std::string(key), 1);
    std::cout << "listener saw '" << seen << "' (expect the key)\n";
  }
  if (which==2) {
    using CL = CallbackList<void()>;
    CL cl; int n = 0;
    for (long k = 0; k < 8; ++k) {
      ScopedRemover<CL> r(cl);
      try { allocs = 0; failAt = k; r.append([&]{ ++n; }); failAt = -1; std::cout << "k="<<k<<" no fault\n"; break; }
      catch (std::bad_alloc&) { failAt = -1; bool attached = !cl.empty(); std::cout << "k="<<k<<" bad_alloc, listener attached afterwards="<<attached; r.reset(); std::cout << " still attached after reset="<<!cl.empty()<<"\n"; if(!cl.empty()) break; }
    }
  }
}
