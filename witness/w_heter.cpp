// Witness: heterogeneous callback list / dispatcher / queue.
#include "common.h"

namespace wit {

using PL = eventpp::HeterTuple<void (), void (int, const std::string &), void (Payload), void (const std::string &)>;

template <typename CL>
void exerciseHeterList()
{
	CL list;
	auto h0 = list.append([]() {});
	auto h1 = list.append([](int, const std::string &) {});
	auto h2 = list.prepend([](int, const std::string &) {});
	auto h3 = list.insert([](int, const std::string &) {}, h1);
	auto h4 = list.insert([]() {}, h1);
	auto h5 = list.append([](Payload) {});
	auto h6 = list.prepend([](const std::string &) {});
	(void)list.remove(h2); (void)list.remove(h0);
	(void)h3; (void)h4; (void)h5; (void)h6;
	(void)list.empty(); (void)(bool)list;
	list.template forEach<void ()>([](const typename CL::Handle &, const std::function<void ()> &) {});
	list.template forEach<void (int, const std::string &)>([](const std::function<void (int, const std::string &)> &) {});
	list.template forEach<void (int, const std::string &)>([](const typename CL::Handle &, const std::function<void (int, const std::string &)> &) {});
	(void)list.template forEachIf<void (Payload)>([](const typename CL::Handle &, const std::function<void (Payload)> &) { return true; });
	(void)list.template forEachIf<void ()>([](const typename CL::Handle &, const std::function<void ()> &) { return true; });
	(void)list.template forEachIf<void (Payload)>([](const std::function<void (Payload)> &) { return true; });
	list(); list(1, "a"); list(Payload()); Payload p; list(p); list(std::string("s"));
	CL copied(list);
	CL moved(std::move(copied));
	copied = list;
	moved = std::move(copied);
	list.swap(moved);
	swap(list, moved);
}

template <typename D>
void exerciseHeterDispatcher()
{
	D d;
	auto h0 = d.appendListener(1, []() {});
	auto h1 = d.appendListener(1, [](int, const std::string &) {});
	auto h2 = d.prependListener(1, [](Payload) {});
	auto h3 = d.insertListener(1, [](int, const std::string &) {}, h1);
	(void)d.removeListener(1, h0); (void)h2; (void)h3;
	(void)d.hasAnyListener(1);
	d.template forEach<void ()>(1, [](const typename D::Handle &, const std::function<void ()> &) {});
	(void)d.template forEachIf<void (Payload)>(1, [](const std::function<void (Payload)> &) { return true; });
	D copied(d);
	D moved(std::move(copied));
	copied = d;
	moved = std::move(copied);
	d.swap(moved);
	swap(d, moved);
}

struct PoliciesHeterGetEventValue {
	static int getEvent(EventStruct e) { return e.id; }
	static int getEvent(EventStruct e, int) { return e.id; }
	using ArgumentPassingMode = eventpp::ArgumentPassingIncludeEvent;
};
// predicates callable with several prototypes: processIf has to examine the events of every one of them (rule C14.Q2 knows
// the expected prototype indices of these two: PredAll -> all of PL, PredEnds -> {0, 3})
struct PredAll { template <typename ...A> bool operator() (A && ...) const { return true; } };
struct PredEnds { bool operator() () const { return true; } bool operator() (const std::string &) const { return true; } };
struct PoliciesHeterSingle { using Threading = eventpp::SingleThreading; };

void useHeter()
{
	exerciseHeterList<eventpp::HeterCallbackList<PL> >();
	exerciseHeterList<eventpp::HeterCallbackList<PL, PoliciesSingle> >();
	exerciseHeterList<eventpp::HeterCallbackList<PL, PoliciesSpin> >();

	{
		using D = eventpp::HeterEventDispatcher<int, PL>;
		exerciseHeterDispatcher<D>();
		D d; d.dispatch(1); d.dispatch(1, 2, "x"); d.dispatch(1, Payload()); Payload p; d.dispatch(1, p);
		d.directDispatch(1, 2, "x");
	}
	{
		using D = eventpp::HeterEventDispatcher<int, PL, PoliciesMapOrdered>;
		exerciseHeterDispatcher<D>();
		D d; d.dispatch(1); d.dispatch(1, 2, "x");
	}
	{
		using PLI = eventpp::HeterTuple<void (int), void (int, const std::string &), void (int, Payload)>;
		using D = eventpp::HeterEventDispatcher<int, PLI, PoliciesInclude>;
		D d; d.appendListener(1, [](int) {}); d.appendListener(1, [](int, Payload) {});
		d.dispatch(1); d.dispatch(1, "x"); d.dispatch(1, Payload()); int k = 1; d.dispatch(k, "y");
	}
	{
		using PLS = eventpp::HeterTuple<void (std::string), void (std::string, Payload)>;
		using D = eventpp::HeterEventDispatcher<std::string, PLS, PoliciesInclude>;
		D d; d.appendListener("k", [](std::string) {});
		d.dispatch(std::string("k")); d.dispatch(std::string("k"), Payload()); std::string k; d.dispatch(k);
	}
	{
		using PLE = eventpp::HeterTuple<void (EventStruct), void (EventStruct, int)>;
		using D = eventpp::HeterEventDispatcher<int, PLE, PoliciesHeterGetEventValue>;
		D d; d.appendListener(1, [](EventStruct) {});
		d.dispatch(EventStruct{"k", 1}); d.dispatch(EventStruct{"k", 1}, 2); EventStruct e{"k", 1}; d.dispatch(e);
	}
	{
		struct PoliciesHF { using Mixins = eventpp::MixinList<eventpp::MixinHeterFilter>; using ArgumentPassingMode = eventpp::ArgumentPassingIncludeEvent; };
		using D = eventpp::HeterEventDispatcher<int, eventpp::HeterTuple<void (int, int), void (int)>, PoliciesHF>;
		D d;
		d.appendListener(1, [](int, int) {}); d.appendListener(1, [](int) {});
		auto fh = d.appendFilter([](int, int) -> bool { return true; });
		auto fh2 = d.appendFilter([](int) -> bool { return true; });
		(void)d.removeFilter(fh); (void)fh2;
		d.dispatch(1, 2); d.dispatch(1);
	}
	{
		// a prototype with a non-const lvalue reference parameter: the filters have to run for it too (and may rewrite the argument)
		using D = eventpp::HeterEventDispatcher<int, eventpp::HeterTuple<void (Payload &), void (int)>, PoliciesHeterFilter>;
		D d;
		d.appendListener(1, [](Payload &) {}); d.appendListener(1, [](int) {});
		auto fh = d.appendFilter([](Payload &) -> bool { return true; }); (void)fh;
		auto fh2 = d.appendFilter([](int &) -> bool { return true; }); (void)fh2;
		Payload p; d.dispatch(1, p); d.dispatch(1, 5);
	}
	{
		using D = eventpp::HeterEventDispatcher<int, eventpp::HeterTuple<void (int), void ()>, PoliciesHeterTwoMixins>;
		D d;
		d.appendListener(1, [](int) {}); d.appendListener(1, []() {});
		auto fh = d.appendFilter([](int &) -> bool { return true; }); (void)fh;
		d.dispatch(1, 2); d.dispatch(1);
	}
	{
		using Q = eventpp::HeterEventQueue<int, PL>;
		exerciseHeterDispatcher<Q>();
		Q q;
		q.enqueue(1); q.enqueue(1, 2, "x"); q.enqueue(1, 2, std::string("x")); q.enqueue(1, Payload()); Payload p; q.enqueue(1, p);
		q.enqueue(1, std::string("s"));
		(void)q.emptyQueue(); (void)q.process(); (void)q.processOne(); q.clearEvents();
		(void)q.processIf([]() { return true; });
		(void)q.processIf([](int, const std::string &) { return true; });
		(void)q.processIf([](const Payload &) { return true; });
		(void)q.processIf([](const std::string &) { return true; });
		(void)q.processIf(PredAll()); (void)q.processIf(PredEnds());
		q.wait(); (void)q.waitFor(std::chrono::milliseconds(1));
		q.dispatch(1, 2, "x");
		Q c(q); Q m(std::move(c)); c = q; m = std::move(c);
	}
	{
		using Q = eventpp::HeterEventQueue<int, PL, PoliciesHeterSingle>;
		Q q;
		q.enqueue(1); q.enqueue(1, 2, "x"); q.enqueue(1, Payload());
		(void)q.emptyQueue(); (void)q.process(); (void)q.processOne(); q.clearEvents();
		(void)q.processIf([](int, const std::string &) { return true; });
		Q c(q); Q m(std::move(c)); c = q; m = std::move(c);
	}
	{
		using PLS = eventpp::HeterTuple<void (std::string), void (std::string, Payload)>;
		using Q = eventpp::HeterEventQueue<std::string, PLS, PoliciesInclude>;
		Q q; q.appendListener("k", [](std::string) {});
		q.enqueue(std::string("k")); q.enqueue(std::string("k"), Payload()); std::string k; q.enqueue(k);
		(void)q.process(); (void)q.processOne(); q.clearEvents();
		(void)q.processIf([](const std::string &) { return true; });
		(void)q.processIf([](const std::string &, const Payload &) { return true; });
	}
	{
		using PLE = eventpp::HeterTuple<void (EventStruct), void (EventStruct, int)>;
		using Q = eventpp::HeterEventQueue<int, PLE, PoliciesHeterGetEventValue>;
		Q q; q.appendListener(1, [](EventStruct) {});
		q.enqueue(EventStruct{"k", 1}); q.enqueue(EventStruct{"k", 1}, 2); EventStruct e{"k", 1}; q.enqueue(e);
		(void)q.process(); (void)q.processOne();
	}
}

} // namespace wit
