#!/bin/sh
# Builds the libTooling fact extractor (offline; clang 14 + llvm-14 are pre-installed).
set -e
cd "$(dirname "$0")/.."
mkdir -p build
if [ ! -x build/eppfacts ] || [ tool/eppfacts.cc -nt build/eppfacts ]; then
  clang++ $(llvm-config-14 --cxxflags) -O1 -fno-rtti tool/eppfacts.cc -o build/eppfacts \
    /usr/lib/llvm-14/lib/libclang-cpp.so.14 /usr/lib/llvm-14/lib/libLLVM-14.so
fi
echo "eppfacts built: $(pwd)/build/eppfacts"
