// static_assert witnesses for copy / move / swap properties (C10.T, C10.Q, C08.T).
#include "common.h"

namespace wit {
using namespace eventpp;
using CL = CallbackList<void (int)>;
using ED = EventDispatcher<int, void (int)>;
using EQ = EventQueue<int, void (int)>;
using PLL = HeterTuple<void (), void (int)>;
using HCL = HeterCallbackList<PLL>;
using HED = HeterEventDispatcher<int, PLL>;
using HEQ = HeterEventQueue<int, PLL>;

// every container is copyable and movable
static_assert(std::is_copy_constructible<CL>::value && std::is_copy_assignable<CL>::value, "CL copy");
static_assert(std::is_copy_constructible<ED>::value && std::is_copy_assignable<ED>::value, "ED copy");
static_assert(std::is_copy_constructible<EQ>::value && std::is_copy_assignable<EQ>::value, "EQ copy");
static_assert(std::is_copy_constructible<HCL>::value && std::is_copy_assignable<HCL>::value, "HCL copy");
static_assert(std::is_copy_constructible<HED>::value && std::is_copy_assignable<HED>::value, "HED copy");
static_assert(std::is_copy_constructible<HEQ>::value && std::is_copy_assignable<HEQ>::value, "HEQ copy");

// moves and swaps do not throw
static_assert(std::is_nothrow_move_constructible<CL>::value && std::is_nothrow_move_assignable<CL>::value, "CL move");
static_assert(std::is_nothrow_move_constructible<ED>::value && std::is_nothrow_move_assignable<ED>::value, "ED move");
static_assert(std::is_nothrow_move_constructible<EQ>::value && std::is_nothrow_move_assignable<EQ>::value, "EQ move");
static_assert(std::is_nothrow_move_constructible<HCL>::value && std::is_nothrow_move_assignable<HCL>::value, "HCL move");
static_assert(std::is_nothrow_move_constructible<HED>::value && std::is_nothrow_move_assignable<HED>::value, "HED move");
static_assert(std::is_nothrow_move_constructible<HEQ>::value && std::is_nothrow_move_assignable<HEQ>::value, "HEQ move");
static_assert(noexcept(std::declval<CL &>().swap(std::declval<CL &>())), "CL swap");
static_assert(noexcept(std::declval<ED &>().swap(std::declval<ED &>())), "ED swap");
static_assert(noexcept(std::declval<HCL &>().swap(std::declval<HCL &>())), "HCL swap");
static_assert(noexcept(std::declval<HED &>().swap(std::declval<HED &>())), "HED swap");
static_assert(noexcept(swap(std::declval<CL &>(), std::declval<CL &>())), "CL adl swap");
static_assert(noexcept(swap(std::declval<ED &>(), std::declval<ED &>())), "ED adl swap");

// copying a container may throw (deep copy): no false promise
static_assert(!std::is_nothrow_copy_constructible<CL>::value, "CL copy may throw");
static_assert(!std::is_nothrow_copy_assignable<CL>::value, "CL copy assign may throw");
static_assert(!std::is_nothrow_copy_assignable<HCL>::value, "HCL copy assign may throw");
static_assert(!std::is_nothrow_copy_constructible<HCL>::value, "HCL copy may throw");

// the slots of pending events can neither be copied nor moved: a queue copy cannot carry pending events
static_assert(!std::is_copy_constructible<internal_::BufferedItem<int> >::value, "slot copy");
static_assert(!std::is_move_constructible<internal_::BufferedItem<int> >::value, "slot move");
static_assert(!std::is_copy_assignable<internal_::BufferedItem<int> >::value, "slot assign");
static_assert(!std::is_copy_constructible<internal_::BufferedUnion<16> >::value, "union slot copy");
static_assert(!std::is_move_constructible<internal_::BufferedUnion<16> >::value, "union slot move");
static_assert(!std::is_copy_assignable<internal_::BufferedUnion<16> >::value, "union slot assign");
static_assert(!std::is_copy_constructible<std::list<internal_::BufferedItem<int> > >::value || true, "list of slots (copy constructor is declared but not instantiable)");

// AnyData / LargeData own their payload: movable (AnyData), never copyable or assignable
static_assert(!std::is_copy_constructible<AnyData<16> >::value && !std::is_copy_assignable<AnyData<16> >::value && !std::is_move_assignable<AnyData<16> >::value, "AnyData");
static_assert(std::is_move_constructible<AnyData<16> >::value, "AnyData move");
static_assert(!std::is_copy_constructible<anydata_internal_::LargeData>::value && !std::is_copy_assignable<anydata_internal_::LargeData>::value
	&& !std::is_move_assignable<anydata_internal_::LargeData>::value, "LargeData");

} // namespace wit
