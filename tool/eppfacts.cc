// eppfacts — fact extractor for the eventpp static-analysis rules (clang 14 libTooling).
//
// Serialises, for one translation unit, every *instantiated* (non-dependent) function whose
// definition lies under one of the --root directories (default /repo/include/eventpp):
//   - identity, signature, exception specification, constructor initialisers (with an
//     "indeterminate after construction" verdict computed recursively through system classes),
//   - the expression tree (resolved declarations, callees, constructors, casts, literals),
//   - the clang::CFG (all sub-expressions as elements, implicit/temporary destructors, initialisers).
// Plus class layouts/enumerators/typedefs of library classes and the list of function patterns.
// It takes no decision: all rules live in /verif/eppsa (python).
//
// Build: see /verif/bin/build-tools.sh
// Run:   eppfacts [--root=DIR]... --out=FILE unit.cpp -- <compile flags>

#include "clang/AST/ASTConsumer.h"
#include "clang/AST/ASTContext.h"
#include "clang/AST/DeclCXX.h"
#include "clang/AST/DeclTemplate.h"
#include "clang/AST/ExprCXX.h"
#include "clang/AST/RecordLayout.h"
#include "clang/AST/RecursiveASTVisitor.h"
#include "clang/Analysis/CFG.h"
#include "clang/Frontend/CompilerInstance.h"
#include "clang/Frontend/FrontendAction.h"
#include "clang/Tooling/CommonOptionsParser.h"
#include "clang/Tooling/Tooling.h"
#include "llvm/Support/CommandLine.h"
#include "llvm/Support/JSON.h"
#include "llvm/Support/raw_ostream.h"
#include "llvm/Support/FileSystem.h"
#include "llvm/Support/Path.h"

#include <map>
#include <set>
#include <string>
#include <vector>

using namespace clang;
using namespace clang::tooling;
namespace json = llvm::json;

static llvm::cl::OptionCategory Cat("eppfacts options");
static llvm::cl::list<std::string> Roots("root", llvm::cl::desc("library root directory (repeatable)"), llvm::cl::cat(Cat));
static llvm::cl::opt<std::string> OutFile("out", llvm::cl::desc("output JSON file"), llvm::cl::Required, llvm::cl::cat(Cat));

namespace {

struct Extractor {
  ASTContext &Ctx;
  SourceManager &SM;
  PrintingPolicy PP;
  std::vector<std::string> roots;

  // interning tables
  std::map<std::string, int> typeIdx;
  std::vector<json::Object> types;
  std::map<const Decl *, int> declIdx;
  std::vector<json::Object> decls;
  std::map<const FunctionDecl *, int> funcIds;   // keyed by definition/canonical
  std::map<const Decl *, int> varIds;

  std::vector<json::Value> functions;
  std::vector<json::Value> classes;
  std::vector<json::Value> patterns;
  std::set<const Decl *> seenClasses;
  std::set<const FunctionDecl *> seenFuncs;
  std::set<std::string> seenPatterns;

  Extractor(ASTContext &C) : Ctx(C), SM(C.getSourceManager()), PP(C.getLangOpts()) {
    PP.SuppressTagKeyword = true;
    PP.Bool = true;
    PP.FullyQualifiedName = true;
    for (auto &r : Roots) roots.push_back(r);
    if (roots.empty()) roots.push_back("/repo/include/eventpp");
  }

  // ---------- locations ----------
  std::string fileOf(SourceLocation L) {
    if (L.isInvalid()) return "";
    L = SM.getExpansionLoc(L);
    PresumedLoc P = SM.getPresumedLoc(L);
    if (P.isInvalid()) return "";
    return P.getFilename();
  }
  std::string normPath(const std::string &f) {
    llvm::SmallString<256> p(f);
    llvm::sys::path::remove_dots(p, true);
    return std::string(p.str());
  }
  bool inRoots(SourceLocation L) {
    std::string f = normPath(fileOf(L));
    for (auto &r : roots)
      if (f.compare(0, r.size(), r) == 0) return true;
    return false;
  }
  std::string locStr(SourceLocation L) {
    if (L.isInvalid()) return "";
    L = SM.getExpansionLoc(L);
    PresumedLoc P = SM.getPresumedLoc(L);
    if (P.isInvalid()) return "";
    std::string f = normPath(P.getFilename());
    return f + ":" + std::to_string(P.getLine()) + ":" + std::to_string(P.getColumn());
  }
  int lineOf(SourceLocation L) {
    if (L.isInvalid()) return 0;
    PresumedLoc P = SM.getPresumedLoc(SM.getExpansionLoc(L));
    return P.isInvalid() ? 0 : (int)P.getLine();
  }

  // ---------- names ----------
  // Pattern key: enclosing class/function names without template arguments or namespaces
  // of eventpp (namespaces are kept for everything else).
  std::string keyOfContext(const DeclContext *DC) {
    std::vector<std::string> parts;
    while (DC && !DC->isTranslationUnit()) {
      if (auto *NS = dyn_cast<NamespaceDecl>(DC)) {
        if (!NS->isAnonymousNamespace() && !NS->isInline()) parts.push_back(NS->getNameAsString());
      } else if (auto *RD = dyn_cast<CXXRecordDecl>(DC)) {
        if (RD->isLambda()) parts.push_back("(lambda)");
        else if (RD->getIdentifier()) parts.push_back(RD->getNameAsString());
        else parts.push_back("(anon)");
      } else if (auto *FD = dyn_cast<FunctionDecl>(DC)) {
        parts.push_back(FD->getNameAsString());
      } else if (auto *ED = dyn_cast<EnumDecl>(DC)) {
        if (ED->getIdentifier()) parts.push_back(ED->getNameAsString());
      }
      DC = DC->getParent();
    }
    std::string s;
    for (auto it = parts.rbegin(); it != parts.rend(); ++it) {
      if (!s.empty()) s += "::";
      s += *it;
    }
    return s;
  }
  std::string keyOf(const NamedDecl *D) {
    std::string c = keyOfContext(D->getDeclContext());
    std::string n = D->getNameAsString();
    if (auto *RD = dyn_cast<CXXRecordDecl>(D)) {
      if (RD->isLambda()) n = "(lambda)";
      else if (!RD->getIdentifier()) n = "(anon)";
    }
    return c.empty() ? n : c + "::" + n;
  }
  std::string qname(const NamedDecl *D) {
    std::string s;
    llvm::raw_string_ostream os(s);
    D->getNameForDiagnostic(os, PP, true);
    return os.str();
  }

  // ---------- types ----------
  int typeOf(QualType T) {
    if (T.isNull()) return -1;
    QualType C = T.getCanonicalType();
    std::string s = C.getAsString(PP);
    auto it = typeIdx.find(s);
    if (it != typeIdx.end()) return it->second;
    int idx = (int)types.size();
    typeIdx[s] = idx;
    types.emplace_back();
    json::Object o;
    o["s"] = s;
    int ref = 0;
    QualType B = C;
    if (C->isLValueReferenceType()) { ref = 1; B = C->getPointeeType(); }
    else if (C->isRValueReferenceType()) { ref = 2; B = C->getPointeeType(); }
    o["ref"] = ref;
    o["const"] = B.isConstQualified();
    if (ref) o["base"] = typeOf(B);
    if (B->isPointerType()) o["ptr"] = typeOf(B->getPointeeType());
    o["scalar"] = B->isScalarType();
    o["unsigned"] = B->isUnsignedIntegerType();
    if (const CXXRecordDecl *RD = B->getAsCXXRecordDecl()) {
      o["rec"] = keyOf(RD);
      o["recq"] = qname(RD);
      o["reclib"] = inRoots(RD->getLocation());
      if (RD->isCompleteDefinition()) {
        o["ntmove"] = RD->hasNonTrivialMoveConstructor() || (RD->hasNonTrivialCopyConstructor() && !RD->hasTrivialMoveConstructor());
        o["trivcopy"] = RD->isTriviallyCopyable();
        o["lambda"] = RD->isLambda();
      }
      if (auto *Spec = dyn_cast<ClassTemplateSpecializationDecl>(RD)) {
        json::Array targs;
        for (const TemplateArgument &A : Spec->getTemplateArgs().asArray()) {
          if (A.getKind() == TemplateArgument::Type) targs.push_back(typeOf(A.getAsType()));
          else if (A.getKind() == TemplateArgument::Integral) targs.push_back(json::Object{{"int", (int64_t)A.getAsIntegral().getExtValue()}});
          else if (A.getKind() == TemplateArgument::Pack) {
            json::Array pk;
            for (const TemplateArgument &P : A.pack_elements()) {
              if (P.getKind() == TemplateArgument::Type) pk.push_back(typeOf(P.getAsType()));
              else pk.push_back(nullptr);
            }
            targs.push_back(std::move(pk));
          }
          else targs.push_back(nullptr);
        }
        o["targs"] = std::move(targs);
      }
    }
    bool sizable = false;
    if (!B->isDependentType() && !B->isPlaceholderType() && !B->isUndeducedType()) {
      QualType EB = Ctx.getBaseElementType(B);
      if (EB->isScalarType()) sizable = !B->isIncompleteType();
      else if (const CXXRecordDecl *SR = EB->getAsCXXRecordDecl()) sizable = SR->isCompleteDefinition() && !SR->isInvalidDecl() && !B->isIncompleteType();
    }
    if (sizable) {
      o["size"] = (int64_t)Ctx.getTypeSizeInChars(B).getQuantity();
      o["align"] = (int64_t)Ctx.getTypeAlignInChars(B).getQuantity();
    }
    types[idx] = std::move(o);
    return idx;
  }

  // ---------- function ids ----------
  const FunctionDecl *defOf(const FunctionDecl *FD) {
    const FunctionDecl *Def = nullptr;
    if (FD->hasBody(Def) && Def) return Def;
    return FD->getCanonicalDecl();
  }
  int funcId(const FunctionDecl *FD) {
    const FunctionDecl *D = defOf(FD);
    auto it = funcIds.find(D);
    if (it != funcIds.end()) return it->second;
    int id = (int)funcIds.size() + 1;
    funcIds[D] = id;
    return id;
  }
  int varId(const Decl *D) {
    auto it = varIds.find(D);
    if (it != varIds.end()) return it->second;
    int id = (int)varIds.size() + 1;
    varIds[D] = id;
    return id;
  }

  static const char *passKind(QualType T) {
    if (T->isLValueReferenceType()) return T->getPointeeType().isConstQualified() ? "clref" : "lref";
    if (T->isRValueReferenceType()) return "rref";
    return "value";
  }

  bool isNothrow(const FunctionDecl *FD) {
    const auto *FPT = FD->getType()->getAs<FunctionProtoType>();
    if (!FPT) return false;
    if (isUnresolvedExceptionSpec(FPT->getExceptionSpecType())) {
      // destructors and defaulted members: implicit spec not yet evaluated; destructors are noexcept
      // unless a member's is not - treat destructors as nothrow, others as unknown(false).
      return isa<CXXDestructorDecl>(FD);
    }
    return FPT->isNothrow();
  }

  // decl table entry for a function (callee / referenced function)
  int funcDecl(const FunctionDecl *FD) {
    const FunctionDecl *K = defOf(FD);
    auto it = declIdx.find(K);
    if (it != declIdx.end()) return it->second;
    int idx = (int)decls.size();
    declIdx[K] = idx;
    decls.emplace_back();
    json::Object o;
    o["kind"] = "func";
    o["q"] = qname(K);
    o["key"] = keyOf(K);
    o["name"] = K->getNameAsString();
    bool lib = inRoots(K->getLocation());
    o["lib"] = lib;
    o["sys"] = SM.isInSystemHeader(SM.getExpansionLoc(K->getLocation()));
    o["loc"] = locStr(K->getLocation());
    o["line"] = lineOf(K->getLocation());
    const FunctionDecl *Def = nullptr;
    bool hasBody = K->hasBody(Def) && Def && !Def->isDependentContext();
    o["fid"] = (lib && hasBody) ? funcId(K) : -1;
    o["nothrow"] = isNothrow(K);
    o["deleted"] = K->isDeleted();
    o["variadic"] = K->isVariadic();
    o["ret"] = typeOf(K->getReturnType());
    if (K->isOverloadedOperator()) o["op"] = getOperatorSpelling(K->getOverloadedOperator());
    json::Array ps;
    for (const ParmVarDecl *P : K->parameters()) {
      ps.push_back(json::Object{{"pass", passKind(P->getType())}, {"t", typeOf(P->getType())}, {"name", P->getNameAsString()}, {"id", varId(P)}});
    }
    o["params"] = std::move(ps);
    if (auto *MD = dyn_cast<CXXMethodDecl>(K)) {
      o["method"] = true;
      o["static"] = MD->isStatic();
      o["const"] = MD->isConst();
      o["virt"] = MD->isVirtual();
      o["cls"] = keyOf(MD->getParent());
      o["clsq"] = qname(MD->getParent());
      o["clst"] = typeOf(Ctx.getRecordType(MD->getParent()));
      o["lambdaop"] = MD->getParent()->isLambda();
      o["access"] = MD->getAccess() == AS_public ? "public" : (MD->getAccess() == AS_protected ? "protected" : (MD->getAccess() == AS_private ? "private" : "none"));
      if (auto *CD = dyn_cast<CXXConstructorDecl>(K)) {
        const char *ck = "other";
        if (CD->isDefaultConstructor()) ck = "default";
        else if (CD->isCopyConstructor()) ck = "copy";
        else if (CD->isMoveConstructor()) ck = "move";
        else if (CD->isConvertingConstructor(true)) ck = "conv";
        o["ctor"] = ck;
        o["user"] = CD->isUserProvided();
      } else if (isa<CXXDestructorDecl>(K)) {
        o["dtor"] = true;
        o["user"] = K->isUserProvided();
      } else if (MD->isCopyAssignmentOperator()) o["assign"] = "copy";
      else if (MD->isMoveAssignmentOperator()) o["assign"] = "move";
      o["defaulted"] = K->isDefaulted();
      o["implicit"] = K->isImplicit();
    } else {
      o["method"] = false;
      o["static"] = true;
    }
    decls[idx] = std::move(o);
    return idx;
  }

  int valueDecl(const ValueDecl *D) {
    if (auto *FD = dyn_cast<FunctionDecl>(D)) return funcDecl(FD);
    auto it = declIdx.find(D);
    if (it != declIdx.end()) return it->second;
    int idx = (int)decls.size();
    declIdx[D] = idx;
    decls.emplace_back();
    json::Object o;
    o["name"] = D->getNameAsString();
    o["t"] = typeOf(D->getType());
    o["id"] = varId(D);
    if (auto *P = dyn_cast<ParmVarDecl>(D)) {
      o["kind"] = "parm";
      o["pass"] = passKind(P->getType());
      o["index"] = (int)P->getFunctionScopeIndex();
    } else if (auto *V = dyn_cast<VarDecl>(D)) {
      o["kind"] = "var";
      o["local"] = V->isLocalVarDecl();
      o["static"] = V->isStaticLocal() || V->hasGlobalStorage();
    } else if (auto *F = dyn_cast<FieldDecl>(D)) {
      o["kind"] = "field";
      o["cls"] = keyOf(F->getParent());
      o["mutable"] = F->isMutable();
    } else if (auto *E = dyn_cast<EnumConstantDecl>(D)) {
      o["kind"] = "enumc";
      o["value"] = (int64_t)E->getInitVal().getExtValue();
      o["ctx"] = keyOfContext(E->getDeclContext());
    } else {
      o["kind"] = "other";
    }
    decls[idx] = std::move(o);
    return idx;
  }

  // ---------- R-INIT helper: does default-initialisation of RD leave a scalar indeterminate ----------
  std::map<const CXXRecordDecl *, std::string> indetCache;
  std::string classDefaultInitIndeterminate(const CXXRecordDecl *RD, int depth = 0) {
    if (!RD || !RD->isCompleteDefinition() || depth > 12) return "";
    RD = RD->getDefinition();
    auto it = indetCache.find(RD);
    if (it != indetCache.end()) return it->second;
    indetCache[RD] = "";
    std::string why;
    // a user-provided default constructor is trusted only for non-library classes; for library classes it is
    // analysed on its own as a constructor (its own inits are facts).
    for (const CXXConstructorDecl *CD : RD->ctors()) {
      if (CD->isDefaultConstructor() && CD->isUserProvided()) { indetCache[RD] = ""; return ""; }
    }
    if (RD->isUnion()) { indetCache[RD] = ""; return ""; }
    for (const CXXBaseSpecifier &B : RD->bases()) {
      std::string w = classDefaultInitIndeterminate(B.getType()->getAsCXXRecordDecl(), depth + 1);
      if (!w.empty()) { why = w; break; }
    }
    if (why.empty()) {
      for (const FieldDecl *F : RD->fields()) {
        if (F->hasInClassInitializer()) continue;
        if (F->isUnnamedBitfield()) continue;
        QualType T = Ctx.getBaseElementType(F->getType());
        if (T->isReferenceType()) continue;
        if (const CXXRecordDecl *FR = T->getAsCXXRecordDecl()) {
          std::string w = classDefaultInitIndeterminate(FR, depth + 1);
          if (!w.empty()) { why = w; break; }
        } else if (T->isScalarType()) {
          why = qname(RD) + "::" + F->getNameAsString();
          break;
        }
      }
    }
    indetCache[RD] = why;
    return why;
  }

  // ---------- expression tree ----------
  struct FnCtx {
    std::map<const Stmt *, int> ids;
    json::Object nodes;
    int next = 1;
  };

  static const Expr *stripWrappers(const Expr *E) {
    while (E) {
      if (auto *X = dyn_cast<ExprWithCleanups>(E)) E = X->getSubExpr();
      else if (auto *X = dyn_cast<CXXBindTemporaryExpr>(E)) E = X->getSubExpr();
      else if (auto *X = dyn_cast<MaterializeTemporaryExpr>(E)) E = X->getSubExpr();
      else if (auto *X = dyn_cast<ImplicitCastExpr>(E)) E = X->getSubExpr();
      else if (auto *X = dyn_cast<ParenExpr>(E)) E = X->getSubExpr();
      else if (auto *X = dyn_cast<ConstantExpr>(E)) E = X->getSubExpr();
      else break;
    }
    return E;
  }

  int nodeId(FnCtx &F, const Stmt *S) {
    if (!S) return 0;
    auto it = F.ids.find(S);
    if (it != F.ids.end()) return it->second;
    return emitNode(F, S);
  }

  int emitNode(FnCtx &F, const Stmt *S) {
    int id = F.next++;
    F.ids[S] = id;
    json::Object o;
    o["cls"] = S->getStmtClassName();
    o["loc"] = locStr(S->getBeginLoc());
    json::Array kids;
    auto addKid = [&](const Stmt *K) { kids.push_back(K ? nodeId(F, K) : 0); };

    if (auto *E = dyn_cast<Expr>(S)) {
      o["t"] = typeOf(E->getType());
      o["vk"] = E->isLValue() ? "l" : (E->isXValue() ? "x" : "pr");
    }

    if (auto *L = dyn_cast<LambdaExpr>(S)) {
      for (const Expr *I : L->capture_inits()) addKid(I);
      o["fid"] = funcId(L->getCallOperator());
      json::Array caps;
      auto initIt = L->capture_init_begin();
      for (const LambdaCapture &C : L->captures()) {
        json::Object c;
        c["byref"] = C.getCaptureKind() == LCK_ByRef;
        if (C.capturesThis()) c["this"] = true;
        else if (C.capturesVariable()) { c["var"] = varId(C.getCapturedVar()); c["name"] = C.getCapturedVar()->getNameAsString(); }
        if (initIt != L->capture_init_end()) { c["init"] = *initIt ? nodeId(F, *initIt) : 0; ++initIt; }
        caps.push_back(std::move(c));
      }
      o["captures"] = std::move(caps);
      // field order of closure class == capture order
      o["closure"] = typeOf(Ctx.getRecordType(L->getLambdaClass()));
    } else {
      for (const Stmt *K : S->children()) addKid(K);
    }

    if (auto *D = dyn_cast<DeclRefExpr>(S)) {
      o["d"] = valueDecl(D->getDecl());
      o["capt"] = D->refersToEnclosingVariableOrCapture();
    } else if (auto *M = dyn_cast<MemberExpr>(S)) {
      o["d"] = valueDecl(M->getMemberDecl());
      o["arrow"] = M->isArrow();
    } else if (auto *C = dyn_cast<CallExpr>(S)) {
      const FunctionDecl *FD = C->getDirectCallee();
      if (FD) o["c"] = funcDecl(FD);
      else { o["c"] = -1; o["calleeExpr"] = nodeId(F, C->getCallee()); }
      json::Array args;
      for (const Expr *A : C->arguments()) args.push_back(nodeId(F, A));
      o["args"] = std::move(args);
      if (auto *MC = dyn_cast<CXXMemberCallExpr>(S)) {
        if (const Expr *Obj = MC->getImplicitObjectArgument()) o["obj"] = nodeId(F, Obj);
      }
      if (auto *OC = dyn_cast<CXXOperatorCallExpr>(S)) {
        o["op"] = getOperatorSpelling(OC->getOperator());
        if (FD && isa<CXXMethodDecl>(FD) && OC->getNumArgs() > 0) o["obj"] = nodeId(F, OC->getArg(0));
      }
    } else if (auto *C = dyn_cast<CXXConstructExpr>(S)) {
      o["c"] = funcDecl(C->getConstructor());
      json::Array args;
      for (const Expr *A : C->arguments()) args.push_back(nodeId(F, A));
      o["args"] = std::move(args);
      o["list"] = C->isListInitialization();
      o["elide"] = C->isElidable();
      o["zero"] = C->requiresZeroInitialization();
      o["temp"] = isa<CXXTemporaryObjectExpr>(S);
    } else if (auto *N = dyn_cast<CXXNewExpr>(S)) {
      json::Array pl;
      for (unsigned i = 0; i < N->getNumPlacementArgs(); ++i) pl.push_back(nodeId(F, N->getPlacementArg(i)));
      o["placement"] = std::move(pl);
      o["alloc"] = typeOf(N->getAllocatedType());
      if (N->getConstructExpr()) o["construct"] = nodeId(F, N->getConstructExpr());
      else if (N->getInitializer()) o["construct"] = nodeId(F, N->getInitializer());
      if (N->getOperatorNew()) o["opnew"] = funcDecl(N->getOperatorNew());
      o["array"] = N->isArray();
    } else if (auto *Dl = dyn_cast<CXXDeleteExpr>(S)) {
      o["array"] = Dl->isArrayForm();
    } else if (auto *C = dyn_cast<CastExpr>(S)) {
      o["ck"] = C->getCastKindName();
      if (auto *EC = dyn_cast<ExplicitCastExpr>(S)) o["to"] = typeOf(EC->getTypeAsWritten());
    } else if (auto *U = dyn_cast<UnaryOperator>(S)) {
      o["op"] = UnaryOperator::getOpcodeStr(U->getOpcode()).str();
      o["postfix"] = U->isPostfix();
    } else if (auto *B = dyn_cast<BinaryOperator>(S)) {
      o["op"] = B->getOpcodeStr().str();
    } else if (auto *I = dyn_cast<IntegerLiteral>(S)) {
      o["value"] = (int64_t)I->getValue().getLimitedValue();
    } else if (auto *Bl = dyn_cast<CXXBoolLiteralExpr>(S)) {
      o["value"] = Bl->getValue();
    } else if (auto *DS = dyn_cast<DeclStmt>(S)) {
      json::Array ds;
      for (const Decl *D : DS->decls()) {
        if (auto *V = dyn_cast<VarDecl>(D)) {
          json::Object v;
          v["id"] = varId(V);
          v["d"] = valueDecl(V);
          v["name"] = V->getNameAsString();
          v["t"] = typeOf(V->getType());
          if (V->getInit()) v["init"] = nodeId(F, V->getInit());
          v["initstyle"] = V->getInitStyle() == VarDecl::CInit ? "c" : (V->getInitStyle() == VarDecl::CallInit ? "call" : "list");
          ds.push_back(std::move(v));
        }
      }
      o["decls"] = std::move(ds);
    } else if (auto *TE = dyn_cast<UnaryExprOrTypeTraitExpr>(S)) {
      Expr::EvalResult R;
      if (!TE->isValueDependent() && TE->EvaluateAsInt(R, Ctx)) o["value"] = (int64_t)R.Val.getInt().getExtValue();
    } else if (auto *IL = dyn_cast<InitListExpr>(S)) {
      o["list"] = true;
      if (IL->isSemanticForm() && IL->getType()->getAsCXXRecordDecl()) {
        json::Array fs;
        for (const FieldDecl *Fd : IL->getType()->getAsCXXRecordDecl()->fields()) fs.push_back(Fd->getNameAsString());
        o["fields"] = std::move(fs);
      }
    } else if (auto *DA = dyn_cast<CXXDefaultArgExpr>(S)) {
      const Expr *X = stripWrappers(DA->getExpr());
      Expr::EvalResult R;
      if (X && !X->isValueDependent() && X->getType()->isIntegralOrEnumerationType() && X->EvaluateAsInt(R, Ctx)) o["value"] = (int64_t)R.Val.getInt().getExtValue();
    } else if (auto *DI = dyn_cast<CXXDefaultInitExpr>(S)) {
      o["field"] = DI->getField()->getNameAsString();
      // the default member initialiser itself (instantiated for this class), so that value rules can look through it
      if (const Expr *X = DI->getExpr()) addKid(X);
    } else if (auto *SP = dyn_cast<SizeOfPackExpr>(S)) {
      if (!SP->isValueDependent()) o["value"] = (int64_t)SP->getPackLength();
    }
    // constant value of integral expressions (enumerators, sizeof..., template ints)
    if (auto *E = dyn_cast<Expr>(S)) {
      if (!E->isValueDependent() && !E->isTypeDependent() && E->getType()->isIntegralOrEnumerationType() && !o.get("value")) {
        Expr::EvalResult R;
        if (E->EvaluateAsInt(R, Ctx, Expr::SE_NoSideEffects)) o["cv"] = (int64_t)R.Val.getInt().getExtValue();
      }
    }
    o["kids"] = std::move(kids);
    F.nodes[std::to_string(id)] = std::move(o);
    return id;
  }

  json::Object dtorInfo(const CXXDestructorDecl *DD) {
    json::Object o;
    if (DD) o["c"] = funcDecl(DD);
    return o;
  }

  // ---------- functions ----------
  void emitFunction(const FunctionDecl *FD) {
    if (!seenFuncs.insert(FD).second) return;
    FnCtx F;
    json::Object fo;
    fo["id"] = funcId(FD);
    fo["d"] = funcDecl(FD);
    fo["q"] = qname(FD);
    fo["key"] = keyOf(FD);
    fo["name"] = FD->getNameAsString();
    fo["loc"] = locStr(FD->getLocation());
    fo["file"] = normPath(fileOf(FD->getLocation()));
    fo["line"] = lineOf(FD->getLocation());
    fo["nothrow"] = isNothrow(FD);
    fo["noexcept_written"] = [&] {
      const auto *FPT = FD->getType()->getAs<FunctionProtoType>();
      if (!FPT) return false;
      auto k = FPT->getExceptionSpecType();
      return k == EST_BasicNoexcept || k == EST_NoexceptTrue || k == EST_DynamicNone || k == EST_NoThrow;
    }();
    fo["defaulted"] = FD->isDefaulted();
    fo["implicit"] = FD->isImplicit();
    fo["ret"] = typeOf(FD->getReturnType());
    const char *kind = "free";
    if (auto *MD = dyn_cast<CXXMethodDecl>(FD)) {
      kind = "method";
      if (isa<CXXConstructorDecl>(FD)) kind = "ctor";
      else if (isa<CXXDestructorDecl>(FD)) kind = "dtor";
      else if (MD->getParent()->isLambda()) kind = "lambda";
      else if (MD->isOverloadedOperator()) kind = "operator";
      fo["cls"] = keyOf(MD->getParent());
      fo["clsq"] = qname(MD->getParent());
      fo["clst"] = typeOf(Ctx.getRecordType(MD->getParent()));
      fo["const_this"] = MD->isConst();
      fo["access"] = MD->getAccess() == AS_public ? "public" : (MD->getAccess() == AS_protected ? "protected" : (MD->getAccess() == AS_private ? "private" : "none"));
      fo["virtual"] = MD->isVirtual();
      fo["static"] = MD->isStatic();
      if (MD->isCopyAssignmentOperator()) fo["assign"] = "copy";
      if (MD->isMoveAssignmentOperator()) fo["assign"] = "move";
      if (MD->getParent()->isLambda()) {
        // enclosing function of the lambda
        const DeclContext *DC = MD->getParent()->getDeclContext();
        while (DC && !isa<FunctionDecl>(DC)) DC = DC->getParent();
        if (DC) fo["parent"] = funcId(cast<FunctionDecl>(DC));
        // closure fields
        json::Array cf;
        for (const FieldDecl *Fd : MD->getParent()->fields()) cf.push_back(json::Object{{"t", typeOf(Fd->getType())}, {"id", varId(Fd)}});
        fo["closure_fields"] = std::move(cf);
      }
    }
    fo["kind"] = kind;
    json::Array ps;
    for (const ParmVarDecl *P : FD->parameters())
      ps.push_back(json::Object{{"name", P->getNameAsString()}, {"id", varId(P)}, {"d", valueDecl(P)}, {"t", typeOf(P->getType())}, {"pass", passKind(P->getType())}});
    fo["params"] = std::move(ps);
    if (FD->getTemplateSpecializationArgs()) {
      json::Array targs;
      for (const TemplateArgument &A : FD->getTemplateSpecializationArgs()->asArray()) {
        if (A.getKind() == TemplateArgument::Type) targs.push_back(typeOf(A.getAsType()));
        else if (A.getKind() == TemplateArgument::Integral) targs.push_back(json::Object{{"int", (int64_t)A.getAsIntegral().getExtValue()}});
        else if (A.getKind() == TemplateArgument::Pack) {
          json::Array pk;
          for (const TemplateArgument &P : A.pack_elements()) {
            if (P.getKind() == TemplateArgument::Type) pk.push_back(typeOf(P.getAsType()));
            else pk.push_back(nullptr);
          }
          targs.push_back(std::move(pk));
        } else targs.push_back(nullptr);
      }
      fo["targs"] = std::move(targs);
    }

    // constructor initialisers and R-INIT verdicts
    if (auto *CD = dyn_cast<CXXConstructorDecl>(FD)) {
      fo["delegating"] = CD->isDelegatingConstructor();
      const char *ck = "other";
      if (CD->isDefaultConstructor()) ck = "default";
      else if (CD->isCopyConstructor()) ck = "copy";
      else if (CD->isMoveConstructor()) ck = "move";
      fo["ctor"] = ck;
      json::Array inits;
      std::set<const FieldDecl *> initialised;
      for (const CXXCtorInitializer *I : CD->inits()) {
        json::Object io;
        io["written"] = I->isWritten();
        const Expr *Init = I->getInit();
        io["n"] = Init ? nodeId(F, Init) : 0;
        if (I->isAnyMemberInitializer()) {
          io["kind"] = "member";
          io["member"] = I->getAnyMember()->getNameAsString();
          io["t"] = typeOf(I->getAnyMember()->getType());
          initialised.insert(I->getAnyMember());
        } else if (I->isBaseInitializer()) {
          io["kind"] = "base";
          io["t"] = typeOf(QualType(I->getBaseClass(), 0));
        } else if (I->isDelegatingInitializer()) {
          io["kind"] = "delegating";
        }
        // indeterminate verdict
        std::string why;
        const Expr *X = stripWrappers(Init);
        if (X) {
          if (auto *CE = dyn_cast<CXXConstructExpr>(X)) {
            const CXXConstructorDecl *K = CE->getConstructor();
            if (K->isDefaultConstructor() && !K->isUserProvided() && !CE->requiresZeroInitialization() && CE->getNumArgs() == 0)
              why = classDefaultInitIndeterminate(K->getParent());
          }
        }
        io["indet"] = !why.empty();
        if (!why.empty()) io["why"] = why;
        inits.push_back(std::move(io));
      }
      fo["inits"] = std::move(inits);
      json::Array un;
      if (!CD->isDelegatingConstructor()) {
        for (const FieldDecl *Fd : CD->getParent()->fields()) {
          if (initialised.count(Fd)) continue;
          QualType T = Ctx.getBaseElementType(Fd->getType());
          if (T->isScalarType()) un.push_back(Fd->getNameAsString());
        }
      }
      fo["uninit_scalars"] = std::move(un);
    }

    // body tree
    const Stmt *Body = FD->getBody();
    if (Body) fo["body"] = nodeId(F, Body);

    // CFG
    CFG::BuildOptions BO;
    BO.setAllAlwaysAdd();
    BO.AddImplicitDtors = true;
    BO.AddTemporaryDtors = true;
    BO.AddInitializers = true;
    BO.AddEHEdges = false;
    BO.AddCXXNewAllocator = false;
    BO.AddLifetime = false;
    BO.AddScopes = false;
    BO.AddRichCXXConstructors = false;
    BO.PruneTriviallyFalseEdges = true;
    std::unique_ptr<CFG> G = Body ? CFG::buildCFG(FD, const_cast<Stmt *>(Body), &Ctx, BO) : nullptr;
    if (G) {
      json::Array blocks;
      for (const CFGBlock *B : *G) {
        json::Object bo;
        bo["id"] = (int)B->getBlockID();
        json::Array elems;
        for (const CFGElement &E : *B) {
          json::Object eo;
          switch (E.getKind()) {
          case CFGElement::Statement:
          case CFGElement::Constructor:
          case CFGElement::CXXRecordTypedCall: {
            const Stmt *S = E.castAs<CFGStmt>().getStmt();
            eo["k"] = "stmt";
            eo["n"] = nodeId(F, S);
            break;
          }
          case CFGElement::Initializer: {
            const CXXCtorInitializer *I = E.castAs<CFGInitializer>().getInitializer();
            eo["k"] = "init";
            if (I->isAnyMemberInitializer()) eo["member"] = I->getAnyMember()->getNameAsString();
            else if (I->isBaseInitializer()) eo["base"] = typeOf(QualType(I->getBaseClass(), 0));
            else eo["delegating"] = true;
            eo["n"] = I->getInit() ? nodeId(F, I->getInit()) : 0;
            break;
          }
          case CFGElement::AutomaticObjectDtor: {
            auto D = E.castAs<CFGAutomaticObjDtor>();
            eo["k"] = "autodtor";
            eo["var"] = varId(D.getVarDecl());
            eo["name"] = D.getVarDecl()->getNameAsString();
            eo["t"] = typeOf(D.getVarDecl()->getType());
            if (const CXXDestructorDecl *DD = D.getDestructorDecl(Ctx)) eo["c"] = funcDecl(DD);
            break;
          }
          case CFGElement::TemporaryDtor: {
            auto D = E.castAs<CFGTemporaryDtor>();
            eo["k"] = "tempdtor";
            eo["n"] = nodeId(F, D.getBindTemporaryExpr());
            if (const CXXDestructorDecl *DD = D.getDestructorDecl(Ctx)) eo["c"] = funcDecl(DD);
            break;
          }
          case CFGElement::BaseDtor: {
            auto D = E.castAs<CFGBaseDtor>();
            eo["k"] = "basedtor";
            eo["t"] = typeOf(D.getBaseSpecifier()->getType());
            if (const CXXDestructorDecl *DD = D.getDestructorDecl(Ctx)) eo["c"] = funcDecl(DD);
            break;
          }
          case CFGElement::MemberDtor: {
            auto D = E.castAs<CFGMemberDtor>();
            eo["k"] = "memberdtor";
            eo["member"] = D.getFieldDecl()->getNameAsString();
            eo["t"] = typeOf(D.getFieldDecl()->getType());
            if (const CXXDestructorDecl *DD = D.getDestructorDecl(Ctx)) eo["c"] = funcDecl(DD);
            break;
          }
          case CFGElement::DeleteDtor: {
            auto D = E.castAs<CFGDeleteDtor>();
            eo["k"] = "deletedtor";
            eo["n"] = nodeId(F, D.getDeleteExpr());
            if (const CXXDestructorDecl *DD = D.getDestructorDecl(Ctx)) eo["c"] = funcDecl(DD);
            break;
          }
          default:
            eo["k"] = "other";
            break;
          }
          elems.push_back(std::move(eo));
        }
        bo["elems"] = std::move(elems);
        json::Array succ;
        for (auto I = B->succ_begin(); I != B->succ_end(); ++I) {
          const CFGBlock *R = I->getReachableBlock();
          if (R) succ.push_back((int)R->getBlockID());
          else succ.push_back(nullptr);
        }
        bo["succ"] = std::move(succ);
        if (const Stmt *T = B->getTerminatorStmt()) {
          bo["term"] = nodeId(F, T);
          bo["termcls"] = T->getStmtClassName();
        }
        // "cond": the last condition evaluated in this block (for `if (a && b)` the block that ends in the IfStmt
        // tests `b`); "fullcond": the whole controlling expression of the terminator.
        if (const Expr *LC = B->getLastCondition()) bo["cond"] = nodeId(F, LC);
        else if (const Stmt *TC = B->getTerminatorCondition(true)) bo["cond"] = nodeId(F, TC);
        if (const Stmt *TC = B->getTerminatorCondition(true)) bo["fullcond"] = nodeId(F, TC);
        if (B->hasNoReturnElement()) bo["noreturn"] = true;
        blocks.push_back(std::move(bo));
      }
      fo["blocks"] = std::move(blocks);
      fo["entry"] = (int)G->getEntry().getBlockID();
      fo["exit"] = (int)G->getExit().getBlockID();
    } else {
      fo["blocks"] = json::Array();
    }
    fo["nodes"] = std::move(F.nodes);
    functions.push_back(std::move(fo));
  }

  void notePattern(const FunctionDecl *FD) {
    std::string k = keyOf(FD) + "@" + std::to_string(lineOf(FD->getLocation()));
    if (!seenPatterns.insert(k).second) return;
    json::Object o;
    o["key"] = keyOf(FD);
    o["file"] = normPath(fileOf(FD->getLocation()));
    o["line"] = lineOf(FD->getLocation());
    o["nparams"] = (int)FD->getNumParams();
    o["templated"] = FD->isTemplated();
    // "sig": the signature as written in the pattern (dependent types unexpanded) - the source-order independent
    // discriminator of overloads that share a key (facts.TU numbers overloads by it, not by line).
    {
      const FunctionDecl *P = FD->getTemplateInstantiationPattern();
      if (!P) P = FD;
      std::string sg;
      llvm::raw_string_ostream os(sg);
      PrintingPolicy PP(FD->getASTContext().getLangOpts());
      PP.SuppressTagKeyword = true;
      if (const FunctionTemplateDecl *FT = P->getDescribedFunctionTemplate()) {
        os << "template<";
        bool first = true;
        for (const NamedDecl *ND : *FT->getTemplateParameters()) {
          if (!first) os << ", ";
          first = false;
          ND->print(os, PP);
        }
        os << "> ";
      }
      P->getType().print(os, PP);
      os.flush();
      o["sig"] = sg;
    }
    patterns.push_back(std::move(o));
  }

  void emitClass(const CXXRecordDecl *RD) {
    if (!seenClasses.insert(RD).second) return;
    json::Object o;
    o["key"] = keyOf(RD);
    o["q"] = qname(RD);
    o["t"] = typeOf(Ctx.getRecordType(RD));
    o["loc"] = locStr(RD->getLocation());
    o["lambda"] = RD->isLambda();
    json::Array fields;
    const ASTRecordLayout *Layout = nullptr;
    if (!RD->isInvalidDecl() && !RD->isDependentType()) Layout = &Ctx.getASTRecordLayout(RD);
    unsigned i = 0;
    for (const FieldDecl *F : RD->fields()) {
      json::Object fo;
      fo["name"] = F->getNameAsString();
      fo["t"] = typeOf(F->getType());
      fo["nsdmi"] = F->hasInClassInitializer();
      fo["mutable"] = F->isMutable();
      if (Layout) fo["offset"] = (int64_t)(Layout->getFieldOffset(i) / 8);
      fields.push_back(std::move(fo));
      ++i;
    }
    o["fields"] = std::move(fields);
    if (Layout) { o["size"] = (int64_t)Layout->getSize().getQuantity(); o["align"] = (int64_t)Layout->getAlignment().getQuantity(); }
    json::Array bases;
    for (const CXXBaseSpecifier &B : RD->bases()) bases.push_back(typeOf(B.getType()));
    o["bases"] = std::move(bases);
    json::Object enums, typedefs;
    for (const Decl *D : RD->decls()) {
      if (auto *ED = dyn_cast<EnumDecl>(D)) {
        for (const EnumConstantDecl *EC : ED->enumerators()) enums[EC->getNameAsString()] = (int64_t)EC->getInitVal().getExtValue();
      } else if (auto *TD = dyn_cast<TypedefNameDecl>(D)) {
        if (!TD->getUnderlyingType()->isDependentType()) typedefs[TD->getNameAsString()] = typeOf(TD->getUnderlyingType());
      }
    }
    // enumerators/typedefs inherited from bases (metafunction specialisations derive from helpers)
    for (const CXXBaseSpecifier &B : RD->bases()) {
      if (const CXXRecordDecl *BR = B.getType()->getAsCXXRecordDecl()) {
        if (!BR->isCompleteDefinition()) continue;
        for (const Decl *D : BR->decls()) {
          if (auto *ED = dyn_cast<EnumDecl>(D)) {
            for (const EnumConstantDecl *EC : ED->enumerators()) if (!enums.get(EC->getNameAsString())) enums[EC->getNameAsString()] = (int64_t)EC->getInitVal().getExtValue();
          } else if (auto *TD = dyn_cast<TypedefNameDecl>(D)) {
            if (!TD->getUnderlyingType()->isDependentType() && !typedefs.get(TD->getNameAsString())) typedefs[TD->getNameAsString()] = typeOf(TD->getUnderlyingType());
          }
        }
      }
    }
    o["enums"] = std::move(enums);
    o["typedefs"] = std::move(typedefs);
    // special members
    json::Object sp;
    auto status = [&](const CXXMethodDecl *M) -> std::string {
      if (!M) return "none";
      if (M->isDeleted()) return M->isImplicit() ? "implicitly-deleted" : "deleted";
      if (M->isImplicit()) return "implicit";
      if (M->isDefaulted()) return "defaulted";
      return "user";
    };
    const CXXMethodDecl *cc = nullptr, *mc = nullptr, *ca = nullptr, *ma = nullptr;
    for (const CXXConstructorDecl *C : RD->ctors()) {
      if (C->isCopyConstructor()) cc = C;
      if (C->isMoveConstructor()) mc = C;
    }
    for (const CXXMethodDecl *M : RD->methods()) {
      if (M->isCopyAssignmentOperator()) ca = M;
      if (M->isMoveAssignmentOperator()) ma = M;
    }
    sp["copy_ctor"] = status(cc);
    sp["move_ctor"] = status(mc);
    sp["copy_assign"] = status(ca);
    sp["move_assign"] = status(ma);
    sp["dtor"] = status(RD->getDestructor());
    o["special"] = std::move(sp);
    classes.push_back(std::move(o));
  }
};

class Visitor : public RecursiveASTVisitor<Visitor> {
public:
  Extractor &X;
  explicit Visitor(Extractor &x) : X(x) {}
  bool shouldVisitTemplateInstantiations() const { return true; }
  bool shouldVisitImplicitCode() const { return true; }

  bool VisitFunctionDecl(FunctionDecl *FD) {
    if (!FD->doesThisDeclarationHaveABody()) return true;
    if (!X.inRoots(FD->getLocation())) return true;
    X.notePattern(FD);
    if (FD->isDependentContext()) return true;
    if (FD->isInvalidDecl()) return true;
    X.emitFunction(FD);
    return true;
  }
  bool VisitCXXRecordDecl(CXXRecordDecl *RD) {
    if (!RD->isCompleteDefinition() || !RD->isThisDeclarationADefinition()) return true;
    if (RD->isDependentContext() || RD->isInvalidDecl()) return true;
    if (!X.inRoots(RD->getLocation())) return true;
    X.emitClass(RD);
    return true;
  }
};

class Consumer : public ASTConsumer {
public:
  std::string unit;
  std::vector<std::string> flags;
  void HandleTranslationUnit(ASTContext &Ctx) override {
    if (Ctx.getDiagnostics().hasErrorOccurred()) {
      llvm::errs() << "eppfacts: compilation errors, no facts written\n";
      return;
    }
    Extractor X(Ctx);
    Visitor V(X);
    V.TraverseDecl(Ctx.getTranslationUnitDecl());
    std::error_code EC;
    llvm::raw_fd_ostream OS(OutFile, EC);
    if (EC) { llvm::errs() << "eppfacts: cannot write " << OutFile << "\n"; return; }
    json::Object root;
    root["unit"] = unit;
    root["functions"] = json::Array(std::move(X.functions));
    root["classes"] = json::Array(std::move(X.classes));
    root["patterns"] = json::Array(std::move(X.patterns));
    json::Array ts, ds;
    for (auto &t : X.types) ts.push_back(std::move(t));
    for (auto &d : X.decls) ds.push_back(std::move(d));
    root["types"] = std::move(ts);
    root["decls"] = std::move(ds);
    root["cplusplus"] = (int64_t)(Ctx.getLangOpts().CPlusPlus20 ? 2020 : Ctx.getLangOpts().CPlusPlus17 ? 2017 : Ctx.getLangOpts().CPlusPlus14 ? 2014 : 2011);
    OS << json::Value(std::move(root));
    OS << "\n";
  }
};

class Action : public ASTFrontendAction {
public:
  std::unique_ptr<ASTConsumer> CreateASTConsumer(CompilerInstance &CI, StringRef File) override {
    auto C = std::make_unique<Consumer>();
    C->unit = File.str();
    return C;
  }
};

} // namespace

int main(int argc, const char **argv) {
  auto Exp = CommonOptionsParser::create(argc, argv, Cat);
  if (!Exp) { llvm::errs() << Exp.takeError(); return 2; }
  CommonOptionsParser &OP = Exp.get();
  ClangTool Tool(OP.getCompilations(), OP.getSourcePathList());
  int rc = Tool.run(newFrontendActionFactory<Action>().get());
  return rc == 0 ? 0 : 2;
}
