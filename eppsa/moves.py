"""A7 use-after-move, sequenced (a) or unsequenced (b).

A *consuming site* of variable v: std::move(v) / std::forward<T>(v) / static_cast<T&&>(v) yielding an rvalue of a
class type with a non-trivial move, whose result
  (i)/(ii) is an argument of an object construction through an rvalue-reference parameter (by-value parameter
           initialisation, temporaries, tuples ...),
  (iii)    is the right-hand side of a move assignment,
  (iv)     is bound to an rvalue-reference parameter of a callee that consumes that parameter (summary for library
           callees; assumed for standard-library callees).
Any other reference to v is a *use*.
"""
from .facts import short, MOVE_LIKE, TRANSPARENT_CLS, CAST_CLS
from .paths import path, pstr, root_var_id

SEQUENCED_BINOPS = {',', '&&', '||'}


def _movable_type(tu, tidx):
    t = tu.type(tidx)
    if not t:
        return False
    if t['ref']:
        t = tu.type(t.get('base'))
        if not t:
            return False
    return bool(t.get('rec')) and bool(t.get('ntmove'))


def _is_xvalue_of_var(fn, n):
    """If node n (after transparent wrappers) is move/forward/static_cast<T&&> of a plain variable yielding an rvalue,
    return (var id, inner DeclRefExpr node)."""
    n = fn.strip(n)
    o = fn.nodes[n]
    inner = None
    if o['cls'] == 'CallExpr':
        cal = fn.callee(n)
        if cal and short(cal['key']) in MOVE_LIKE and len(o.get('args', [])) == 1 and o.get('vk') == 'x':
            inner = o['args'][0]
    elif o['cls'] in ('CXXStaticCastExpr', 'CStyleCastExpr', 'CXXFunctionalCastExpr') and o.get('vk') == 'x':
        inner = fn.kids(n)[0] if fn.kids(n) else None
    if inner is None:
        return None
    p = path(fn, inner, resolve_refs=False)
    if len(p) == 1 and p[0].startswith('v:'):
        d = fn.strip_all_casts(inner)
        return root_var_id(p), d, n
    return None


def vtag(v):
    """Stable identification of a violation for finding keys: variable, kind and the consuming construct (so that a known finding
    about one consumer does not hide a new consumer of the same variable in the same function)."""
    how = v['site']['how']
    if how.startswith('constructs '):
        via = 'ctor ' + how[len('constructs '):].replace(' from it', '')
    elif how.startswith('passes it to '):
        via = 'call ' + how[len('passes it to '):].split(',')[0]
    elif how.startswith('passes it as rvalue to '):
        via = 'call ' + how[len('passes it as rvalue to '):]
    else:
        via = how
    return '%s %s via %s' % (v['site']['name'], v['kind'], via)


class MoveAnalysis:
    def __init__(self, tu):
        self.tu = tu
        self._consumes = {}
        self._stack = set()

    # ---- does fn consume its parameter var? ---------------------------------------------------
    def consumes_param(self, fn, var_id):
        key = (fn.id, var_id)
        if key in self._consumes:
            return self._consumes[key]
        if key in self._stack:
            return False
        self._stack.add(key)
        res = any(c['var'] == var_id for c in self.consuming_sites(fn))
        self._stack.discard(key)
        self._consumes[key] = res
        return res

    def consuming_sites(self, fn):
        """List of dict(var, node=xvalue node, consumer=consuming construct/call, how)."""
        out = []
        pm = fn.parent_map()
        for n, o in fn.nodes.items():
            xv = None
            if o['cls'] == 'CallExpr' or o['cls'] in ('CXXStaticCastExpr', 'CStyleCastExpr', 'CXXFunctionalCastExpr'):
                if fn.strip(n) != n:
                    continue
                xv = _is_xvalue_of_var(fn, n)
            if not xv:
                continue
            var, dref, xnode = xv
            d = fn.decl(dref) if fn.nodes[dref]['cls'] == 'DeclRefExpr' else None
            if d is None:
                continue
            if not _movable_type(fn.tu, d['t']):
                continue
            # climb to the consumer
            cur = xnode
            while cur in pm:
                p = pm[cur]
                po = fn.nodes[p]
                pc = po['cls']
                if pc in TRANSPARENT_CLS or (pc in CAST_CLS and po.get('ck') in ('NoOp', 'DerivedToBase', 'UncheckedDerivedToBase', 'ConstructorConversion', 'UserDefinedConversion')):
                    cur = p
                    continue
                how = None
                if pc in ('CXXConstructExpr', 'CXXTemporaryObjectExpr'):
                    cal = fn.callee(p)
                    args = po.get('args', [])
                    if cal and cur in args:
                        i = args.index(cur)
                        if i < len(cal['params']) and cal['params'][i]['pass'] in ('rref',):
                            how = 'constructs %s from it' % short(cal.get('cls', '?'))
                        elif i < len(cal['params']) and cal['params'][i]['pass'] == 'value':
                            how = 'constructs %s from it' % short(cal.get('cls', '?'))
                elif pc in ('CallExpr', 'CXXMemberCallExpr', 'CXXOperatorCallExpr'):
                    cal = fn.callee(p)
                    if cal:
                        allargs = po.get('args', [])
                        if cur in allargs:
                            i = allargs.index(cur)
                            params = cal['params']
                            if pc == 'CXXOperatorCallExpr' and cal.get('method'):
                                i -= 1    # args[0] is the object
                            if 0 <= i < len(params):
                                pk = params[i]['pass']
                                k = short(cal['key'])
                                if k in MOVE_LIKE:
                                    cur = p
                                    continue
                                if pk == 'rref':
                                    if cal.get('assign') == 'move' or po.get('op') == '=':
                                        how = 'move-assigns it'
                                    elif cal.get('lib') and cal.get('fid', -1) >= 0:
                                        g = fn.tu.by_id.get(cal['fid'])
                                        if g is not None and i < len(g.params) and self.consumes_param(g, g.params[i]['id']):
                                            how = 'passes it to %s, which consumes it' % short(cal['key'])
                                    elif cal.get('sys'):
                                        how = 'passes it as rvalue to %s' % k
                                    elif not cal.get('lib'):
                                        how = None     # user callee taking T&&: not assumed to consume
                break
            if how:
                out.append({'var': var, 'name': d['name'], 'node': xnode, 'dref': dref, 'consumer': p, 'how': how})
        return out

    # ---- violations ------------------------------------------------------------------------------
    def violations(self, fn):
        sites = self.consuming_sites(fn)
        if not sites:
            return [], 0
        out = []
        pm = fn.parent_map()
        pairs = 0
        refs = {}
        for n, o in fn.nodes.items():
            if o['cls'] == 'DeclRefExpr':
                d = fn.decl(n)
                if d['kind'] in ('var', 'parm'):
                    refs.setdefault(d['id'], []).append(n)
        # local references that may alias a variable: `const T & r = f(v, ...)` where f returns an lvalue reference and receives v by
        # reference (e.g. a getEvent that hands its argument back by reference) - a use of r is then a use of v
        for vid, vd in fn.var_decls().items():
            t = fn.tu.type(vd.get('t'))
            init = vd.get('init')
            if not t or not t.get('ref') or not init:
                continue
            x = fn.strip_all_casts(init)
            xo = fn.nodes[x]
            if not fn.is_call(x) or xo.get('vk') != 'l':
                continue
            for a in fn.call_args(x):
                pa = path(fn, a, resolve_refs=False)
                if len(pa) == 1 and pa[0].startswith('v:') and root_var_id(pa) in refs and root_var_id(pa) != vid:
                    for u in refs.get(vid, []):
                        refs.setdefault(root_var_id(pa), []).append(u)
        for s in sites:
            v = s['var']
            cons = s['consumer']
            cpos = fn.pos(cons)
            # a lambda that consumes a variable captured by reference consumes the enclosing function's object each
            # time it is called (the library's lambdas are per-element visitors)
            dn = fn.nodes[s['dref']]
            if fn.kind == 'lambda' and dn.get('capt'):
                out.append({'kind': 'loop', 'site': s, 'use': s['dref'],
                            'msg': '%s (captured by the per-element lambda) is consumed at %s (%s): the next element receives a moved-from object'
                                   % (s['name'], fn.nloc(cons), s['how'])})
            # moving from an object that was received by (non-const) lvalue reference consumes the caller's object
            if dn['cls'] == 'DeclRefExpr':
                dd = fn.decl(s['dref'])
                dt = fn.tu.type(dd.get('t'))
                if dd.get('kind') == 'parm' and dt and dt.get('ref') == 1 and not dt.get('const'):
                    out.append({'kind': 'lvalue-ref', 'site': s, 'use': s['dref'],
                                'msg': '%s is a parameter received by lvalue reference and is moved from at %s (%s): the caller\'s object '
                                       '(for the queue: the stored event argument) is left moved-from' % (s['name'], fn.nloc(cons), s['how'])})
            # a consuming site in a loop consumes the same object again
            if cpos and fn.block_reaches(cpos[0], cpos[0]):
                out.append({'kind': 'loop', 'site': s, 'use': s['dref'],
                            'msg': '%s is consumed at %s (%s) inside a loop: the second iteration reads a moved-from object'
                                   % (s['name'], fn.nloc(cons), s['how'])})
            for u in refs.get(v, []):
                if u == s['dref']:
                    continue
                pairs += 1
                # lowest common ancestor
                anc_c = [cons] + list(fn.ancestors(cons))
                chain_u = [u] + list(fn.ancestors(u))
                setc = {a: i for i, a in enumerate(anc_c)}
                lca = None
                for a in chain_u:
                    if a in setc:
                        lca = a
                        break
                # no common ancestor: the two belong to different constructor initialisers (or an initialiser and the body), which
                # are sequenced statements of the control-flow graph
                lo = fn.nodes[lca] if lca is not None else {'cls': '(none)'}
                is_expr = lca is not None and ('t' in lo or lo['cls'] in ('InitListExpr',))
                if lca == cons or (is_expr and lo['cls'] not in ('LambdaExpr',)):
                    # same full expression: which children of the LCA hold the consumer and the use?
                    def child_under(node):
                        ch = [node] + list(fn.ancestors(node))
                        idx = ch.index(lca)
                        return ch[idx - 1] if idx > 0 else None
                    cu = child_under(u)
                    cc = s['node'] if lca == cons else child_under(cons)
                    if lca == cons:
                        # the use is in another argument of the consuming call itself
                        ch = [s['node']] + list(fn.ancestors(s['node']))
                        cc = ch[ch.index(lca) - 1]
                    if cu == cc:
                        continue   # same argument subtree: ordered by nesting (inner consumer handled by its own LCA)
                    kids = [k for k in lo['kids'] if k] + [k for k in lo.get('args', []) if k]
                    order = None
                    if cu in kids and cc in kids:
                        order = kids.index(cc) < kids.index(cu)   # consumer evaluated first?
                    seq = None
                    if lo['cls'] == 'InitListExpr' or lo.get('list'):
                        seq = True
                    elif lo['cls'] == 'BinaryOperator' and lo.get('op') in SEQUENCED_BINOPS:
                        seq = True
                    elif lo['cls'] == 'ConditionalOperator':
                        seq = True
                    else:
                        seq = False
                    if seq:
                        if order:
                            out.append({'kind': 'sequenced', 'site': s, 'use': u,
                                        'msg': '%s is used at %s after it was consumed at %s (%s) earlier in the same braced/sequenced expression'
                                               % (s['name'], fn.nloc(u), fn.nloc(cons), s['how'])})
                    else:
                        out.append({'kind': 'unsequenced', 'site': s, 'use': u,
                                    'msg': '%s is read at %s and consumed at %s (%s) in different operands of the same %s at %s: the order is '
                                           'unspecified (g++ initialises parameters right-to-left, clang++ left-to-right)'
                                           % (s['name'], fn.nloc(u), fn.nloc(cons), s['how'], lo['cls'], fn.nloc(lca))})
                else:
                    upos = fn.pos(u)
                    if cpos and upos and fn.pos_reaches(cpos, upos):
                        out.append({'kind': 'after', 'site': s, 'use': u,
                                    'msg': '%s is used at %s after it was consumed at %s (%s)'
                                           % (s['name'], fn.nloc(u), fn.nloc(cons), s['how'])})
        return out, pairs + len(sites)
