// K3 (property C12): with more than one mixin in the policy's MixinList, a mixin listed *before* MixinFilter that has no
// mixinBeforeDispatch of its own inherits MixinFilter's hook; ForEachMixins calls "the hook of the chain type" at every level,
// so every filter runs twice per dispatch (and sees its own modification of the arguments).
//   g++ -std=c++11 -I/repo/include replay_k3.cpp -o k3 && ./k3     (exit 1 = defect present)
#include <eventpp/eventdispatcher.h>
#include <eventpp/eventqueue.h>
#include <eventpp/mixins/mixinfilter.h>
#include <eventpp/hetereventdispatcher.h>
#include <eventpp/mixins/mixinheterfilter.h>
#include <cstdio>
template <typename Base> struct PlainMixin : Base {};
struct Before { using Mixins = eventpp::MixinList<PlainMixin, eventpp::MixinFilter>; };
struct HBefore { using Mixins = eventpp::MixinList<PlainMixin, eventpp::MixinHeterFilter>; };
struct After { using Mixins = eventpp::MixinList<eventpp::MixinFilter, PlainMixin>; };
template <typename D> int run(const char * name)
{
	D d;
	int filterCalls = 0, seen = 0;
	d.appendFilter([&](int & v) { ++filterCalls; v += 100; return true; });
	d.appendListener(1, [&](int v) { seen = v; });
	d.dispatch(1, 5);
	std::printf("%-28s filter ran %d time(s), listener saw %d (expected 1 and 105)\n", name, filterCalls, seen);
	return (filterCalls == 1 && seen == 105) ? 0 : 1;
}
int main()
{
	int bad = 0;
	bad += run<eventpp::EventDispatcher<int, void (int), Before> >("dispatcher <Plain, Filter>");
	bad += run<eventpp::EventDispatcher<int, void (int), After> >("dispatcher <Filter, Plain>");
	bad += run<eventpp::EventQueue<int, void (int), Before> >("queue <Plain, Filter>");
	{
		eventpp::HeterEventDispatcher<int, eventpp::HeterTuple<void (int)>, HBefore> d;
		int filterCalls = 0, seen = 0;
		d.appendFilter([&](int & v) -> bool { ++filterCalls; v += 100; return true; });
		d.appendListener(1, [&](int v) { seen = v; });
		d.dispatch(1, 5);
		std::printf("%-28s filter ran %d time(s), listener saw %d (expected 1 and 105)\n", "heter <Plain, HeterFilter>", filterCalls, seen);
		bad += (filterCalls == 1 && seen == 105) ? 0 : 1;
	}
	return bad ? 1 : 0;
}
