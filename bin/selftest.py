#!/usr/bin/env python3
"""Self-test of the checkers, both ways (not a MANIFEST command): every hand-written mutant of selftest/mutants.py and every
seeded change under seeded/ is applied to a scratch copy (never to /repo) and the named checks are run against the copy.
'fire' mutants must be reported (exit 1, with the expected rule), 'silent' ones must pass. Runs in parallel."""
import json, os, subprocess, sys, glob, tempfile
from concurrent.futures import ThreadPoolExecutor
V = os.path.dirname(os.path.dirname(os.path.abspath(__file__)))
sys.path.insert(0, os.path.join(V, 'selftest'))
import mutants

only = sys.argv[1:]


def run_one(m):
    args = [os.path.join(V, 'bin', 'mutcheck'), '--props', m['props']]
    if 'patch' in m:
        args += ['--patch', m['patch']]
    else:
        args += ['--file', m['file'], '--old', m['old'], '--new', m['new']]
    r = subprocess.run(args, stdout=subprocess.PIPE, stderr=subprocess.STDOUT, text=True)
    out = r.stdout
    exits = {}
    cur = None
    rules = set()
    for l in out.splitlines():
        if l.startswith('== '):
            cur = l.split()[1]
            exits[cur] = int(l.split('exit=')[1])
        elif 'VIOLATION' in l:
            f = l.strip().split('/')[-1]
            rules.add(f.split('_')[0])
    if 'old text not found' in out:
        return m['id'], 'STALE', 'old text not found (update selftest/mutants.py)'
    if m['expect'] == 'fire':
        ok = any(e == 1 for e in exits.values()) and (m.get('rule') is None or m['rule'] in rules)
        return m['id'], 'ok' if ok else 'MISSED', 'exits %s rules %s (expected %s)' % (exits, sorted(rules), m.get('rule'))
    ok = all(e == 0 for e in exits.values()) and exits
    return m['id'], 'ok' if ok else 'FALSE-ALARM', 'exits %s rules %s' % (exits, sorted(rules))


todo = list(mutants.M)
for meta in sorted(glob.glob(os.path.join(V, 'seeded', '*', 'meta.json'))):
    d = json.load(open(meta))
    props = ','.join(sorted(d.get('checks', {}))) or d['breaks_property']
    todo.append(dict(id='seeded-' + d['id'], patch=os.path.join(os.path.dirname(meta), 'patch.diff'), props=props, expect='fire', rule=None))
if only:
    todo = [m for m in todo if any(o in m['id'] for o in only)]
bad = 0
with ThreadPoolExecutor(max_workers=int(os.environ.get('SELFTEST_JOBS', '6'))) as ex:
    for (i, status, info) in ex.map(run_one, todo):
        print('%-28s %-12s %s' % (i, status, info if status != 'ok' else info[:110]))
        sys.stdout.flush()
        if status != 'ok':
            bad += 1
print('selftest: %d mutants, %d not as expected' % (len(todo), bad))
sys.exit(1 if bad else 0)
