#!/usr/bin/env python3
"""seed-intake: confirm a candidate breaking change in a scratch worktree and file it under /verif/seeded/<id>/.
   bin/seed-intake.py --id C05-m1 --prop C05 --src /tmp/wt/C05/_mut/m1 --needs "..." [--props C05,C04] [--skip-tests]
Steps (all in /tmp/epp_seedwt, a scratch git worktree of /repo HEAD):
  1. demo on the clean tree must exit 0; 2. apply patch; 3. demo must exit non-zero; 4. the repository's unit tests must
  build and pass with the patch; 5. run the listed checks against the patched copy (bin/mutcheck --patch); 6. write meta.json.
"""
import argparse, json, os, shutil, subprocess, sys, time

V = os.path.dirname(os.path.dirname(os.path.abspath(__file__)))
WT = '/tmp/epp_seedwt'
ap = argparse.ArgumentParser()
ap.add_argument('--id', required=True); ap.add_argument('--prop', required=True); ap.add_argument('--src', required=True)
ap.add_argument('--needs', default=''); ap.add_argument('--props', default=None); ap.add_argument('--skip-tests', action='store_true')
ap.add_argument('--what', default='')
ap.add_argument('--wt', default=None, help='scratch worktree to use (default /tmp/epp_seedwt); lets several intakes run side by side')
ap.add_argument('--jobs', default=None)
a = ap.parse_args()
if a.wt:
    WT = a.wt
DEMO = '/tmp/epp_seed_demo_' + a.id


def sh(cmd, **kw):
    return subprocess.run(cmd, shell=True, stdout=subprocess.PIPE, stderr=subprocess.STDOUT, text=True, **kw)


if not os.path.exists(WT):
    r = sh('git -C /repo worktree add --detach %s HEAD' % WT)
    if r.returncode != 0:
        print(r.stdout); sys.exit(2)
sh('git -C %s checkout -- . && git -C %s clean -fdq -e _b -e _mut -e _eq -e _PROMPT.txt' % (WT, WT))
sh('git -C %s checkout --detach -q $(git -C /repo rev-parse HEAD)' % WT)
patch = os.path.join(a.src, 'patch.diff')
demo = os.path.join(a.src, 'demo.cpp')
log = {}
r = sh('git -C %s apply --check %s' % (WT, patch))
if r.returncode != 0:
    print('patch does not apply to /repo HEAD:\n' + r.stdout); sys.exit(1)
build = 'g++ -std=c++17 -O1 -g -pthread -I%s/include %s -o %s' % (WT, demo, DEMO)
r = sh(build)
if r.returncode != 0:
    print('demo does not build on the clean tree:\n' + r.stdout[-2000:]); sys.exit(1)
r = sh('timeout 300 ' + DEMO)
log['demo_clean_exit'] = r.returncode
print('demo on clean tree: exit %d' % r.returncode)
if r.returncode != 0:
    print(r.stdout[-1500:]); print('REJECTED: demo fails on the unchanged tree'); sys.exit(1)
sh('git -C %s apply %s' % (WT, patch))
r = sh(build)
if r.returncode != 0:
    print('demo does not build with the patch:\n' + r.stdout[-2000:]); sys.exit(1)
r = sh('timeout 300 ' + DEMO)
log['demo_patched_exit'] = r.returncode
log['demo_patched_output'] = r.stdout[-1200:]
print('demo with patch: exit %d' % r.returncode)
if r.returncode == 0:
    print('REJECTED: demo passes with the patch'); sys.exit(1)
if not a.skip_tests:
    t0 = time.time()
    cmd = '%sEPP_REPO=%s EPP_TEST_BUILD=%s/_b %s/bin/repo-tests.sh' % (('CMAKE_BUILD_PARALLEL_LEVEL=%s ' % a.jobs) if a.jobs else '', WT, WT, V)
    r = sh(cmd)
    # the repository's multi-threaded timing tests abort now and then on a heavily loaded machine (seen on the unchanged tree as well):
    # one repetition, recorded
    if 'All tests passed' not in r.stdout:
        log['unit_tests_first_attempt'] = r.stdout.strip().splitlines()[-1] if r.stdout.strip() else ''
        r = sh(cmd)
    log['unit_tests'] = r.stdout.strip().splitlines()[-1] if r.stdout.strip() else ''
    print('unit tests with patch (%.0fs): %s' % (time.time() - t0, log['unit_tests']))
    if 'All tests passed' not in r.stdout:
        print(r.stdout[-2500:]); print('REJECTED: the unit tests do not pass with the patch'); sys.exit(1)
# file it
dst = os.path.join(V, 'seeded', a.id)
os.makedirs(dst, exist_ok=True)
shutil.copy(patch, os.path.join(dst, 'patch.diff'))
shutil.copy(demo, os.path.join(dst, 'demo.cpp'))
if os.path.exists(os.path.join(a.src, 'README.txt')):
    shutil.copy(os.path.join(a.src, 'README.txt'), os.path.join(dst, 'README.txt'))
props = (a.props or a.prop).split(',')
r = sh('%s/bin/mutcheck --patch %s --props %s' % (V, patch, ','.join(props)))
print(r.stdout)
detected = {}
cur = None
for l in r.stdout.splitlines():
    if l.startswith('== '):
        cur = l.split()[1]
        detected[cur] = {'exit': int(l.split('exit=')[1]), 'violations': []}
    elif 'VIOLATION' in l and cur:
        detected[cur]['violations'].append(l.strip().split('/')[-1])
meta = {
    'id': a.id, 'breaks_property': a.prop, 'what': a.what, 'needs_to_manifest': a.needs,
    'confirmed': {'repo_head': sh('git -C /repo rev-parse --short HEAD').stdout.strip(), **log,
                  'commands': ['git apply patch.diff (scratch worktree of /repo HEAD)', build.replace(WT, '<worktree>'), 'bin/repo-tests.sh (EPP_REPO=<worktree>)',
                               'bin/mutcheck --patch patch.diff --props ' + ','.join(props)]},
    'checks': detected,
    'detected': any(v['exit'] == 1 for v in detected.values()),
}
json.dump(meta, open(os.path.join(dst, 'meta.json'), 'w'), indent=1)
print('filed %s  detected=%s' % (dst, meta['detected']))
sh('git -C %s checkout -- .' % WT)
