"""C11 — A queue is never reported empty while an event is pending or in dispatch.

  O1 emptyQueue() == (queueList.empty() && queueEmptyCounter == 0) with the list read sequenced before the counter load
  O2 every function that takes events out of queueList and then runs user code (dispatch, predicate) enters a
     CounterGuard on queueEmptyCounter before the take; the guard is held at every such call and at the put-back
  O3 CounterGuard increments in its constructor and decrements the same object in its destructor; nobody else
     writes queueEmptyCounter
  O4 a waitFor time-out with notification enabled implies emptyQueue(): (!pred && notifyCounter==0) => E && C0
"""
from ..facts import AnalysisBroken, short
from ..paths import path, pstr, last_field
from .. import formula as F
from .qcommon import *
from .c07 import canon_formula, implies

EXPLANATION = 'C11: order and formula of emptyQueue(), CounterGuard dominance over take/dispatch/put-back, sole-writer rule, time-out implication.'
ASSUMPTIONS = ['the memory-ordering argument (seq_cst RMW on the counter, acquire load) that makes O1+O2 sufficient on weak memory is not analysed']
UNITS = ['w_queue.cpp', 'w_heter.cpp']


def check(ctx):
    ctx.rule('C11.O1', 'emptyQueue reads the list before the counter and is their conjunction')
    ctx.rule('C11.O2', 'CounterGuard is entered before the take and held over dispatch and put-back')
    ctx.rule('C11.O3', 'CounterGuard is balanced; queueEmptyCounter has no other writer')
    ctx.rule('C11.O4', 'wait predicate false with notification enabled implies emptyQueue()')
    ctx.rule('C11.O5', 'both guard counters start at zero in every queue constructor')
    ctx.rule('C11.O6', 'state derived from the list that the emptiness tests read is refreshed in every critical section that changes the list')
    from .qcommon import check_derived_emptiness
    for tu in ctx.tus:
        info = TUInfo(tu)
        for q in QUEUES:
            check_derived_emptiness(ctx, tu, info, q, 'C11.O6')
        for q in QUEUES:
            check_queue(ctx, tu, info, q)
        check_guard(ctx, tu)
        check_counter_zero(ctx, tu, 'C11.O5')
    ctx.require_min('C11.O1', 2)
    ctx.require_min('C11.O2', 7)   # process, processOne, processIf, processUntil + heter process, processOne, doProcessIf
    ctx.require_min('C11.O3', 2)
    ctx.require_min('C11.O4', 2)
    ctx.require_min('C11.O5', 6)
    ctx.require_min('C11.O6', 2)


def check_queue(ctx, tu, info, q):
    E, C0, N0 = ('atom', 'E'), ('atom', 'C0'), ('atom', 'N0')
    for f in tu.fns_named(q + '::emptyQueue'):
        try:
            fm = canon_formula(F.formula(f))
        except F.Unsupported as e:
            raise AnalysisBroken('C11.O1: cannot extract emptyQueue() of %s: %s' % (f.q, e))
        ok, cex = F.equivalent(fm, ('and', E, C0))
        ctx.ob('C11.O1', f, 'emptyQueue() is true exactly when the list is empty and no processing call holds events', ok,
               detail='extracted %s differs under %s' % (F.show(fm), cex))
        # order: the list read dominates the counter read
        lst = [u for u in list_uses(f, 'queueList')]
        cnt = [n for n, o in f.nodes.items() if o['cls'] == 'MemberExpr' and f.decl(n)['kind'] == 'field' and f.decl(n)['name'] == 'queueEmptyCounter']
        if not lst or not cnt:
            raise AnalysisBroken('C11.O1: emptyQueue() of %s does not read queueList/queueEmptyCounter directly' % f.q)
        okord = all(f.pos_dominates(u['pos'], f.pos(c)) and u['pos'] != f.pos(c) for u in lst for c in cnt)
        ctx.ob('C11.O1', f, 'queueList is read before queueEmptyCounter', okord,
               detail='a consumer that increments the counter and then takes the events can be missed if the counter is read first: '
                      'reader sees counter==0, consumer increments and swaps the list out, reader sees an empty list',
               where=f.nloc(cnt[0]))
    # O4
    for f in tu.fns_named(q + '::doCanProcess'):
        try:
            pred = canon_formula(F.formula(f))
        except F.Unsupported as e:
            raise AnalysisBroken('C11.O4: cannot extract the wait predicate of %s: %s' % (f.q, e))
        ok, cex = implies(('and', ('not', pred), N0), ('and', E, C0))
        ctx.ob('C11.O4', f, 'predicate false and notification enabled => queue empty and nothing in dispatch', ok,
               detail='predicate %s, counterexample %s' % (F.show(pred), cex))

    # the predicates the waits really use (they may spell the test out instead of calling doCanProcess)
    from .c07 import wait_predicates
    for wf, n, pred in wait_predicates(ctx, tu, q):
        ok, cex = implies(('and', ('not', pred), N0), ('and', E, C0))
        ctx.ob('C11.O4', wf, 'predicate false and notification enabled => queue empty and nothing in dispatch', ok,
               detail='predicate %s, counterexample %s' % (F.show(pred), cex), where=wf.nloc(n))

    check_guard_span(ctx, tu, info, q, 'C11.O2')

    # O3 sole writer
    for f in info.members(q):
        if f.cls in tu.counter_guard_classes() and f.kind in ('ctor', 'dtor'):
            continue      # the increment / decrement of a recognised guard class (a local RAII struct): judged by the guard's shape
        for w in info.writes(f):
            if last_field(w['path']) == 'queueEmptyCounter' and w['path'][-1] == '.queueEmptyCounter':
                how = w['how']
                if how.startswith('call:') and how[5:] in ('load',):
                    continue
                ctx.ob('C11.O3', f, 'queueEmptyCounter is changed only through CounterGuard', how == 'guard',
                       detail='%s at %s' % (how, f.nloc(w['node'])), key_detail='writer ' + how)


def check_guard_span(ctx, tu, info, q, rule, only_with_putback=False):
    """O2 (also C07.W7): the in-dispatch guard spans from before the take to after the put-back. For C07 this is what makes the silent
    put-back harmless: the wait predicate contains "!emptyQueue()", which the guard keeps true while events are away, so no waiter can
    have gone to sleep on a queue that the put-back then refills without a notify."""
    members = {g.id: g for g in info.members(q)}
    memo = {}

    def moves(g, depth=0):
        """(takes events out of queueList, puts events back into it) - directly or through member helpers it calls."""
        if g.id in memo:
            return memo[g.id]
        memo[g.id] = (False, False)
        t = b = False
        for w in info.writes(g):
            if w['path'][-1:] != ('.queueList',) or w['path'][0] != 'this':
                continue
            how = w['how']
            meth = how.split(':', 1)[1].split('::')[-1] if ':' in how else how
            if (how.startswith('arg:') and meth in ('splice', 'swap')) or (how.startswith('call:') and meth == 'swap'):
                t = True
            elif how.startswith('call:') and meth in ADD_METHODS:
                b = True
        if depth < 4:
            for n in g.calls():
                for h in g.callee_fns(n):
                    if h.id in members and h.id != g.id and h.kind == 'method':
                        ht, hb = moves(h, depth + 1)
                        t, b = t or ht, b or hb
        memo[g.id] = (t, b)
        return memo[g.id]

    for f in info.members(q):
        if is_lifetime(f) or f.kind == 'lambda':
            continue
        ws = info.writes(f)
        takes = []
        putbacks = []
        # a member helper that takes / puts back counts at its call site (the function may be split into steps)
        for n in f.calls():
            for h in f.callee_fns(n):
                if h.id in members and h.id != f.id and h.kind == 'method' and h.access in ('private', 'protected'):
                    ht, hb = moves(h)
                    if ht:
                        takes.append({'pos': f.pos(n), 'node': n, 'path': ('this', '.queueList'), 'how': 'helper:' + h.name})
                    if hb:
                        putbacks.append({'pos': f.pos(n), 'node': n, 'path': ('this', '.queueList'), 'how': 'helper:' + h.name})
        if takes or putbacks:
            pass
        # a non-public step every call site of which already holds the guard is judged at those call sites
        if f.access in ('private', 'protected') and f.kind == 'method':
            cs = [(g, n) for (g, n) in tu.callers().get(f.id, []) if g.id in members or (g.outermost().id in members)]
            if cs and all(any(last_field(p) == 'queueEmptyCounter' for p in info.scopes(g).held_must(g.pos(n), 'guard')) for (g, n) in cs):
                continue
        for w in ws:
            if w['path'][-1:] != ('.queueList',) or w['path'][0] != 'this':
                continue
            how = w['how']
            meth = how.split(':', 1)[1].split('::')[-1] if ':' in how else how
            if how.startswith('arg:') and meth in ('splice', 'swap'):
                takes.append(w)
            elif how.startswith('call:') and meth == 'swap':
                takes.append(w)
            elif how.startswith('call:') and meth in ADD_METHODS:
                putbacks.append(w)
        if not takes:
            continue
        if only_with_putback and not [w for w in putbacks if any(f.pos_reaches(t['pos'], w['pos']) for t in takes)]:
            continue    # nothing is put back without a notify: the guard span matters for emptiness reporting only
        inv = invoke_calls(info, f)
        inv_after = [n for n in inv if any(f.pos_reaches(t['pos'], f.pos(n)) for t in takes)]
        back = [w for w in putbacks if any(f.pos_reaches(t['pos'], w['pos']) for t in takes)]
        if not inv_after and not back:
            continue    # takeEvent / clearEvents: exactly what is taken is consumed at once, nothing is pending elsewhere meanwhile
        si = info.scopes(f)
        guards = [(pos, p, var) for (pos, kind, p, var, n) in si.acquires if kind == 'guard' and last_field(p) == 'queueEmptyCounter']
        ok_enter = bool(guards) and all(any(f.pos_dominates(g[0], t['pos']) for g in guards) for t in takes)
        ctx.ob(rule, f, 'a CounterGuard on queueEmptyCounter is entered before events are taken out of queueList', ok_enter,
               detail='take at %s is not dominated by a guard: between the take and the dispatch the queue looks empty'
                      % ', '.join(f.nloc(t['node']) for t in takes),
               where=f.nloc(takes[0]['node']))
        bad = []
        for n in inv_after:
            held = si.held_must(f.pos(n), 'guard')
            if not any(last_field(p) == 'queueEmptyCounter' for p in held):
                bad.append(f.nloc(n))
        ctx.ob(rule, f, 'the guard is held at every dispatch / predicate call that follows the take', not bad,
               detail='user code runs without the guard at %s' % ', '.join(bad))
        badp = []
        # a put-back may also sit in the destructor of a local helper object (scope-exit idiom): the object has to die before the guard does
        for bid, blk in f.blocks.items():
            for idx, e in enumerate(blk['elems']):
                if e['k'] != 'autodtor' or 'c' not in e:
                    continue
                g = tu.by_id.get((tu.decls[e['c']] or {}).get('fid', -1)) if isinstance(e['c'], int) and e['c'] < len(tu.decls) else None
                if g is None:
                    continue
                if any(wg['path'][-1:] == ('.queueList',) and wg['how'].startswith('call:') and wg['how'][5:].split('::')[-1] in ADD_METHODS
                       for wg in info.writes(g)):
                    held = si.held_must((bid, idx), 'guard')
                    if not any(last_field(p) == 'queueEmptyCounter' for p in held):
                        badp.append('%s (destructor of local `%s`)' % (f.nloc(blk.get('term')) if blk.get('term') else 'scope exit', e.get('name')))
        for w in putbacks:
            if any(f.pos_reaches(t['pos'], w['pos']) for t in takes):
                held = si.held_must(w['pos'], 'guard')
                if not any(last_field(p) == 'queueEmptyCounter' for p in held):
                    badp.append(f.nloc(w['node']))
        ctx.ob(rule, f, 'the guard is still held when declined events are put back', not badp,
               detail='put-back at %s happens after the guard ended' % ', '.join(badp))



def check_guard(ctx, tu):
    ctors = tu.fns_named('CounterGuard::CounterGuard')
    dtors = tu.fns_named('CounterGuard::~CounterGuard')
    # (a class of another name that has the same shape - a local RAII struct, say - is recognised by facts.TU.counter_guard_classes, which
    # demands exactly these clauses of it; CounterGuard itself is judged here so that breaking it is a violation, not a lost guard)
    for f in ctors + dtors:
        ws = [w for w in writes(f) if w['how'] in ('++', '--', 'assign', '+=', '-=')]
        want = '++' if f.kind == 'ctor' else '--'
        good = [w for w in ws if w['how'] == want and w['path'] == ('this', '.value') and f.pos_postdominates(w['pos'], (f.entry, 0))]
        ctx.ob('C11.O3', f, 'CounterGuard %s performs exactly one %s on the guarded counter' % (f.kind, want),
               len(good) == 1 and len(ws) == 1, detail='writes found: %s' % ', '.join('%s %s' % (w['how'], pstr(w['path'])) for w in ws))
        if f.kind == 'ctor':
            # member 'value' is a reference bound to the constructor parameter
            inits = [i for i in f.d.get('inits', []) if i.get('member') == 'value']
            okref = False
            if inits:
                t = tu.type(inits[0].get('t'))
                n = inits[0].get('n')
                if t and t['ref'] == 1 and n:
                    p = path(f, n)
                    okref = p[0].startswith('v:') and len(p) == 1
            ctx.ob('C11.O3', f, 'the guard refers to (does not copy) the counter it was given', okref)
