"""Hand-written self-test corpus for the checkers (section 8 of DESIGN.md).
Each entry: id, file (relative to the repo root), old, new, props (checks to run), expect ('fire' or 'silent'),
and for 'fire' the rule id that must be among the reported violations.
Breaking entries are the "must catch" edits of DESIGN section 4 and the reverts of the fixed defects; 'silent'
entries are behaviour-preserving rewrites the rules must tolerate."""

H = 'include/eventpp/'
M = []


def m(id, file, old, new, props, expect, rule=None):
    M.append(dict(id=id, file=H + file, old=old, new=new, props=props, expect=expect, rule=rule))


# ---------------- reverts of the repaired defects -------------------------------------------------
m('revert-G7', 'eventqueue.h', """			{
				// The counter is part of the wait predicate: change it under the waiters' mutex,
				// otherwise a waiter between evaluating the predicate and blocking misses the notify below.
				std::lock_guard<Mutex> queueListLock(queue->queueListMutex);
				--queue->queueNotifyCounter;
			}
""", "			--queue->queueNotifyCounter;\n", 'C07', 'fire', 'C07.W3')
m('revert-G2', 'eventdispatcher.h', """		const Event e = GetEvent::getEvent(args...);
		directDispatch(
			e,""", """		directDispatch(
			GetEvent::getEvent(args...),""", 'C04,C20', 'fire', 'C04.M')
m('revert-G4', 'eventqueue.h', """			super(other),
			queueEmptyCounter(0),
			queueNotifyCounter(0)""", "			super(other)", 'C10,C20', 'fire', 'C10.I')
m('revert-G1-remove', 'callbacklist.h', "if(node && node->counter != removedCounter) {\n			doFreeNode(node);", "if(node) {\n			doFreeNode(node);", 'C02,C01', 'fire', 'C02.T1')
m('revert-G8', 'hetercallbacklist.h', "HeterCallbackListBase & operator = (const HeterCallbackListBase & other)\n	{", "HeterCallbackListBase & operator = (const HeterCallbackListBase & other) noexcept\n	{", 'C09', 'fire', 'C09.N')
m('revert-G5', 'hetereventqueue.h', """				if(it->template get<QueuedItemBase>().callableIndex != PrototypeInfo::index) {
					++it;
					continue;
				}
				auto & item = it->template get<QueuedItem<ArgsTuple> >();""", """				auto item = it->template get<QueuedItem<ArgsTuple> >();
				if(item.callableIndex != PrototypeInfo::index) {
					++it;
					continue;
				}""", 'C14', 'fire', 'C14.H2')

# ---------------- must catch ------------------------------------------------------------------------
m('emptyQueue-order', 'eventqueue.h', 'return queueList.empty() && (queueEmptyCounter.load(std::memory_order_acquire) == 0);',
  'return (queueEmptyCounter.load(std::memory_order_acquire) == 0) && queueList.empty();', 'C11', 'fire', 'C11.O1')
m('processOne-no-recheck', 'eventqueue.h', """				if(! queueList.empty()) {
					tempList.splice(tempList.end(), queueList, queueList.begin());
				}
			}

			if(! tempList.empty()) {
				auto & item = tempList.front();""", """				tempList.splice(tempList.end(), queueList, queueList.begin());
			}

			if(! tempList.empty()) {
				auto & item = tempList.front();""", 'C06', 'fire', 'C06.R')
m('doEnqueue-no-lock', 'eventqueue.h', "		std::lock_guard<Mutex> queueListLock(queueListMutex);\n		queueList.splice(queueList.end(), tempList, it);",
  "		queueList.splice(queueList.end(), tempList, it);", 'C06,C07', 'fire', 'C06.G')
m('clearEvents-no-clear', 'eventqueue.h', "				for(auto & item : tempList) {\n					item.clear();\n				}\n", '', 'C05,C08', 'fire', 'C05.P')
m('process-clear-first', 'eventqueue.h', """					doDispatchQueuedEvent(
						item.get(),
						typename MakeIndexSequence<sizeof...(Args)>::Type()
					);
					item.clear();
				}""", """					item.clear();
					doDispatchQueuedEvent(
						item.get(),
						typename MakeIndexSequence<sizeof...(Args)>::Type()
					);
				}""", 'C05', 'fire', 'C05.P')
m('dtor-no-free', 'callbacklist.h', "		// Don't lock mutex here since it may throw exception\n\n		doFreeAllNodes();", "		// Don't lock mutex here since it may throw exception\n", 'C08', 'fire', 'C08.N')
m('swap-no-counter', 'callbacklist.h', """		const auto value = currentCounter.load();
		currentCounter.exchange(other.currentCounter.load());
		other.currentCounter.exchange(value);""", '', 'C10,C19', 'fire', 'C10.F')
m('set-dtor-first', 'internal/eventqueue_i.h', "		new (buffer.data()) T(std::forward<T>(item));\n		dtor = &commonDtor<T>;", "		dtor = &commonDtor<T>;\n		new (buffer.data()) T(std::forward<T>(item));", 'C08,C09', 'fire', 'C08.P')
m('spinlock-relaxed', 'eventpolicies.h', 'locked.test_and_set(std::memory_order_acquire)', 'locked.test_and_set(std::memory_order_relaxed)', 'C03', 'fire', 'C03.L6')
m('filter-ignored', 'mixins/mixinfilter.h', "			) {\n				return false;\n			}", "			) {\n				return true;\n			}", 'C12', 'fire', 'C12.F3')
m('ordered-no-sort', 'utilities/orderedqueuelist.h', "		super::splice(pos, other, it);\n		doSort();", "		super::splice(pos, other, it);", 'C13', 'fire', 'C13.S1')
m('ordered-lte', 'utilities/orderedqueuelist.h', 'return compare(a.get(), b.get());', 'return ! compare(b.get(), a.get());', 'C13', 'fire', 'C13.S3')
m('anyid-no-digest-eq', 'utilities/anyid.h', '(anyid_internal_::compareLessThan(a.getValue(), b.getValue()) && a.getDigest() == b.getDigest())',
  '(anyid_internal_::compareLessThan(a.getValue(), b.getValue()))', 'C18', 'fire', 'C18.L')
m('counter-lt', 'utilities/counterremover.h', "if(--data->triggerCount <= 0) {\n				data->dispatcher.removeListener", "if(--data->triggerCount < 0) {\n				data->dispatcher.removeListener", 'C16', 'fire', 'C16.W2')
m('wrap-to-2', 'callbacklist.h', '					node->counter = 1;', '					node->counter = 2;', 'C19', 'fire', 'C19.W')
m('traversal-strict', 'callbacklist.h', "counter >= node->counter) {\n				if(! f(node)) {", "counter > node->counter) {\n				if(! f(node)) {", 'C19,C02', 'fire', 'C19.G')
m('doInsert-no-head', 'callbacklist.h', "		if(beforeNode == head) {\n			head = node;\n		}", '', 'C01', 'fire', 'C01.S')
m('freenode-resets-link', 'callbacklist.h', "		if(tail == node) {\n			tail = node->previous;\n		}", "		if(tail == node) {\n			tail = node->previous;\n		}\n		node->previous.reset();", 'C01,C02', 'fire', 'C02.T4')
m('callback-forward', 'callbacklist.h', "			callback(args...);\n			return CanContinueInvoking", "			callback(std::forward<Args>(args)...);\n			return CanContinueInvoking", 'C04,C01', 'fire', 'C04.M')
m('map-erase', 'eventdispatcher.h', """		if(callableList) {
			return callableList->remove(handle);
		}""", """		if(callableList) {
			const bool r = callableList->remove(handle);
			if(callableList->empty()) { std::lock_guard<Mutex> lockGuard(listenerMutex); eventCallbackListMap.erase(event); }
			return r;
		}""", 'C03,C02', 'fire', 'C03.L5')
m('heter-copy-shares', 'hetercallbacklist.h', 'callbackListList[i] = other.callbackListList[i]->doClone();', 'callbackListList[i] = other.callbackListList[i];', 'C10', 'fire', 'C10.S')
m('scoped-reset-noremove', 'utilities/scopedremover.h', """		if(dispatcher != nullptr) {
			for(const auto & item : itemList) {
				dispatcher->removeListener(item.event, item.handle);
			}
		}
""", '', 'C15', 'fire', 'C15.P2')
m('anydata-no-floor', 'utilities/anydata.h', 'static constexpr std::size_t maxSize = maxSize_ < sizeof(LargeData) ? sizeof(LargeData) : maxSize_;',
  'static constexpr std::size_t maxSize = maxSize_;', 'C17', 'fire', 'C17.A1')
m('wait-no-predicate', 'eventqueue.h', """		queueListConditionVariable.wait(queueListLock, [this]() -> bool {
			return doCanProcess();
		});""", """		if(! doCanProcess()) {
			queueListConditionVariable.wait(queueListLock);
		}""", 'C07', 'fire', 'C07.W1')
m('enqueue-notify-first', 'eventqueue.h', """		doEnqueue(QueuedEvent{
			GetEvent::getEvent(args...),
			QueuedEventArgumentsType(std::forward<A>(args)...)
		});

		if(doCanProcess()) {
			queueListConditionVariable.notify_one();
		}""", """		if(doCanProcess()) {
			queueListConditionVariable.notify_one();
		}
		doEnqueue(QueuedEvent{
			GetEvent::getEvent(args...),
			QueuedEventArgumentsType(std::forward<A>(args)...)
		});""", 'C07', 'fire', 'C07.W4')

# ---------------- must tolerate (behaviour preserving) ---------------------------------------------
m('eq-unique-lock', 'callbacklist.h', "		std::lock_guard<Mutex> lockGuard(mutex);\n\n		doAppendNode(node);", "		std::unique_lock<Mutex> lockGuard(mutex);\n\n		doAppendNode(node);", 'C03,C01,C02,C09', 'silent')
m('eq-not-eq', 'callbacklist.h', 'if(node && node->counter != removedCounter) {\n			doFreeNode(node);', 'if(node && !(node->counter == removedCounter)) {\n			doFreeNode(node);', 'C02,C01,C03', 'silent')
m('eq-reorder-links', 'callbacklist.h', "			node->previous = tail;\n			tail->next = node;", "			tail->next = node;\n			node->previous = tail;", 'C01,C03', 'silent')
m('eq-member-swap', 'eventqueue.h', """				std::lock_guard<Mutex> queueListLock(queueListMutex);
				std::swap(queueList, tempList);
			}

			if(! tempList.empty()) {
				for(auto & item : tempList) {
					item.clear();""", """				std::lock_guard<Mutex> queueListLock(queueListMutex);
				using std::swap;
				swap(tempList, queueList);
			}

			if(! tempList.empty()) {
				for(auto & item : tempList) {
					item.clear();""", 'C05,C06,C07,C08,C11', 'silent')
m('eq-notify-all', 'eventqueue.h', "				queue->queueListConditionVariable.notify_one();", "				queue->queueListConditionVariable.notify_one();\n				(void)0;", 'C07', 'silent')
m('eq-early-return-filter', 'mixins/mixinfilter.h', """		if(! filterList.empty()) {
			if(! filterList.forEachIf([&args...](typename FilterList::Callback & callback) {
					return callback(args...);
				})
			) {
				return false;
			}
		}

		return true;""", """		if(filterList.empty()) {
			return true;
		}
		return filterList.forEachIf([&args...](typename FilterList::Callback & callback) {
			return callback(args...);
		});""", 'C12', 'silent')
m('eq-one-link-reset', 'callbacklist.h', "			node->previous.reset();\n			node->next.reset();", "			node->next.reset();", 'C08', 'silent')
m('eq-local-event-name', 'eventdispatcher.h', "		const Event e = GetEvent::getEvent(args...);\n		directDispatch(\n			e,", "		const Event theEvent = GetEvent::getEvent(args...);\n		directDispatch(\n			theEvent,", 'C04,C20', 'silent')
m('eq-while-loop', 'eventqueue.h', """				for(auto it = tempList.begin(); it != tempList.end(); ) {
					if(doInvokeFuncWithQueuedEvent(
							predictor,
							it->get(),
							typename MakeIndexSequence<sizeof...(Args)>::Type())
						) {
						doDispatchQueuedEvent(""", """				auto it = tempList.begin();
				while(it != tempList.end()) {
					if(doInvokeFuncWithQueuedEvent(
							predictor,
							it->get(),
							typename MakeIndexSequence<sizeof...(Args)>::Type())
						) {
						doDispatchQueuedEvent(""", 'C05,C06,C08,C11', 'silent')
m('eq-helper-append', 'callbacklist.h', """		NodePtr node(doAllocateNode(callback));

		std::lock_guard<Mutex> lockGuard(mutex);

		if(head) {
			node->next = head;
			head->previous = node;
			head = node;
		}
		else {
			head = node;
			tail = node;
		}

		return Handle(node);""", """		NodePtr node(doAllocateNode(callback));

		std::lock_guard<Mutex> lockGuard(mutex);

		if(! head) {
			head = node;
			tail = node;
			return Handle(node);
		}
		node->next = head;
		head->previous = node;
		head = node;

		return Handle(node);""", 'C01,C02,C03,C09', 'silent')


# ---------------- round-2 (second half) additions ------------------------------------------------------
import os as _os
_P = _os.path.join(_os.path.dirname(_os.path.abspath(__file__)), 'patches')


def mp(id, patch, props, expect, rule=None):
    M.append(dict(id=id, patch=_os.path.join(_P, patch), props=props, expect=expect, rule=rule))


# the counters get a default member initialiser {0} and leave the copy constructor's initialiser list: same behaviour
mp('eq-counters-nsdmi', 'eq-counters-nsdmi.diff', 'C07,C10,C11,C20', 'silent')
m('anydata-table-keeps-const', 'utilities/anydata.h', """	using U = typename RemoveCvRef<T>::Type;
	return doGetAnyDataFunctions<U>();""", """	using U = typename std::remove_reference<T>::type;
	return doGetAnyDataFunctions<U>();""", 'C17', 'fire', 'C17.A3')
m('notify-counter-from-source', 'hetereventqueue.h', """			super(other),
			queueEmptyCounter(0),
			queueNotifyCounter(0)""", """			super(other),
			queueEmptyCounter(0),
			queueNotifyCounter(other.queueNotifyCounter.load())""", 'C07,C11', 'fire', 'C07.W6')
m('append-moves-node', 'callbacklist.h', """			tail->next = node;
			tail = node;
		}
		else {
			head = node;
			tail = node;
		}
	}
""", """			tail->next = node;
			tail = std::move(node);
		}
		else {
			head = node;
			tail = node;
		}
	}
""", 'C01,C15,C20', 'fire', None)
m('eq-remove-helper-lock-first', 'utilities/scopedremover.h', """	auto handlePointer = handle.lock();
	std::unique_lock<Mutex> lock(mutex);""", """	std::unique_lock<Mutex> lock(mutex);
	auto handlePointer = handle.lock();""", 'C15,C09', 'silent')


# ---------------- eventutil helper rules, both ways (round 3) ------------------------------------------
U = 'utilities/eventutil.h'
m('util-remove-continues', U, """				callbackList.remove(handle);
				return false;""", """				callbackList.remove(handle);
				return true;""", 'C01', 'fire', 'C01.H')
m('eq-util-hasany-continues', U, """		found = true;
		return false;
	}
	);

	return found;""", """		found = true;
		return true;
	}
	);

	return found;""", 'C01', 'silent')
m('eq-util-remove-found-from-result', U, """				found = true;
				dispatcher.removeListener(event, handle);
				return false;""", """				found = dispatcher.removeListener(event, handle);
				return ! found;""", 'C01', 'silent')
_HAS_OLD = """			if(item == listener) {
				found = true;
				return false;
			}
			else {
				return true;
			}
		}
	);

	return found;"""
m('util-has-stops-early', U, _HAS_OLD, """			if(item == listener) {
				found = true;
			}
			return false;
		}
	);

	return found;""", 'C01', 'fire', 'C01.H')
m('util-has-found-always', U, _HAS_OLD, """			found = true;
			return !(item == listener);
		}
	);

	return found;""", 'C01', 'fire', 'C01.H')

# each site of seeded C04-m5 alone is behaviour-preserving (the combination aliases a parameter that is then moved)
mp('eq-c04-const-ref-event', 'eq-c04-const-ref-event.diff', 'C04,C05,C20', 'silent')
mp('eq-c04-getevent-returns-ref', 'eq-c04-getevent-returns-ref.diff', 'C04,C05,C20', 'silent')

# ---------------- behaviour-preserving refactorings the rules must tolerate (probe batch 2) -------------
m('eq2-wait-loop', 'eventqueue.h', """		queueListConditionVariable.wait(queueListLock, [this]() -> bool {
			return doCanProcess();
		});""", """		while(! doCanProcess()) {
			queueListConditionVariable.wait(queueListLock);
		}""", 'C07,C11', 'silent')
m('wait-if-not-loop', 'eventqueue.h', """		queueListConditionVariable.wait(queueListLock, [this]() -> bool {
			return doCanProcess();
		});""", """		if(! doCanProcess()) {
			queueListConditionVariable.wait(queueListLock);
		}""", 'C07', 'fire', 'C07.W1')
m('eq2-append-two-steps', 'eventdispatcher.h', """		std::lock_guard<Mutex> lockGuard(listenerMutex);

		return eventCallbackListMap[event].append(callback);""", """		std::lock_guard<Mutex> lockGuard(listenerMutex);

		auto & callbackList = eventCallbackListMap[event];
		return callbackList.append(callback);""", 'C04,C03,C09,C02', 'silent')
m('eq2-scoped-emplace', 'utilities/scopedremover.h', """			std::unique_lock<typename CallbackListType::Mutex> lock(itemListMutex);
			itemList.push_back(item);""", """			std::unique_lock<typename CallbackListType::Mutex> lock(itemListMutex);
			itemList.emplace_back(item);""", 'C15,C09', 'silent')
m('eq2-process-iterator-loop', 'eventqueue.h', """				for(auto & item : tempList) {
					doDispatchQueuedEvent(
						item.get(),
						typename MakeIndexSequence<sizeof...(Args)>::Type()
					);
					item.clear();
				}

				std::lock_guard<Mutex> queueListLock(freeListMutex);""", """				for(auto it = tempList.begin(); it != tempList.end(); ++it) {
					doDispatchQueuedEvent(
						it->get(),
						typename MakeIndexSequence<sizeof...(Args)>::Type()
					);
					it->clear();
				}

				std::lock_guard<Mutex> queueListLock(freeListMutex);""", 'C05,C06,C08,C09,C11', 'silent')
m('eq2-insert-early-return', 'callbacklist.h', """		NodePtr beforeNode = before.lock();
		if(beforeNode) {
			NodePtr node(doAllocateNode(callback));

			std::lock_guard<Mutex> lockGuard(mutex);

			// A removed callback can still be alive when a running invocation holds it,
			// but it is not in the list any more, so the new callback goes to the back.
			if(beforeNode->counter != removedCounter) {
				doInsert(node, beforeNode);
			}
			else {
				doAppendNode(node);
			}

			return Handle(node);
		}

		return append(callback);""", """		NodePtr beforeNode = before.lock();
		if(! beforeNode) {
			return append(callback);
		}
		NodePtr node(doAllocateNode(callback));

		std::lock_guard<Mutex> lockGuard(mutex);

		if(beforeNode->counter == removedCounter) {
			doAppendNode(node);
		}
		else {
			doInsert(node, beforeNode);
		}

		return Handle(node);""", 'C01,C02,C03,C09,C19', 'silent')
m('eq2-emptyqueue-local', 'eventqueue.h', "		return queueList.empty() && (queueEmptyCounter.load(std::memory_order_acquire) == 0);", """		const bool listEmpty = queueList.empty();
		return listEmpty && (queueEmptyCounter.load(std::memory_order_acquire) == 0);""", 'C11,C07', 'silent')
m('eq2-counter-remover-split', 'utilities/counterremover.h', "if(--data->triggerCount <= 0) {\n				data->dispatcher.removeListener", "--data->triggerCount;\n			if(data->triggerCount <= 0) {\n				data->dispatcher.removeListener", 'C16', 'silent')
m('eq2-anydata-global-new', 'utilities/anydata.h', "		new (buffer.data()) LargeData(std::forward<T>(object));", "		::new (static_cast<void *>(buffer.data())) LargeData(std::forward<T>(object));", 'C17,C08', 'silent')
m('eq2-anyid-eq-order', 'utilities/anyid.h', "	return a.getDigest() == b.getDigest() && anyid_internal_::compareEqual(a.getValue(), b.getValue());", """	if(a.getDigest() != b.getDigest()) {
		return false;
	}
	return anyid_internal_::compareEqual(a.getValue(), b.getValue());""", 'C18,C20', 'silent')

# ---------------- behaviour-preserving refactorings (probe batch 3) --------------------------------------
m('eq3-filter-early-return', 'mixins/mixinfilter.h', """		if(! filterList.empty()) {
			if(! filterList.forEachIf([&args...](typename FilterList::Callback & callback) {
					return callback(args...);
				})
			) {
				return false;
			}
		}

		return true;""", """		if(filterList.empty()) {
			return true;
		}
		return filterList.forEachIf([&args...](typename FilterList::Callback & callback) {
			return callback(args...);
		});""", 'C12', 'silent')
m('eq3-disable-notify-unique-lock', 'eventqueue.h', """				std::lock_guard<Mutex> queueListLock(queue->queueListMutex);
				--queue->queueNotifyCounter;""", """				std::unique_lock<Mutex> queueListLock(queue->queueListMutex);
				--queue->queueNotifyCounter;""", 'C07', 'silent')
m('eq3-heter-invoke-const-local', 'hetercallbacklist.h', """		auto callbackList= doGetCallbackList<PrototypeInfo>();
		(*callbackList)(std::forward<Args>(args)...);""", """		const auto callbackList = doGetCallbackList<PrototypeInfo>();
		auto & homoList = *callbackList;
		homoList(std::forward<Args>(args)...);""", 'C14,C02', 'silent')
m('eq3-processone-front-ref', 'eventqueue.h', """				auto & item = tempList.front();
				doDispatchQueuedEvent(
					item.get(),""", """				auto it = tempList.begin();
				auto & item = *it;
				doDispatchQueuedEvent(
					item.get(),""", 'C05,C06,C08,C11', 'silent')

# ---------------- behaviour-preserving refactorings (probe batch 4: utilities and heterogeneous classes) ----------
m('eq4-condremover-local-bool', 'utilities/conditionalremover.h', """			if(data->shouldRemove(args...)) {
				data->dispatcher.removeListener(data->event, data->handle);
			}
			data->listener(std::forward<Args>(args)...);""", """			const bool remove = data->shouldRemove(args...);
			if(remove) {
				data->dispatcher.removeListener(data->event, data->handle);
			}
			data->listener(std::forward<Args>(args)...);""", 'C16', 'silent')
m('eq4-anydata-getaddress-swap-branches', 'utilities/anydata.h', """		if(! isLargerData()) {
			return buffer.data();
		}
		else {
			return ((const LargeData *)buffer.data())->getAddress();
		}""", """		if(isLargerData()) {
			return ((const LargeData *)buffer.data())->getAddress();
		}
		return buffer.data();""", 'C17', 'silent')
m('eq4-scoped-remove-two-steps', 'utilities/scopedremover.h', """		if(internal_::removeHandleFromScopedRemoverItemList(itemList, handle, itemListMutex)) {
			return dispatcher->removeListener(event, handle);
		}
		return false;""", """		const bool recorded = internal_::removeHandleFromScopedRemoverItemList(itemList, handle, itemListMutex);
		if(! recorded) {
			return false;
		}
		return dispatcher->removeListener(event, handle);""", 'C15,C09', 'silent')
m('eq4-heter-remove-early-return', 'hetercallbacklist.h', """		auto callbackList = callbackListList[handle.index];""", """		const auto & slot = callbackListList[handle.index];
		auto callbackList = slot;""", 'C14,C03', 'silent')
m('eq4-ordered-compare-functor-local', 'utilities/orderedqueuelist.h', """			if(a.empty()) {
				if(b.empty()) {
					return false;
				}
				return true;
			}""", """			if(a.empty()) {
				return ! b.empty();
			}""", 'C13,C08', 'silent')

# ---------------- behaviour-preserving refactorings (probe batch 5: callback list) ------------------------
m('eq5-remove-early-return', 'callbacklist.h', """		auto node = handle.lock();
		// A removed callback can still be alive when a running invocation holds it.
		if(node && node->counter != removedCounter) {
			doFreeNode(node);
			return true;
		}

		return false;
	}

	bool ownsHandle""", """		auto node = handle.lock();
		if(! node || node->counter == removedCounter) {
			return false;
		}
		doFreeNode(node);
		return true;
	}

	bool ownsHandle""", 'C01,C02,C03,C08,C09', 'silent')
m('eq5-freenode-local-links', 'callbacklist.h', """		if(node->next) {
			node->next->previous = node->previous;
		}
		if(node->previous) {
			node->previous->next = node->next;
		}
""", """		NodePtr next = node->next;
		NodePtr previous = node->previous;
		if(next) {
			next->previous = previous;
		}
		if(previous) {
			previous->next = next;
		}
""", 'C01,C02,C03,C08', 'silent')
m('eq5-freeall-for-loop', 'callbacklist.h', """		NodePtr node = head;
		head.reset();
		while(node) {
			NodePtr next = node->next;
			node->previous.reset();
			node->next.reset();
			node = next;
		}
		node.reset();""", """		NodePtr node = head;
		head.reset();
		for(; node; ) {
			NodePtr next = node->next;
			node->previous.reset();
			node->next.reset();
			node = std::move(next);
		}""", 'C08,C01,C10', 'silent')
m('eq5-ownshandle-walk-forward', 'callbacklist.h', """			while(node->previous) {
				node = node->previous;
			}
			return node == head;""", """			while(node->next) {
				node = node->next;
			}
			return node == tail;""", 'C01,C02,C03', 'silent')

# ---------------- behaviour-preserving refactorings (probe batch 6: heterogeneous queue / dispatcher, enqueue) -------
m('eq6-heter-enqueue-local-item', 'hetereventqueue.h', """		const EventType_ e = GetEvent::getEvent(std::forward<T>(first), args...);
		doEnqueueItem(QueuedItemType(
			PrototypeInfo::index,
			e,
			&HeterEventQueueBase::doDispatchItem<PrototypeInfo>,
			typename PrototypeInfo::ArgsTuple(std::forward<Args>(args)...)
		));
""", """		const EventType_ e = GetEvent::getEvent(std::forward<T>(first), args...);
		QueuedItemType queuedItem(
			PrototypeInfo::index,
			e,
			&HeterEventQueueBase::doDispatchItem<PrototypeInfo>,
			typename PrototypeInfo::ArgsTuple(std::forward<Args>(args)...)
		);
		doEnqueueItem(std::move(queuedItem));
""", 'C14,C05,C07,C08,C09,C20', 'silent')
m('eq6-heter-remove-and', 'hetereventdispatcher.h', """		CallbackList_ * callableList = doFindCallableList(event);
		if(callableList) {
			return callableList->remove(handle);
		}

		return false;
	}

	bool hasAnyListener""", """		CallbackList_ * callableList = doFindCallableList(event);
		return callableList != nullptr && callableList->remove(handle);
	}

	bool hasAnyListener""", 'C14,C04,C03', 'silent')
m('eq6-dispatcher-hasany-ternary', 'eventdispatcher.h', """		const CallbackList_ * callableList = doFindCallableList(event);
		if(callableList) {
			return ! callableList->empty();
		}

		return false;
	}

	bool ownsHandle""", """		const CallbackList_ * callableList = doFindCallableList(event);
		return callableList ? ! callableList->empty() : false;
	}

	bool ownsHandle""", 'C04,C03,C01', 'silent')
m('eq6-enqueue-notify-local', 'hetereventqueue.h', """		if(doCanProcess()) {
			queueListConditionVariable.notify_one();
		}
	}

	template <typename T>
	void doEnqueueItem""", """		const bool canProcess = doCanProcess();
		if(canProcess) {
			queueListConditionVariable.notify_one();
		}
	}

	template <typename T>
	void doEnqueueItem""", 'C07,C14', 'silent')

# ---------------- behaviour-preserving refactorings (probe batch 7) --------------------------------------------
m('eq7-traversal-cond-order', 'callbacklist.h', """			if(node->counter != removedCounter && counter >= node->counter) {
				if(! f(node)) {
					return false;
				}
			}""", """			if(counter >= node->counter && node->counter != removedCounter) {
				if(! f(node)) {
					return false;
				}
			}""", 'C01,C02,C19,C12', 'silent')
m('eq7-nextcounter-named-zero', 'callbacklist.h', "		if(result == 0) { // overflow, let's reset all nodes' counters.", "		if(result == removedCounter) { // overflow, let's reset all nodes' counters.", 'C19,C02', 'silent')
m('eq7-heterfilter-direct-return', 'mixins/mixinheterfilter.h', """		if(! filterList.template forEachIf<void (Args...)>([&args...](const typename std::function<bool (Args...)> & callback) -> bool {
			return callback(std::forward<Args>(args)...);
		})
			) {
			return false;
		}

		return true;""", """		return filterList.template forEachIf<void (Args...)>([&args...](const typename std::function<bool (Args...)> & callback) -> bool {
			return callback(std::forward<Args>(args)...);
		});""", 'C12,C14', 'silent')
m('eq7-wrap-walk-for', 'callbacklist.h', """				NodePtr node = head;
				while(node) {
					node->counter = 1;
					node = node->next;
				}""", """				for(NodePtr node = head; node; node = node->next) {
					node->counter = 1;
				}""", 'C19,C02,C03', 'silent')

# ---------------- metafunction mutants: the oracle families of witness/s_meta.cpp and s_select.cpp must notice ------------
m('meta-inheritmixins-reversed', 'internal/eventpolicies_i.h', "	using Type = T <typename InheritMixins<Root, MixinList<Args...> >::Type>;", "	using Type = typename InheritMixins<T<Root>, MixinList<Args...> >::Type;", 'C12', 'fire', None)
m('meta-hasequal-exact-bool', 'utilities/anyid.h', "	template <typename C> static std::true_type test(decltype(std::declval<C>() == std::declval<C>()) *);", "	template <typename C> static typename std::is_same<decltype(std::declval<C>() == std::declval<C>()), bool>::type test(int *);", 'C18', 'fire', None)
m('meta-maxsizeof-min', 'utilities/anydata.h', "	static constexpr std::size_t value = tSize > otherSize ? tSize : otherSize;", "	static constexpr std::size_t value = tSize > otherSize ? otherSize : tSize;", 'C17', 'fire', None)
# ShiftTuple is dead code in the library: changing it changes no behaviour and must not be reported
m('eq-meta-shifttuple-dead-code', 'internal/typeutil_i.h', "	using Type = std::tuple<Args...>;\n};\n\ntemplate <>\nstruct ShiftTuple <std::tuple<> >", "	using Type = std::tuple<A, Args...>;\n};\n\ntemplate <>\nstruct ShiftTuple <std::tuple<> >", 'C14,C05', 'silent')

# ---------------- 40 behaviour-preserving refactorings written by independent sub-agents (selftest/patches/eqagents) ----------
# SingleThreading::Atomic operation mutants (value numbering, symval)
m('st-atomic-preinc-returns-old', 'eventpolicies.h', "			return ++value;", "			return value++;", 'C20,C02', 'fire', 'C20.P')
m('st-atomic-predec-no-store', 'eventpolicies.h', "			return --value;", "			return value - 1;", 'C20,C02', 'fire', 'C20.P')
m('st-atomic-exchange-returns-new', 'eventpolicies.h', """			const T previous = value;
			value = desired;
			return previous;""", """			value = desired;
			const T previous = value;
			return previous;""", 'C20', 'fire', 'C20.P')
m('st-atomic-store-dropped', 'eventpolicies.h', """std::memory_order_seq_cst) noexcept
		{
			value = desired;
		}""", """std::memory_order_seq_cst) noexcept
		{
			(void)desired;
		}""", 'C20', 'fire', 'C20.P')
m('eq-st-atomic-exchange-via-swap-temp', 'eventpolicies.h', """			const T previous = value;
			value = desired;
			return previous;""", """			T previous = desired;
			desired = value;
			value = previous;
			return desired;""", 'C20', 'silent')

_EQ_PROPS = {'A1': 'C01,C02,C03,C19', 'A2': 'C04,C03,C01', 'A3': 'C05,C06,C07,C08,C11,C13', 'A4': 'C05,C06,C07,C08,C09,C10,C11',
             'A5': 'C14,C03,C12,C04,C02', 'A6': 'C14,C05,C06,C07,C09', 'A7': 'C15,C16,C09', 'A8': 'C17,C18,C08', 'A9': 'C12,C13,C08',
             'A10': 'C03,C12,C20,C04'}
for _a, _p in _EQ_PROPS.items():
    for _e in ('e1', 'e2', 'e3', 'e4'):
        M.append(dict(id='eqagent-%s-%s' % (_a, _e), patch=_os.path.join(_P, 'eqagents', '%s-%s.diff' % (_a, _e)), props=_p, expect='silent', rule=None))
# second audit round (other kinds of refactoring: functions split into steps, bodies moved into static helpers taking the object,
# standard algorithms for loops, one unique_lock with explicit unlock/lock, conditional expressions, inlined helpers ...)
_EQ2_PROPS = {'A1': 'C01,C02,C03,C10,C19', 'A2': 'C04,C03,C01', 'A3': 'C05,C06,C07,C08,C09,C11,C13', 'A4': 'C05,C06,C07,C08,C09,C10,C11,C13',
              'A5': 'C14,C03,C10,C12,C04,C02', 'A6': 'C14,C05,C06,C07,C08,C09,C11', 'A7': 'C15,C16,C09', 'A8': 'C17,C18,C08', 'A9': 'C12,C13,C08',
              'A10': 'C02,C03,C12,C20,C04'}
for _a, _p in _EQ2_PROPS.items():
    for _e in ('e1', 'e2', 'e3', 'e4'):
        M.append(dict(id='eqagent2-%s-%s' % (_a, _e), patch=_os.path.join(_P, 'eqagents2', '%s-%s.diff' % (_a, _e)), props=_p, expect='silent', rule=None))
# breaking variants built on top of round-2 refactorings: the generalised rules must still fire through the new shapes
for _id, _props, _rule in (('foreach-no-clear', 'C05,C08', 'C05.P'), ('statichelper-no-guard', 'C11', 'C11.O2'), ('atomic-helper-postinc', 'C20,C02', 'C20.P'),
                           ('inlined-pred-wrong-polarity', 'C07', 'C07.W4'), ('mergedloop-no-clear', 'C05,C08', 'C05.P'), ('destroyhelper-large-only', 'C08,C17', 'C08.O'),
                           ('refalias-find-before-lock', 'C03', 'C03.L1'), ('executearound-on-copy', 'C04', 'C04.F'), ('unlinkhelper-no-mark', 'C02', 'C02.T4'),
                           ('steps-no-guard', 'C11', 'C11.O2'), ('foreach-walk-no-remove', 'C15', 'C15.P2'), ('namedclosure-pred-or', 'C07,C11', 'C07.W2'),
                           ('steps-emplace-on-queuelist', 'C13,C05', 'C13.S1')):
    M.append(dict(id='eq2var-' + _id, patch=_os.path.join(_P, 'eq2var', _id + '.diff'), props=_props, expect='fire', rule=_rule))
m('anydata-dtor-large-only', 'utilities/anydata.h', """		if(functions != nullptr) {
			functions->free(buffer.data());
		}""", """		if(functions != nullptr && isLargerData()) {
			functions->free(buffer.data());
		}""", 'C08,C17', 'fire', 'C08.O')
# third audit round (single-exit style, withLock(mutex, closure), tag dispatch for enable_if pairs, out-of-line member definitions, loop rotation /
# peeling, defaulted-parameter enable_if, metafunction rewrites, free-function helpers)
_EQ3_PROPS = {'A1': 'C01,C02,C03,C10,C19', 'A2': 'C04,C03,C01,C12', 'A3': 'C05,C06,C07,C08,C09,C11,C13', 'A4': 'C05,C06,C07,C08,C09,C10,C11,C13',
              'A5': 'C14,C03,C10,C12,C04,C02', 'A6': 'C14,C05,C06,C07,C08,C09,C11', 'A7': 'C15,C16,C09', 'A8': 'C17,C18,C08', 'A9': 'C12,C13,C08',
              'A10': 'C02,C03,C12,C20,C04'}
for _a, _p in _EQ3_PROPS.items():
    for _e in ('e1', 'e2', 'e3', 'e4'):
        M.append(dict(id='eqagent3-%s-%s' % (_a, _e), patch=_os.path.join(_P, 'eqagents3', '%s-%s.diff' % (_a, _e)), props=_p, expect='silent', rule=None))
# breaking variants on top of round-3 shapes
for _id, _props, _rule in (('withlock-next-outside', 'C03,C01', 'C03.L2'), ('singleexit-owns-no-removed-test', 'C02', 'C02.T1'), ('withlock-runs-before-lock', 'C03', 'C03.L2'),
                           ('tagdispatch-always-false', 'C12', 'C12.F1'), ('singleexit-process-starts-true', 'C05', 'C05.B'), ('singleexit-mixins-starts-true', 'C12', 'C12.F1'),
                           ('withlock-wrong-mutex', 'C06', 'C06.G'), ('singleexit-remove-never-true', 'C15', 'C15.P3')):
    M.append(dict(id='eq3var-' + _id, patch=_os.path.join(_P, 'eq3var', _id + '.diff'), props=_props, expect='fire', rule=_rule))
# ---------------- own probes of the fourth audit round (selftest/patches/own4) ---------------------------------------------
# the two enable_if overloads of doDispatch / doEnqueue exchanged in the class body: no finding key may depend on source order
mp('eq-own4-swap-overload-order', 'own4/swap-overload-order.diff', 'C14,C20,C12,C04', 'silent')
# the recording step of the three ScopedRemover<Dispatcher> add functions extracted into a private helper doAddItem(const Item &)
mp('eq-own4-remover-additem-helper', 'own4/remover-additem-helper.diff', 'C15,C09,C16', 'silent')
M.append(dict(id='own4var-additem-helper-no-lock', patch=_os.path.join(_P, 'own4var', 'additem-helper-no-lock.diff'), props='C15', expect='fire', rule='C15.P3'))
# fourth audit round (moving code around, nested Impl structs, hand-written RAII classes, statement pairs -> sibling helpers, lambdas invoked in
# place, macros, casts / comparisons respelled, metafunction rewrites): selftest/patches/eqagents4. Entries still reported are listed in
# _EQ4_OPEN (DESIGN 10.5, fourth audit round) and are expected to come out as they do today until the rule is generalised.
_EQ4_PROPS = {'A1': 'C01,C02,C03,C10,C19', 'A2': 'C04,C03,C01,C12', 'A3': 'C05,C06,C07,C08,C09,C11,C13', 'A4': 'C05,C06,C07,C08,C09,C10,C11,C13',
              'A5': 'C14,C03,C10,C12,C04,C02', 'A6': 'C14,C05,C06,C07,C08,C09,C11', 'A7': 'C15,C16,C09', 'A8': 'C17,C18,C08,C20', 'A9': 'C12,C13,C08',
              'A10': 'C02,C03,C12,C20,C04'}
_EQ4_OPEN = ()
for _a, _p in _EQ4_PROPS.items():
    for _e in ('e1', 'e2', 'e3', 'e4'):
        _f = _os.path.join(_P, 'eqagents4', '%s-%s.diff' % (_a, _e))
        if _os.path.exists(_f) and '%s-%s' % (_a, _e) not in _EQ4_OPEN:
            M.append(dict(id='eqagent4-%s-%s' % (_a, _e), patch=_f, props=_p, expect='silent', rule=None))
M.append(dict(id='own4var-impl-append-forgets-tail', patch=_os.path.join(_P, 'own4var', 'impl-append-forgets-tail.diff'), props='C01', expect='fire', rule='C01.S'))
M.append(dict(id='own4var-localguard-no-decrement', patch=_os.path.join(_P, 'own4var', 'localguard-no-decrement.diff'), props='C11,C07', expect='fire', rule=None))
M.append(dict(id='own4var-splicehelper-no-sort', patch=_os.path.join(_P, 'own4var', 'splicehelper-no-sort.diff'), props='C13', expect='fire', rule='C13.S1'))
m('hasanylistener-wrong-polarity', 'eventdispatcher.h', "			return ! callableList->empty();", "			return callableList->empty();", 'C04', 'fire', 'C04.F')
M.append(dict(id='own4var-foundhelper-sets-false', patch=_os.path.join(_P, 'own4var', 'foundhelper-sets-false.diff'), props='C01', expect='fire', rule='C01.H'))
