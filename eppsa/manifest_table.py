"""Table from which MANIFEST.json is generated (bin/gen-manifest.py)."""

NOTES = ('Static analysis only: every verdict is computed from /repo\'s current source (type-checked AST, CFG, layouts) '
         'by the eppfacts extractor and the eppsa rules; nothing executes library code. Exit 0 pass, 1 VIOLATION, '
         '2 analysis broken (anchor vanished / rule matched fewer instances than confirmed). See DESIGN.md.')

COMMON_NOTE = ('Trusted: clang 14 parser/Sema/CFG builder, libstdc++ declarations, the frozen effect tables in eppsa/effects.py. '
               'Covers the template instantiations present in the witness units (thorough: also the unit-test TUs and '
               '-std=c++11/14/20). Decides the named structural clauses, which are necessary conditions of the property, '
               'not the behaviour itself. ')

CHECKS = {
    'C07': {
        'text': 'Condition-variable discipline on both queue classes, on every path of every instantiation: predicate-form waits '
                'under queueListMutex; the wait predicate formula is equivalent to what the property states (truth table over its atoms); '
                'every write that can enable the predicate is made under the waiters\' mutex and followed by notify (a re-test may skip the notify only on state read after the write); '
                'DisableQueueNotify ctor/dtor balanced, increment/decrement only, and sole writers; every queue constructor starts queueNotifyCounter at a constant zero; the silent put-back of processIf/processUntil lies inside an in-dispatch guard entered before the take, and that counter (read by the wait predicate) is written only by its RAII guard. A violation of any clause yields a schedule with a lost wake-up.'
            ' Derived emptiness state (W9): any member the wait predicate reads besides the list and the guard counters is written in every critical section that changes queueList, and not from a list emptied just before.',
        'note': COMMON_NOTE + 'Not decided: liveness under fair scheduling, notify_one vs many waiters, timing of waitFor.',
        'technique': 'lockset + dominance over clang CFG, predicate formula extraction with truth-table implication, call-graph notify-after rule',
    },
}

CHECKS['C06'] = {
    'text': 'Exclusive-ownership discipline of the two queue classes on every path of every instantiation: guarded-by for '
            'queueList/freeList (tolerated unlocked empty() pre-checks frozen by function), locked non-empty re-check dominating every '
            'single-element take, slot types neither copyable nor movable and slot contents touched only in thread-private or locked lists, '
            'queue mutexes never nested and no dispatch/predicate/slot destruction under them. Breaking a clause gives an interleaving '
            'that duplicates, loses or corrupts an event or deadlocks.',
    'note': COMMON_NOTE + 'Not decided: exactly-once/linearizability as such, per-producer order, the benign races of the pre-checks.',
    'technique': 'lockset (must/may) dataflow over clang CFG, guarded-by table, dominance of locked re-check, class special-member facts',
}
CHECKS['C11'] = {
    'text': 'emptyQueue() formula and evaluation order (list before counter), CounterGuard entered before every take that is followed by '
            'user code and held over dispatch and put-back (also a put-back made by the destructor of a local helper object), CounterGuard balanced and sole writer of queueEmptyCounter, '
            'time-out implication (!pred && enabled => empty) by truth table over the extracted predicate; both guard counters start at a constant zero in every queue constructor.'
            ' Derived emptiness state (O6): any member emptyQueue() reads besides the list and the guard counters is written in every critical section that changes queueList, and not from a list emptied just before.',
    'note': COMMON_NOTE + 'Not decided: the weak-memory argument (seq_cst RMW + acquire load) that makes the ordering sufficient.',
    'technique': 'formula extraction + truth table, dominance/must-hold of scope guards over clang CFG, who-may-write rule',
}

CHECKS['C03'] = {
    'text': 'Necessary lock discipline of the listener containers on every path of every instantiation: guarded-by for list links, '
            'listener map and heterogeneous list table (locks held at entry of private helpers computed over the call graph), one critical '
            'section per mutating list operation with the handle resolved inside it, acyclic acquired-while-holding graph over all library '
            'mutexes, no stored callable invoked under any library mutex, no invalidating map operation, SpinLock memory orders, atomic RMW '
            'for the generation counter. Each clause is a necessary condition: breaking it yields a racing or deadlocking schedule.',
    'note': COMMON_NOTE + 'Not decided: linearizability and real-time order, progress, the tolerated unlocked read in empty(), weak-memory behaviour beyond the SpinLock orders.',
    'technique': 'interprocedural lockset (must/may) over clang CFG + call graph, guarded-by tables, lock-order graph cycle check',
}
CHECKS['C04'] = {
    'text': 'Dispatch funnel of the homogeneous dispatcher: (a) no argument or key is read after, or unsequenced with, being moved from, in '
            'dispatch (both forms), directDispatch, both CallbackList::operator() variants and the queue dispatch helper, for by-value class-type '
            'keys/arguments and const-ref/by-value getEvent policies; (b) listener lists are invoked only by directDispatch, on the list returned by '
            'the lookup of its own event parameter, with its own arguments in order; dispatch passes getEvent(own arguments) and the own arguments; '
            'the lookup searches the given key under listenerMutex; append/prepend/insert/removeListener perform exactly the matching list operation; removeListener/ownsHandle/hasAnyListener/forEach/forEachIf apply the one list operation to the looked-up list object itself and answer like an empty list when the event has none; '
            'the default getEvent policy moves from none of its arguments; (c) getEvent detection agrees with callability over a family of parameter and argument kinds (independent detector); static_assert and compile-fail witnesses for SelectGetEvent/SelectMap/argument-passing modes under g++ and clang++.',
    'note': COMMON_NOTE + 'Not decided: equality/hash semantics of user key types, argument values.',
    'technique': 'use-after-move analysis incl. unsequenced operands (AST LCA + CFG reachability), def-use funnel rules, compile-time witnesses',
}
CHECKS['C20'] = {
    'text': 'The two clauses the statement names, over the whole library: no function instantiation reads and moves-from one object in unsequenced '
            'operands, and none uses an object after it was moved from (sequenced, in a loop, through a captured reference or a caller-owned lvalue) (both operator() variants, all policy instantiations); ordered and hashed maps identify the same AnyId keys; no listener, predicate or queued-argument destructor runs while a library mutex is held (the no-op mutex of SingleThreading would hide the self-deadlock); no user-provided or implicit copy/move constructor leaves a scalar member '
            'indeterminate (recursing into std::atomic etc., per -std level); plus the g++/clang++ compile matrix of the witness units (a unit counts when configurations disagree about it) and the '
            'SingleThreading::Atomic/Mutex interface conventions (prefix ops return the new value, exchange the old).',
    'note': COMMON_NOTE + 'Not decided: code generation, optimisation levels, other compilers, trace equality itself. Defaulted default constructors are not judged (their effect depends on the use site).',
    'technique': 'unsequenced read/consume detection over AST, recursive default-initialisation analysis in the extractor, compile matrix, body pattern rules',
}

CHECKS['C02'] = {
    'text': 'Re-entrancy mechanism of the callback list on every path of every instantiation and both operator() variants: a node obtained from a '
            'handle is used as a list member (link edit, link walk, success result) only after `counter != removed` was established under the list '
            'mutex; no library mutex is held where a stored callable runs; the traversal cursor is an owning shared_ptr by value advanced only to its '
            'own next exactly once per iteration; removal marks the node on every path and never rewrites its own links; Node::counter has only the '
            'sanctioned writers; new nodes draw their generation from getNextCounter and the traversal visits exactly live nodes with generation <= '
            'the generation captured once before the loop.',
    'note': COMMON_NOTE + 'Not decided: memory safety in general; the final list content beyond the per-operation invariant.',
    'technique': 'typestate (removed mark) with dominance + lockset, traversal-idiom recognition over clang CFG, who-may-write rules',
}
CHECKS['C09'] = {
    'text': 'Static fault-point enumeration: every call site that may throw (allocation, user callable, user copy/compare; through library callees '
            'by bottom-up summaries) is classified against the commit point of each strong-guarantee operation (list/dispatcher/heterogeneous '
            'listener management, remover utilities, enqueue, peekEvent, copy assignment): no fault point reachable after the first observable write; '
            'noexcept functions and destructors reach no fault point; mutexes only through scope objects; traversal/dispatch write no container state; '
            'delegating copy constructor and copy-and-swap assignment; placement-new before destructor publication (slots; AnyData payload not built after a delegated-to constructor published the table); processOne/takeEvent take exactly one element out of the queue (what a throwing listener can lose). Six known findings (K1).',
    'note': COMMON_NOTE + 'Not decided: behaviour of user types during unwinding; standard-library internals beyond the frozen effect table; the CFG has no exception edges (exceptions are handled by these rules only).',
    'technique': 'call-graph effect summaries (may-allocate / may-run-user-code), commit-point reachability over clang CFG, noexcept effect rule',
}
CHECKS['C14'] = {
    'text': 'Client programs invoking/dispatching/enqueuing with lvalue, rvalue and const arguments build and select the listed prototype (witness/s_heter_calls.cpp); first-match prototype selection compared with an independent standard-traits oracle over generated families (1600 quick / 11600 thorough '
            'static_asserts, g++ and clang++) plus compile-fail witnesses; in doProcessIf the typed view of a slot is dominated by the tag test for the '
            'very PrototypeInfo whose ArgsTuple it uses and the slot is never copied out; doEnqueue stores type, tag and dispatcher of one PrototypeInfo '
            'and doDispatchItem casts to that type; every placement-new fits its buffer (layout facts); handle index and list slot agree; '
            'no use-after-move on the heterogeneous paths (two known findings, K2); PrototypeInfo coherence of every instantiation (found and fixed G9); '
            'value categories handed on to the prototype selection; slot interpretation and listener-management mapping on the heterogeneous classes; the doProcessIf levels reachable from processIf<F> cover exactly the prototypes F is callable with (witness predicates); invocation/enumeration hold a local owning pointer to the per-prototype list.',
    'note': COMMON_NOTE + 'Not decided: overload subtleties beyond the generated families; alignment of over-aligned payloads.',
    'technique': 'generated static_assert families vs independent oracle, dominance of tag test over typed view, template-argument/enumerator agreement from class facts, use-after-move',
}
CHECKS['C15'] = {
    'text': 'Typestate of ScopedRemover (both specialisations) on every path: reset() dominates every overwrite of the record or target outside '
            'constructors; the destructor resets on every path; reset walks the whole record calling the target\'s remove, then clears; each add function '
            'records the handle returned by the matching add call under the record mutex on every normal path and returns it; remove erases the record '
            'first and detaches only what was recorded, reporting the target\'s own result; records leave itemList only after their listeners were detached (a throwing removal must not orphan the rest); remove searches and erases the record inside one critical section; the target list\'s add operations return a handle to the node they linked (pointer-program evaluation on every list shape up to length 3); move construction and swap transfer/exchange both fields, swap unconditionally.',
    'note': COMMON_NOTE + 'Not decided: histories as such (follow from the per-method invariant recorded >= attached-through-me).',
    'technique': 'dominance/post-dominance rules over clang CFG, def-use of the returned handle, field-completeness from class facts',
}

CHECKS['C05'] = {
    'text': 'Abstract interpretation (eppsa/slots.py) of the EMPTY/FULL slot protocol, list contents and element counts over every processing '
            'function of both queues, with helpers that receive slot lists interpreted at the call site: every get/clear/set meets the protocol, '
            'only FULL slots re-enter queueList and only EMPTY ones are recycled, `return true` needs a certainly consumed slot; positional rules '
            '(enqueue at end, take at begin, put-back at begin); no FULL slot dies with a local list on a normal path (an event neither dispatched, taken, cleared nor handed back); single take site outside loops, never after user code, guarded by nothing but non-emptiness, into a list local to the call; queued dispatch passes '
            'the slot\'s own event and stored arguments in index order (index sequences 0..9 and the step N -> N+1 up to 24 by static_assert); stored-by-value witness; no use-after-move on enqueue/take.',
    'note': COMMON_NOTE + 'Not decided: FIFO across arbitrary histories beyond the positional invariants; argument values. The interpretation joins paths (path-insensitive except for emptiness/cursor tests).',
    'technique': 'typestate abstract interpretation over clang CFG (slot states, list contents with cardinality, cursor split), dominance rules, use-after-move',
}
CHECKS['C12'] = {
    'text': 'Gate dominance (listener invocation only on the true edge of the mixin chain, evaluated before lookup) in both dispatchers and the '
            'heterogeneous doDispatch; mixin chain extracted as a conjunction in list order; filters and listeners receive the same parameter objects '
            '(lvalue references, no copy); mixinBeforeDispatch formula equals the forEachIf result with lvalue arguments; both operator() variants call '
            'canContinueInvoking after every callback with the same parameters and stop on false; the visitor receives the stored filter by reference; at a filter mixin\'s level the hook overload is the one selected; the hook invoked at each level of the mixin chain is that level\'s own (two known findings, K3: an inherited filter hook runs twice); ConditionalFunctor and ArgumentAdapter shapes, by-value storage of what they wrap, adapter casts (a converted shared_ptr shares ownership).',
    'note': COMMON_NOTE + 'Not decided: what filters do to values, conversion semantics of user types; "removed filters never run again" is C01/C02 on the filter list.',
    'technique': 'dominance over clang CFG, boolean formula extraction with truth-table equivalence, def-use identity of argument objects',
}
CHECKS['C13'] = {
    'text': 'OrderedQueueList: the position parameter of the whole-list splice reaches the insertion, a recognised base splice is followed by doSort on every path (an unrecognised insertion scheme is analysis-broken, not a violation), get() only on slots established non-empty; only whitelisted '
            'non-inserting base members are applied to ordered lists (emplace_back only on locals); doSort is std::list::sort with the library lambda; '
            'the lambda\'s extracted formula is checked exhaustively (8 emptiness x 13 orderings of three slots) to be a strict weak order that equals compare '
            'on full slots, sorts emptied slots first and evaluates get() only on full slots; the slot typestate interpretation of the queue instantiated with the ordered list (an element enters the list only when it holds its event); SelectQueueList witness.',
    'note': COMMON_NOTE + 'Trusted: stability and correctness of std::list::sort; the user comparator being a strict weak order.',
    'technique': 'post-dominance rules, callee whitelist over resolved calls, comparator formula extraction + exhaustive law check',
}
CHECKS['C16'] = {
    'text': 'Path rules over the four wrapper call operators: exactly one decrement / one condition evaluation (lvalue arguments), removal of the '
            'wrapper\'s own handle from its own target guarded only by that result and placed before the single listener call; removal guard normalised '
            'to "count after decrement <= 0"; in all 12 add functions the shared state is initialised from the function\'s own arguments and data->handle '
            'is the handle returned by the add call made with a wrapper over the same data.',
    'note': COMMON_NOTE + 'Not decided: counts over histories as such (follow with C01/C02); purity of user conditions.',
    'technique': 'dominance/post-dominance over clang CFG, guard normal form, def-use of handle and shared state',
}
CHECKS['C18'] = {
    'text': 'Extracted formulas of AnyId operator==, operator< (compareEqual/compareLessThan overload selected per storage inlined) evaluated over all 13 '
            'weak orderings of digests x 13 of stored values (or no value comparison) of three ids: equivalence, strict weak order, incomparable <=> equal, '
            'equal => same digest, value/empty storage clauses (compareEqual/compareLessThan are the Storage\'s own operator or a constant; any further relation the operators consult, e.g. a storage\'s type(), is enumerated as a weak ordering of its own); digests reach the comparisons without a value-changing conversion; std::hash reads only the digest and hashes its value (not its object representation); no constructor, the default one included, leaves the digest indeterminate; the converting constructor does not move from the value between digesting and storing it (by-value digester witness); hashed map selection witness. Exhaustive over orderings.',
    'note': COMMON_NOTE + 'Assumes the digester is a function and the stored type\'s ==/< are an equivalence / strict weak order consistent with each other.',
    'technique': 'boolean formula extraction with inlining, exhaustive enumeration of orderings (finite since values are touched only through comparisons)',
}
CHECKS['C19'] = {
    'text': 'Generations are drawn through getNextCounter only (no raw increment of currentCounter elsewhere); getNextCounter: result variable drawn by atomic pre-increment, tested against 0, redrawn on every path of the zero edge, unsigned type; on '
            'the zero edge a recognised walk from head over next rewrites every linked node to the constant 1 under the mutex before the redraw; traversal '
            'comparison non-strict with no extra guard; swap exchanges and move assignment transfers the counter with the nodes.',
    'note': COMMON_NOTE + 'Not decided: arithmetic over 2^32 additions as such; concurrent wraps.',
    'technique': 'zero/non-zero path analysis, loop-idiom recognition, lockset, def-use in swap/move',
}

CHECKS['C01'] = {
    'text': 'The pointer programs extracted from append/prepend/insert/remove/ownsHandle (with their helpers) are evaluated on every alias '
            'configuration of short lists (length 0..4 quick / 0..6 thorough; operand at every position; removed-but-alive, expired and foreign handles; '
            '>1000 configurations) against the sequence-edit specification, list well-formedness, the result of remove and the inertness of removed handles; '
            'traversal idiom (cursor from head, one advance per iteration, visit iff live && generation <= captured, loop left only at the end or after the '
            'visitor ran); the per-callback code consumes no parameter; helpers (empty, forEach*, doForEachInvoke, eventutil) describe the same content.',
    'note': COMMON_NOTE + 'The shape evaluation interprets the extracted CFG/expression facts, not compiled code; it is bounded (small scope + locality: the routines reach at most one link beyond their operands and the ends). Not decided: composition over arbitrary histories, argument values.',
    'technique': 'local shape analysis: extracted pointer program evaluated over all alias configurations of small heaps; traversal-idiom and loop-exit rules over clang CFG',
}
CHECKS['C08'] = {
    'text': 'Slot EMPTY/FULL protocol by abstract interpretation over all processing functions (every clear on a FULL slot exactly once, no set on FULL, only '
            'EMPTY slots recycled), slot destructor/clear/empty/set shapes and commonDtor<T> type identity, owner types not copyable (class facts), node-cycle '
            'breaking: destructor and move assignment run doFreeAllNodes first, doFreeAllNodes walks from head cutting links on every node, copy constructor '
            'delegates; raw ownership of LargeData (single new, matching deleter, delete iff owned, move leaves source empty) and AnyData (free iff table, move via table); inside the ordered queue list a slot is read (get) only where it is established non-empty.'
            ' Every instantiated slot class has a user-written destructor (a defaulted one destroys nothing).',
    'note': COMMON_NOTE + 'Not decided: leaks through user types; when exactly removed callbacks are released beyond the ownership shape.',
    'technique': 'typestate abstract interpretation (slots), dominance/post-dominance, loop-idiom recognition, class special-member facts',
}
CHECKS['C10'] = {
    'text': 'No constructor of a container class leaves a scalar member indeterminate (recursive default-initialisation analysis per -std); swap, move assignment '
            'and move construction cover every state field of the list / dispatchers / heterogeneous list; dispatcher copy assignment replaces the whole map; '
            'cloneFrom links only freshly made nodes built from the source callback and one generation drawn through getNextCounter before the loop and does not '
            'touch currentCounter; heterogeneous copy stores only doClone() results; self copy-assignment guarded; queue copies default-construct their event lists; '
            'static_assert witnesses for copyability / noexcept moves and swaps.'
            ' swap exchanges or resets every further data member that is not a synchronisation primitive (caches, counts, flags next to the listed state).',
    'note': COMMON_NOTE + 'Not decided: behavioural equivalence of the result with a freshly built object beyond state initialisation and C02.',
    'technique': 'R-INIT in the extractor, field-completeness tables, taint/def-use over cloneFrom, static_assert witnesses',
}
CHECKS['C17'] = {
    'text': 'Over a witness family of payload sizes 1..232 bytes x capacities 8/16/24/64: every placement-new fits the buffer (layout facts); the inline constructor '
            'is instantiated exactly when sizeof(T) <= max(capacity, sizeof(LargeData)); the stored function table is that of exactly the constructed type, and tables/deleters exist only for unqualified object types, a table\'s move entry is empty only for trivially copyable T; '
            'isLargerData/isType/getAddress/accessors derive from those tables and from getAddress; function table entries destroy / move-construct exactly T; '
            'lifetime shape of AnyData and LargeData; client programs constructing from every value category x constness x size build under g++ and clang++ (witness/s_anydata.cpp).',
    'note': COMMON_NOTE + 'Not decided: equality of read-back values, address stability, alignment of over-aligned payloads.',
    'technique': 'layout facts + template-argument identity over the resolved AST, formula extraction, dominance',
}

NOT_APPLICABLE = {
}
for _i in range(1, 21):
    _p = 'C%02d' % _i
    if _p not in CHECKS:
        NOT_APPLICABLE[_p] = 'rules not completed yet (static rule set designed in DESIGN.md section 4; not claimed until implemented)'
