#!/usr/bin/env python3
"""Rewrites the seeded-changes table in DESIGN.md (between the SEEDED-TABLE markers) from seeded/*/meta.json."""
import glob, json, os, re
V = os.path.join(os.path.dirname(os.path.abspath(__file__)), '..')
rows = []
for m in sorted(glob.glob(os.path.join(V, 'seeded', '*', 'meta.json'))):
    d = json.load(open(m))
    det = []
    for prop, r in sorted(d.get('checks', {}).items()):
        rules = sorted({re.sub(r'^(C\d+\.[A-Za-z0-9]+)_.*$', r'\1', v) for v in r.get('violations', [])})
        if r.get('exit') == 1:
            det.append('%s (%s)' % (prop, ', '.join(rules)))
        elif r.get('exit') == 2:
            det.append('%s: analysis broken' % prop)
    own = d.get('checks', {}).get(d['breaks_property'], {}).get('exit')
    rows.append('| %s | %s | %s | %s | %s |' % (d['id'], d.get('what', ''), d.get('needs_to_manifest', ''), '; '.join(det) or '**missed**',
                                                 'yes' if own == 1 else ('**no**' if own is not None else 'n/a')))
table = ['| id | change | needs to manifest | detected by (rules) | caught by its own property\'s check |', '|---|---|---|---|---|'] + rows
p = os.path.join(V, 'DESIGN.md')
s = open(p).read()
a, b = '<!-- SEEDED-TABLE-BEGIN -->', '<!-- SEEDED-TABLE-END -->'
if a in s and b in s:
    s = s[:s.index(a) + len(a)] + '\n' + '\n'.join(table) + '\n' + s[s.index(b):]
    open(p, 'w').write(s)
print('\n'.join(table))
