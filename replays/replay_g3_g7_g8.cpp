#include <eventpp/eventqueue.h>
#include <eventpp/hetereventqueue.h>
#include <eventpp/hetercallbacklist.h>
#include <iostream>
#include <string>
#include <thread>
#include <atomic>
#include <chrono>
using namespace eventpp;
static std::function<void()> g_hook;
struct MyCV {
  std::condition_variable cv;
  void notify_one() noexcept { cv.notify_one(); }
  template <class P> void wait(std::unique_lock<std::mutex>& l, P pred) {
    while(!pred()) {
      if (g_hook) { auto h = g_hook; g_hook = nullptr; h(); }
      if (cv.wait_for(l, std::chrono::seconds(2)) == std::cv_status::timeout) {
        std::cout << "TIMEOUT in wait: pred now=" << pred() << " (lost wake-up if 1)\n"; if (pred()) return;
      }
    }
  }
  template <class R, class Pd, class P> bool wait_for(std::unique_lock<std::mutex>& l, const std::chrono::duration<R,Pd>& d, P pred) { return cv.wait_for(l, d, pred); }
};
struct Pol { using Threading = GeneralThreading<std::mutex, std::atomic, MyCV>; };
struct Thrower { static int budget; Thrower(){} Thrower(const Thrower&){ if(--budget<0) throw std::bad_alloc(); } void operator()(){} };
int Thrower::budget = 1000;
int main(int argc, char**argv) {
  int which = atoi(argv[1]);
  if (which==1) {
    struct P { using ArgumentPassingMode = ArgumentPassingIncludeEvent; };
    HeterEventQueue<std::string, HeterTuple<void(std::string,int)>, P> q;
    int hit=0;
    q.appendListener("hello-this-is-a-long-string-key-beyond-sso", [&](std::string, int){ ++hit; });
    q.enqueue(std::string("hello-this-is-a-long-string-key-beyond-sso"), 1);
    q.process();
    std::cout << "heter include enqueue hit="<<hit<<" (expect 1)\n";
  }
  if (which==2) {
    using Q = EventQueue<int, void(int), Pol>;
    Q q;
    auto* dis = new Q::DisableQueueNotify(&q);
    q.enqueue(1, 1);   // pending, notify disabled
    std::thread t2;
    g_hook = [&]{ t2 = std::thread([&]{ delete dis; }); std::this_thread::sleep_for(std::chrono::milliseconds(300)); };
    q.wait();
    std::cout << "wait returned\n";
    t2.join();
  }
  if (which==3) {
    HeterCallbackList<HeterTuple<void()>> a, b;
    a.append(Thrower());
    Thrower::budget = 0;
    try { b = a; std::cout << "no throw\n"; } catch (std::bad_alloc&) { std::cout << "caught bad_alloc (good)\n"; }
  }
}
