"""C14 — Heterogeneous classes route by prototype and never confuse stored types.

  H1 first-match selection: static_assert witnesses compare FindPrototypeByArgs / FindPrototypeByCallable with an
     independent oracle over generated families (g++ and clang++)
  H2 no typed view before the tag is checked: in doProcessIf a BufferedUnion::get<QueuedItem<Tuple>>() is dominated by the
     branch establishing callableIndex == PrototypeInfo::index for the PrototypeInfo whose ArgsTuple is Tuple, and the slot is
     never copied out as a QueuedItem
  H3 writer/reader agreement: doEnqueue stores type, tag and dispatcher of one PrototypeInfo; doDispatchItem<PI> casts to
     QueuedItem<PI::ArgsTuple> only; process/processOne dispatch only through the stored function pointer
  H4 capacity: every placement-new into a slot buffer fits the buffer
  H5 HeterCallbackList append/prepend/insert use one PrototypeInfo for the list slot and the handle index
  M  no use-after-move in the heterogeneous dispatch / enqueue paths
"""
import os
import re

from ..facts import AnalysisBroken, short
from ..paths import path, pstr, last_field, root_var_id, fields_in
from ..moves import MoveAnalysis, vtag
from .. import formula as F
from .. import witness, extract
from .qcommon import TUInfo
from .listrules import edge_dominates

EXPLANATION = ('C14: generated first-match witnesses against an independent oracle, tag-before-typed-view dominance in doProcessIf, '
               'writer/reader agreement of stored type / tag / dispatcher, buffer capacity of every placement-new, handle index agreement, R-MOVE.')
ASSUMPTIONS = ['overload subtleties beyond the generated families and alignment of over-aligned payloads are not decided']
UNITS = ['w_heter.cpp', 'w_utils.cpp', 'w_queue.cpp']

HETER_MOVE_FNS = ('HeterEventQueueBase::doEnqueue', 'HeterEventQueueBase::enqueue', 'HeterEventQueueBase::doEnqueueItem',
                  'HeterEventDispatcherBase::doDispatch', 'HeterEventDispatcherBase::dispatch', 'HeterEventDispatcherBase::directDispatch',
                  'HeterCallbackListBase::operator()', 'HeterEventQueueBase::doDispatchQueuedItem', 'HeterEventQueueBase::doDispatchItem',
                  'HeterEventQueueBase::doInvokeFuncWithQueuedEvent', 'HeterEventQueueBase::doInvokeFuncWithQueuedEventHelper')


def proto_info(tu, tidx):
    """(index, ArgsTuple type string) of a PrototypeInfo class given its type index."""
    t = tu.type(tidx)
    if not t or not t.get('recq'):
        return None
    c = tu.class_by_q.get(t['recq'])
    if not c:
        return None
    idx = c['enums'].get('index')
    at = c['typedefs'].get('ArgsTuple')
    return idx, (tu.tstr(at) if at is not None else None)


def fn_targ(f, i):
    ta = f.d.get('targs') or []
    if i < len(ta) and isinstance(ta[i], int):
        return ta[i]
    return None


def precheck(ctx):
    # programs that must build: prototype selection by the arguments as passed (value category, constness); judged before extraction so
    # that a change which also stops the witness units from compiling is reported as what it is
    ctx.rule('C14.W', 'client programs invoking / dispatching / enqueuing with lvalue, rvalue and const arguments build and select the listed prototype')
    witness.check_static_unit(ctx, 'C14.W', os.path.join(extract.VERIF, 'witness', 's_heter_calls.cpp'), 'prototype selection by argument value category')


def check(ctx):
    ctx.rule('C14.H1', 'first-match prototype selection agrees with an independent oracle (generated static_assert families)')
    ctx.rule('C14.H2', 'typed view of a queue slot only after its tag was checked; slot never copied out')
    ctx.rule('C14.H3', 'stored type, tag and dispatcher come from one PrototypeInfo; reader casts to that type')
    ctx.rule('C14.H4', 'every placement-new fits its buffer')
    ctx.rule('C14.H5', 'handle index and list slot come from the same PrototypeInfo')
    ctx.rule('C14.M', 'no use-after-move in heterogeneous dispatch / enqueue')
    ctx.rule('C14.Q2', 'processIf reaches a doProcessIf level for exactly the prototypes its predicate is callable with')
    ctx.rule('C14.L', 'invocation and enumeration hold an owning pointer to the per-prototype list')
    ctx.rule('C14.H6', 'every PrototypeInfo used by a member function matches the prototype list entry at its index')
    ctx.rule('C14.F', 'heterogeneous dispatcher: lookup and listener management map onto the per-event heterogeneous list; list-level remove / empty / forEach route by handle index')
    ctx.rule('C14.Q', 'heterogeneous queue: slot protocol and FIFO positions (exactly once, in place)')
    ctx.rule('C14.V', 'dispatch hands the caller\'s value categories on to the prototype selection')
    from .c05 import run_slot_rules
    for tu in ctx.tus:
        info = TUInfo(tu)
        run_slot_rules(ctx, 'C14.Q', 'C14.Q', tu, only_kinds=('O-', 'P-'), classes=('HeterEventQueueBase',))
        from .c05 import check_takes
        check_takes(ctx, tu, info, rule='C14.Q', queues=('HeterEventQueueBase',))
        check_value_categories(ctx, tu)
        check_protoinfo_coherence(ctx, tu)
        check_processif_levels(ctx, tu)
        check_keepalive(ctx, tu)
        from .listrules import check_invoked_in_place
        check_invoked_in_place(ctx, tu, 'C14.F', lambda o: o.cls in ('HeterCallbackListBase', 'HeterEventDispatcherBase', 'HeterEventQueueBase'))
        from .c04 import check_listener_management
        check_listener_management(ctx, tu, 'HeterEventDispatcherBase', 'C14.F')
        check_heter_list_ops(ctx, tu, info)
        check_h2(ctx, tu, info)
        check_h3(ctx, tu, info)
        check_h4(ctx, tu, 'C14.H4', ('BufferedUnion', 'BufferedItem'))
        check_h5(ctx, tu, info)
        ma = MoveAnalysis(tu)
        for f in tu.fns:
            if f.outermost().skey in HETER_MOVE_FNS:
                vs, pairs = ma.violations(f)
                names = sorted({vtag(v) for v in vs})
                ctx.ob('C14.M', f, 'arguments are never read after (or unsequenced with) being moved from', not vs,
                       detail='\n'.join(v['msg'] for v in vs[:3]), key_detail='move ' + ','.join(names),
                       where=f.nloc(vs[0]['site']['consumer']) if vs else None)
    witness.check_static_unit(ctx, 'C14.H1', os.path.join(extract.VERIF, 'witness', 's_meta.cpp'), 'CanInvoke / tuple helpers', tag='C14')
    ctx.require_min('C14.H2', 1)
    ctx.require_min('C14.H3', 4)
    ctx.require_min('C14.H4', 2)
    ctx.require_min('C14.H5', 3)
    ctx.require_min('C14.M', 5)
    ctx.require_min('C14.Q', 4)
    ctx.require_min('C14.H6', 4)
    ctx.require_min('C14.Q2', 1)
    ctx.require_min('C14.L', 3)
    ctx.require_min('C14.F', 6)
    ctx.require_min('C14.V', 2)
    gen = os.path.join(extract.VERIF, 'witness', 's_heter_gen.cpp')
    if not os.path.exists(gen):
        raise AnalysisBroken('generated witness family witness/s_heter_gen.cpp is missing (run bin/gen-heter-witness.py)')
    witness.check_static_unit(ctx, 'C14.H1', gen, 'first-match selection')
    big = os.path.join(extract.VERIF, 'witness', 's_heter_gen_big.cpp')
    if ctx.tier == 'thorough' and os.path.exists(big):
        witness.check_static_unit(ctx, 'C14.H1', big, 'first-match selection (large family)')
    witness.check_fail_unit(ctx, 'C14.H1', os.path.join(extract.VERIF, 'witness', 'f_heter.cpp'), 'no matching prototype')


# witness predicates callable with several prototypes -> the prototype indices processIf has to examine ('all' = every listed one)
PRED_EXPECT = {'wit::PredAll': 'all', 'wit::PredEnds': {0, 3}}


def check_processif_levels(ctx, tu):
    """Q2: processIf(pred) examines the events of every prototype pred is callable with: the chain of doProcessIf<PrototypeInfo> levels
    reachable from processIf<F> covers exactly the callable prototypes (an early end of the search leaves later prototypes' events
    unexamined for ever; an extra level examines events the predicate cannot be called with)."""
    for f in tu.fns_named('HeterEventQueueBase::processIf'):
        ft = fn_targ(f, 0)
        fs = tu.tstr(ft).replace('&', '').replace('const ', '').strip() if ft is not None else ''
        if fs not in PRED_EXPECT:
            continue
        ct = tu.type(f.d.get('clst'))
        ta = (ct or {}).get('targs') or []
        lt = tu.type(ta[1]) if len(ta) > 1 and isinstance(ta[1], int) else None
        nproto = 0
        for x in (lt or {}).get('targs', []):
            nproto += 1 if isinstance(x, int) else len([y for y in x if isinstance(y, int)]) if isinstance(x, list) else 0
        want = set(range(nproto)) if PRED_EXPECT[fs] == 'all' else set(PRED_EXPECT[fs])
        got = set()
        seen = set()
        work = [f]
        while work:
            g = work.pop()
            if g.id in seen:
                continue
            seen.add(g.id)
            for n in g.calls():
                cal = g.callee(n)
                if cal and cal.get('name') == 'doProcessIf' and cal.get('fid', -1) in tu.by_id:
                    h = tu.by_id[cal['fid']]
                    pi = proto_info(tu, fn_targ(h, 0)) if fn_targ(h, 0) is not None else None
                    if pi and pi[0] is not None and pi[0] >= 0:
                        got.add(pi[0])
                    work.append(h)
        ctx.ob('C14.Q2', f, 'processIf examines the events of exactly the prototypes its predicate is callable with', got == want and nproto > 0,
               detail='predicate %s over %d prototypes: levels instantiated for indices %s, callable with %s' % (fs, nproto, sorted(got), sorted(want)),
               key_detail='levels ' + fs)


def check_keepalive(ctx, tu):
    """L: an invocation / enumeration of a heterogeneous list keeps the per-prototype list alive for its whole duration: the object the
    underlying call is made on is owned by a local shared_ptr (a callback may assign to the heterogeneous list, which drops the table's
    own reference while the underlying list is still running)."""
    for f in tu.fns:
        if f.cls != 'HeterCallbackListBase' or f.kind == 'lambda' or f.name not in ('operator()', 'forEach', 'forEachIf'):
            continue
        calls = [n for n in f.calls() if (f.callee(n) or {}).get('name') in ('operator()', 'forEach', 'forEachIf')
                 and (f.callee_key(n) or '').startswith('CallbackListBase::')]
        if not calls:
            continue
        bad = []
        for n in calls:
            o = f.call_obj(n) if f.call_obj(n) else (f.nodes[n].get('args') or [None])[0]
            p = path(f, o) if o else ()
            vid = root_var_id(p)
            vd = f.var_decls().get(vid) if vid is not None else None
            ts = tu.tstr(vd['t']) if vd else ''
            if not (vd and ts.replace('const ', '').startswith('std::shared_ptr<')):
                bad.append('%s (through %s)' % (f.nloc(n), ts or 'a non-local object'))
        ctx.ob('C14.L', f, 'the underlying list is invoked / enumerated through a local owning shared_ptr', not bad,
               detail='called without an owner in scope at %s: the list can be destroyed by a callback that assigns to the heterogeneous list'
                      % ', '.join(bad), key_detail='keep-alive')


def check_protoinfo_coherence(ctx, tu):
    """H6: every PrototypeInfo a heterogeneous member function is instantiated with is coherent with the class's prototype list:
    index i >= 0  =>  Prototype is the i-th listed prototype and ArgsTuple its cv/ref-stripped parameter tuple. (The stored tag is
    compared with PrototypeInfo::index and the slot is viewed as QueuedItem<PrototypeInfo::ArgsTuple>: an incoherent PrototypeInfo makes
    events of one prototype be examined, and reinterpreted, as another.)"""
    LIST_ARG = {'HeterEventQueueBase': 1, 'HeterEventDispatcherBase': 1, 'HeterCallbackListBase': 0}
    for f in tu.fns:
        cls = f.cls.split('::')[0]
        if cls not in LIST_ARG or f.kind == 'lambda':
            continue
        pi_t = fn_targ(f, 0)
        if pi_t is None:
            continue
        t = tu.type(pi_t)
        if not t or not t.get('recq') or 'FindPrototype' not in t['recq']:
            continue
        c = tu.class_by_q.get(t['recq'])
        if not c:
            continue
        idx = c['enums'].get('index')
        if idx is None or idx < 0:
            continue
        ct = tu.type(f.d.get('clst'))
        ta = (ct or {}).get('targs') or []
        k = LIST_ARG[cls]
        lt = tu.type(ta[k]) if k < len(ta) and isinstance(ta[k], int) else None
        protos = []
        for x in (lt or {}).get('targs', []):
            if isinstance(x, int):
                protos.append(tu.tstr(x))
            elif isinstance(x, list):
                protos.extend(tu.tstr(y) for y in x if isinstance(y, int))
        proto = tu.tstr(c['typedefs'].get('Prototype')) if c['typedefs'].get('Prototype') is not None else None
        ok = idx < len(protos) and proto == protos[idx]
        ctx.ob('C14.H6', f, 'PrototypeInfo is coherent: its Prototype is the prototype listed at its index', ok,
               detail='%s is instantiated with a PrototypeInfo whose index is %d but whose Prototype is `%s`; the prototype listed at index %d is `%s`: '
                      'events stored with tag %d are examined with the wrong prototype\'s argument types'
                      % (f.skey, idx, proto, idx, protos[idx] if idx < len(protos) else '?', idx),
               key_detail='incoherent PrototypeInfo')


def check_value_categories(ctx, tu):
    """FindPrototypeByArgs is evaluated on the argument types HeterCallbackList::operator() receives: dispatch must forward each
    parameter with the value category the caller used (an rvalue must stay an rvalue), otherwise another prototype is selected."""
    for f in tu.fns:
        if f.skey not in ('HeterEventDispatcherBase::doDispatch', 'HeterEventDispatcherBase::directDispatch', 'HeterEventDispatcherBase::dispatch',
                          'HeterEventQueueBase::doDispatchQueuedItem', 'HeterEventQueueBase::enqueue'):
            continue
        for n in f.calls():
            ck = f.callee_key(n) or ''
            if ck not in ('HeterCallbackListBase::operator()', 'HeterEventDispatcherBase::doDispatch', 'HeterEventQueueBase::doEnqueue'):
                continue
            pids = f.param_ids()
            bad = []
            nref = 0
            for a in f.call_args(n):
                x = f.strip(a)
                p = path(f, a, resolve_refs=False)
                vid = root_var_id(p) if len(p) == 1 else None
                if vid is None or vid not in pids:
                    continue
                pt = tu.type(pids[vid]['t'])
                if not pt or not pt['ref']:
                    continue
                nref += 1
                vk = f.nodes[x].get('vk')
                want = 'x' if pt['ref'] == 2 else 'l'
                if vk != want:
                    bad.append('%s is declared %s but passed on as %s' % (pids[vid]['name'], 'T&& (rvalue)' if want == 'x' else 'T& (lvalue)',
                                                                         {'l': 'an lvalue', 'x': 'an rvalue', 'pr': 'a temporary'}.get(vk, vk)))
            if nref:
                ctx.ob('C14.V', f, 'every forwarding-reference parameter is passed on with its own value category', not bad,
                       detail='%s at %s: the prototype is then selected for different argument types than the caller supplied'
                              % ('; '.join(bad), f.nloc(n)), where=f.nloc(n), key_detail='value category')


def check_heter_list_ops(ctx, tu, info):
    for f in tu.fns_named('HeterCallbackListBase::remove'):
        subs = [n for n, o in f.nodes.items() if o['cls'] == 'CXXOperatorCallExpr' and o.get('op') == '[]' and 'callbackListList' in fields_in(path(f, o['args'][0]))]
        ok = len(subs) == 1
        if ok:
            ip = path(f, f.strip_all_casts(f.nodes[subs[0]]['args'][1]))
            ok = root_var_id(ip) == f.params[0]['id'] and last_field(ip) == 'index'
        rm = [n for n in f.calls() if (f.callee(n) or {}).get('name') == 'doRemove']
        ok = ok and len(rm) == 1 and root_var_id(path(f, f.call_args(rm[0])[0])) == f.params[0]['id']
        ctx.ob('C14.F', f, 'remove goes to the per-prototype list named by the handle\'s index, with the same handle', ok)
    for f in tu.fns_named('HeterCallbackListBase::HomoCallbackListType::doRemove'):
        rm = [n for n in f.calls() if (f.callee_key(n) or '') == 'CallbackListBase::remove']
        lk = [n for n in f.calls() if (f.callee(n) or {}).get('name') == 'lock' and f.call_obj(n) and last_field(path(f, f.call_obj(n))) == 'homoHandle']
        ok = len(rm) == 1 and len(lk) == 1 and (f.nodes[rm[0]].get('obj') is None or path(f, f.nodes[rm[0]]['obj']) == ('this',))
        ctx.ob('C14.F', f, 'doRemove removes the node the heterogeneous handle refers to from this list', ok)
    for f in tu.fns_named('HeterCallbackListBase::empty'):
        em = [n for n in f.calls() if (f.callee(n) or {}).get('name') == 'empty' and f.callee(n).get('virt')]
        loops = [b for b in f.blocks if f.block_reaches(b, b)]
        try:
            # returns false as soon as one per-prototype list is non-empty, true after the walk
            # (early returns, or a result variable that starts true and is set false where a non-empty list is found)
            sites = f.result_sites()
            vals = sorted({str(f.nodes[v].get('value')) for (_r, v) in sites})
            falses = [r for (r, v) in sites if f.nodes[v].get('value') is False]
            ok = len(em) == 1 and bool(loops) and vals == ['False', 'True'] and f.pos(em[0])[0] in loops \
                and bool(falses) and all(f.pos_reaches(f.pos(em[0]), f.pos(r)) for r in falses)
        except Exception:
            ok = False
        ctx.ob('C14.F', f, 'empty() asks every per-prototype list', ok)
    for nm in ('forEach', 'forEachIf'):
        for f in tu.fns_named('HeterCallbackListBase::' + nm):
            calls = [n for n in f.calls() if (f.callee_key(n) or '') == 'CallbackListBase::' + nm]
            gets = [n for n in f.calls() if (f.callee_key(n) or '') == 'HeterCallbackListBase::doGetCallbackList']
            ctx.ob('C14.F', f, '%s<Prototype> walks exactly the list of that prototype' % nm, len(calls) == 1 and len(gets) == 1)
    for f in tu.fns_named('HeterCallbackListBase::doForEachInvoke'):
        # Handle{PrototypeIndex, handle}: the index given to the visitor is the template argument of this instantiation
        inits = [n for n, o in f.nodes.items() if o['cls'] == 'InitListExpr' and 'HeterHandle_' in tu.tstr(o.get('t'))]
        ta = f.d.get('targs') or []
        want = ta[1].get('int') if len(ta) > 1 and isinstance(ta[1], dict) else None
        if not inits:
            continue
        k0 = f.strip_all_casts(f.kids(inits[0])[0])
        got = f.nodes[k0].get('cv', f.nodes[k0].get('value'))
        ctx.ob('C14.F', f, 'the handle given to a visitor carries the index of the visited prototype', want is not None and got == want,
               detail='index %s, expected %s' % (got, want))


def check_h2(ctx, tu, info):
    for f in tu.fns:
        if f.skey != 'HeterEventQueueBase::doProcessIf':
            continue
        pi_t = fn_targ(f, 0)
        pi = proto_info(tu, pi_t) if pi_t is not None else None
        if not pi or pi[0] is None or pi[0] < 0:
            continue
        idx, tuple_s = pi
        gets = []
        for n in f.calls():
            cal = f.callee(n)
            if cal and cal['name'] == 'get' and short(cal.get('cls', '')) == 'BufferedUnion':
                rt = tu.tstr(cal.get('ret'))
                gets.append((n, rt))
        typed = [(n, rt) for (n, rt) in gets if 'QueuedItem<' in rt]
        ctx.ob('C14.H2', f, 'doProcessIf looks at slots through get<>()', bool(gets), detail='no BufferedUnion::get call found')
        pm = f.parent_map()
        for (n, rt) in typed:
            # (a) not copied out
            p = pm.get(n)
            while p and f.nodes[p]['cls'] in ('ImplicitCastExpr', 'ParenExpr', 'MaterializeTemporaryExpr', 'ExprWithCleanups'):
                p = pm.get(p)
            copied = bool(p) and f.is_construct(p) and 'QueuedItem' in short((f.callee(p) or {}).get('cls', ''))
            ctx.ob('C14.H2', f, 'the slot is viewed in place, not copied out as a QueuedItem', not copied,
                   detail='copy construction of %s from the slot at %s: when the slot holds an event of another prototype, a copy constructor '
                          'runs over foreign bytes (and the copy is later destroyed as the wrong type)' % (rt[:80], f.nloc(n)),
                   where=f.nloc(n), key_detail='slot copied out')
            # (b) the typed view matches this PrototypeInfo's tuple
            ctx.ob('C14.H2', f, 'the typed view is QueuedItem<PrototypeInfo::ArgsTuple>', tuple_s is not None and ('QueuedItem<' + tuple_s) in rt.replace('> >', '>>') or (tuple_s or '?') in rt,
                   detail='view type %s, ArgsTuple %s' % (rt[:120], tuple_s), where=f.nloc(n), key_detail='view type')
            # (c) dominated by the tag test
            ok = False
            for bid, blk in f.blocks.items():
                c = blk.get('cond')
                if not c or len(blk['succ']) != 2:
                    continue
                try:
                    fm = F.boolexpr(f, c, {}, False)
                except F.Unsupported:
                    continue
                neg = False
                while fm[0] == 'not':
                    neg = not neg
                    fm = fm[1]
                if fm[0] != 'atom' or 'callableIndex' not in fm[1] or '==' not in fm[1]:
                    continue
                lhs, rhs = [x.strip() for x in fm[1].split('==')]
                const = lhs if lhs.lstrip('-').isdigit() else rhs
                if not const.lstrip('-').isdigit() or int(const) != idx:
                    continue
                other = rhs if const == lhs else lhs
                # the tag must be read through the untyped base view or after... (any read of callableIndex of this slot)
                role = 'false' if neg else 'true'
                if edge_dominates(f, bid, role, f.pos(n)):
                    # the tag read itself must not go through a typed get<QueuedItem<...>> evaluated before the test
                    tag_reads_typed = False
                    for d in f.descendants(c):
                        if f.is_call(d) and (f.callee(d) or {}).get('name') == 'get' and 'QueuedItem<' in tu.tstr((f.callee(d) or {}).get('ret')):
                            tag_reads_typed = True
                    if not tag_reads_typed:
                        ok = True
            ctx.ob('C14.H2', f, 'the typed view is taken only after callableIndex == PrototypeInfo::index was established', ok,
                   detail='get<QueuedItem<...>>() at %s is not dominated by the tag test for index %d: events of other prototypes are '
                          'reinterpreted as this prototype' % (f.nloc(n), idx), where=f.nloc(n), key_detail='tag before view')


def check_h3(ctx, tu, info):
    for f in tu.fns:
        if f.skey == 'HeterEventQueueBase::doEnqueue':
            # QueuedItemType(PrototypeInfo::index, e, &doDispatchItem<PrototypeInfo>, ArgsTuple(...))
            ctors = [n for n in f.constructs() if short((f.callee(n) or {}).get('cls', '')).endswith('QueuedItem') and len(f.nodes[n].get('args', [])) == 4]
            ctx.ob('C14.H3', f, 'doEnqueue builds exactly one QueuedItem', len(ctors) == 1, detail='%d found' % len(ctors))
            for n in ctors:
                args = f.nodes[n]['args']
                a0 = f.strip_all_casts(args[0])
                tag = f.nodes[a0].get('cv', f.nodes[a0].get('value'))
                stored_t = f.tu.tstr(f.nodes[n].get('t'))
                # dispatcher: &HeterEventQueueBase::doDispatchItem<PI>
                d = None
                for x in f.descendants(args[2]):
                    if f.nodes[x]['cls'] == 'DeclRefExpr' and f.decl(x)['kind'] == 'func':
                        d = f.decl(x)
                ok = False
                detail = 'tag %s, stored %s' % (tag, stored_t[:100])
                if d is not None and d.get('fid', -1) in tu.by_id:
                    g = tu.by_id[d['fid']]
                    pi = proto_info(tu, fn_targ(g, 0))
                    if pi:
                        ok = (pi[0] == tag) and pi[1] is not None and ('QueuedItem<' + pi[1]) in stored_t
                        detail += '; dispatcher is doDispatchItem<index %s, %s>' % (pi[0], (pi[1] or '')[:80])
                ctx.ob('C14.H3', f, 'stored object type, stored tag and stored dispatcher belong to one PrototypeInfo', ok, detail=detail,
                       where=f.nloc(n))
        if f.skey == 'HeterEventQueueBase::doDispatchItem':
            pi = proto_info(tu, fn_targ(f, 0))
            casts = [n for n, o in f.nodes.items() if o['cls'] == 'CXXStaticCastExpr']
            ok = bool(pi) and len(casts) == 1 and pi[1] is not None and ('QueuedItem<' + pi[1]) in tu.tstr(f.nodes[casts[0]].get('to'))
            ctx.ob('C14.H3', f, 'doDispatchItem<PI> views the item as QueuedItem<PI::ArgsTuple>', ok,
                   detail='cast to %s, ArgsTuple %s' % (tu.tstr(f.nodes[casts[0]].get('to'))[:100] if casts else '?', pi[1] if pi else '?'))
        if f.skey == 'HeterEventQueueBase::doDispatchQueuedEvent':
            ind = [n for n in f.calls() if f.nodes[n].get('c', 0) == -1]
            ok = len(ind) == 1 and last_field(path(f, f.nodes[ind[0]]['calleeExpr'])) == 'dispatcher'
            if ok:
                a = f.call_args(ind[0])
                ok = len(a) == 2 and path(f, a[0]) == ('this',) and root_var_id(path(f, a[1])) == f.params[0]['id'] \
                    and root_var_id(path(f, f.nodes[ind[0]]['calleeExpr'])) == f.params[0]['id']
            ctx.ob('C14.H3', f, 'queued items are dispatched only through their own stored dispatcher, with themselves as argument', ok)
        if f.skey in ('HeterEventQueueBase::process', 'HeterEventQueueBase::processOne'):
            calls = f.deep_calls(lambda g, n: (g.callee_key(n) or '') == 'HeterEventQueueBase::doDispatchQueuedEvent')
            gets = f.deep_calls(lambda g, n: (g.callee(n) or {}).get('name') == 'get' and short((g.callee(n) or {}).get('cls', '')) == 'BufferedUnion')
            ok = len(calls) == 1 and all('QueuedItemBase' in tu.tstr((g.callee(n) or {}).get('ret')) for (_t, g, n) in gets) and len(gets) == 1
            ctx.ob('C14.H3', f, '%s dispatches each slot through the untyped base view and the stored dispatcher' % f.name, ok)


def check_h4(ctx, tu, rule, classes):
    for f in tu.fns:
        if f.cls.split('::')[0] not in classes and f.cls not in classes:
            continue
        for n, o in f.nodes.items():
            if o['cls'] != 'CXXNewExpr' or not o.get('placement'):
                continue
            at = tu.type(o.get('alloc'))
            # the buffer: field `buffer` of this class
            c = tu.class_by_q.get(f.clsq)
            buf = None
            if c:
                for fl in c['fields']:
                    if fl['name'] == 'buffer':
                        buf = tu.type(fl['t'])
            p = path(f, f.strip_all_casts(o['placement'][0]))
            ok = bool(at) and bool(buf) and at.get('size') is not None and buf.get('size') is not None and at['size'] <= buf['size'] and 'buffer' in fields_in(p)
            ctx.ob(rule, f, 'the object constructed in place fits the slot buffer', ok,
                   detail='sizeof(%s)=%s, buffer %s bytes, target %s' % ((at or {}).get('s', '?')[:80], (at or {}).get('size'), (buf or {}).get('size'), pstr(p)),
                   where=f.nloc(n), key_detail='capacity')


def check_h5(ctx, tu, info):
    for f in tu.fns:
        if f.skey not in ('HeterCallbackListBase::append', 'HeterCallbackListBase::prepend', 'HeterCallbackListBase::insert'):
            continue
        gets = [n for n in f.calls() if (f.callee_key(n) or '') == 'HeterCallbackListBase::doGetCallbackList']
        idxs = set()
        for n in gets:
            for g in f.callee_fns(n):
                pi = proto_info(tu, fn_targ(g, 0))
                if pi:
                    idxs.add(pi[0])
        handles = [n for n, o in f.nodes.items() if o['cls'] == 'InitListExpr' and 'HeterHandle_' in tu.tstr(o.get('t'))]
        hidx = set()
        for h in handles:
            ks = f.kids(h)
            if ks:
                k0 = f.strip_all_casts(ks[0])
                hidx.add(f.nodes[k0].get('cv', f.nodes[k0].get('value')))
        ok = len(idxs) == 1 and hidx == idxs and bool(handles)
        ctx.ob('C14.H5', f, 'the handle carries the index of the per-prototype list the callback went into', ok,
               detail='list slot index %s, handle index %s' % (sorted(idxs), sorted(x for x in hidx if x is not None)))
        # the add goes to the matching underlying operation
        adds = [n for n in f.calls() if (f.callee_key(n) or '').startswith('CallbackListBase::') and (f.callee(n) or {}).get('name') in ('append', 'prepend', 'insert')]
        names = sorted({f.callee(n)['name'] for n in adds})
        want = {'append': ['append'], 'prepend': ['prepend'], 'insert': ['append', 'insert']}[f.name]
        ctx.ob('C14.H5', f, '%s forwards to the matching homogeneous operation' % f.name, names == want, detail='calls %s' % names)
    for f in tu.fns:
        if f.skey == 'HeterCallbackListBase::doGetCallbackList':
            pi = proto_info(tu, fn_targ(f, 0))
            if not pi:
                continue
            # every subscript of callbackListList uses PrototypeInfo::index
            # (in the function itself and in the private helpers it is split into)
            subs = f.deep_calls(lambda g, n: g.nodes[n]['cls'] == 'CXXOperatorCallExpr' and g.nodes[n].get('op') == '[]'
                                and 'callbackListList' in fields_in(path(g, g.nodes[n]['args'][0])), depth=3)
            vals = set()
            for (_top, g, n) in subs:
                a = g.strip_all_casts(g.nodes[n]['args'][1])
                vals.add(g.nodes[a].get('cv', g.nodes[a].get('value')))
            # std::get<I>(callbackListList) is the same element access with the index as a template argument
            gets_ = f.deep_calls(lambda g, n: g.nodes[n]['cls'] == 'CallExpr' and (g.callee_key(n) or '') == 'std::get' and g.call_args(n)
                                 and 'callbackListList' in fields_in(path(g, g.call_args(n)[0])), depth=3)
            for (_top, g, n) in gets_:
                m_ = re.match(r'std::get<(\d+)', (g.callee(n) or {}).get('q', ''))
                vals.add(int(m_.group(1)) if m_ else None)
            subs = subs + gets_
            ctx.ob('C14.H5', f, 'doGetCallbackList<PI> touches only slot PI::index', vals == {pi[0]} and bool(subs),
                   detail='subscripts %s, index %s' % (sorted(v for v in vals if v is not None), pi[0]))
        if f.skey == 'HeterCallbackListBase::operator()':
            gets = [n for n in f.calls() if (f.callee_key(n) or '') == 'HeterCallbackListBase::doGetCallbackList']
            calls = [n for n in f.calls() if (f.callee_key(n) or '') == 'CallbackListBase::operator()']
            ok = len(gets) == 1 and len(calls) == 1
            if ok:
                want = [p['id'] for p in f.params]
                from .c04 import arg_var
                got = [arg_var(f, a, allow_conv=True) for a in f.call_args(calls[0])]
                ok = got == want
            ctx.ob('C14.H5', f, 'invocation reaches exactly the list of the selected prototype with its own arguments in order', ok)
