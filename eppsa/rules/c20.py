"""C20 — Behaviour is independent of policies, compiler, standard level, prior memory.

  U  no library function reads and consumes (moves from) the same object in unsequenced operands, in any instantiation
     and in both operator() variants (R-MOVE b)
  I  no constructor of a library class leaves a scalar data member indeterminate (R-INIT), at every analysed -std
  M  the witness units type-check under g++ and clang++ at the analysed standard levels
  P  SingleThreading::Atomic / Mutex implement the operations the library uses with the std::atomic result convention
"""
import os

from ..facts import AnalysisBroken, short
from ..paths import path, pstr
from ..effects import writes
from ..moves import MoveAnalysis, vtag
from .. import symval
from .. import witness, extract

EXPLANATION = ('C20: unsequenced read/consume pairs over every library function instantiation, uninitialised-member analysis over every '
               'constructor (recursing into standard classes), compile matrix g++/clang++, SingleThreading policy interface agreement.')
ASSUMPTIONS = ['code generation, optimisation levels and compilers other than g++ 12 / clang++ 14 are not analysed',
               'R-MOVE treats a standard-library callee taking T&& as consuming its argument']
UNITS = None
VALUE_KEY_CLASSES = ('AnyId',)


def check(ctx):
    ctx.rule('C20.U', 'no read and consume of one object in unsequenced operands')
    ctx.rule('C20.V', 'no object is used after it was moved from')
    ctx.rule('C20.K', 'ordered and hashed maps identify the same AnyId keys')
    ctx.rule('C20.N', 'no user code runs while a library mutex is held (it would behave differently with the no-op mutex of SingleThreading)')
    ctx.rule('C20.I', 'constructors leave no scalar member indeterminate')
    ctx.rule('C20.M', 'witness units type-check with g++ and clang++')
    ctx.rule('C20.P', 'SingleThreading policy matches the std::atomic / mutex interface conventions')
    nfun = 0
    for tu in ctx.tus:
        ma = MoveAnalysis(tu)
        for f in tu.fns:
            vs, pairs = ma.violations(f)
            if pairs:
                nfun += 1
                bad = [v for v in vs if v['kind'] == 'unsequenced']
                names = sorted({vtag(v) for v in bad})
                ctx.ob('C20.U', f, 'no variable is both read and moved-from in unsequenced operands', not bad,
                       detail='\n'.join(v['msg'] for v in bad[:3]), key_detail='unsequenced ' + ','.join(names),
                       where=f.nloc(bad[0]['site']['consumer']) if bad else None)
                # sequenced use of a moved-from object: its state is "valid but unspecified" for standard types (and empty for the
                # smart pointers the library uses as handles), so whatever is computed from it is not what the caller supplied
                later = [v for v in vs if v['kind'] != 'unsequenced']
                names = sorted({vtag(v) for v in later})
                ctx.ob('C20.V', f, 'no object is used after it was moved from (loops, captured references and caller-owned lvalues included)',
                       not later, detail='\n'.join(v['msg'] for v in later[:3]), key_detail='moved-from ' + ','.join(names),
                       where=f.nloc(later[0]['site']['consumer']) if later else None)
        check_init(ctx, tu)
        check_policy(ctx, tu)
        check_user_code_under_mutex(ctx, tu)
        # map-kind independence for AnyId keys: an ordered map identifies keys by <-incomparability, a hashed map by ==; the two
        # partitions coincide exactly when "incomparable under < <=> ==" (the C18 law, evaluated over all orderings of three ids)
        from .c18 import anyid_pairs, check_pair
        for eqf, ltf, storage in anyid_pairs(tu):
            check_pair(ctx, tu, eqf, ltf, storage, rule='C20.K', only=('incomparable under < exactly when ==',))
    ctx.require(nfun >= 20, 'C20.U: fewer than 20 functions with consuming sites were analysed (%d)' % nfun)
    ctx.require_min('C20.I', 30)
    ctx.require_min('C20.N', 10)
    ctx.require_min('C20.K', 1)
    ctx.require_min('C20.P', 6)
    check_matrix(ctx)


def check_user_code_under_mutex(ctx, tu):
    """Threading-policy independence: SingleThreading's mutex is a no-op, std::mutex and SpinLock are not recursive. User code (a listener,
    filter, predicate, policy callable, or the destructor of a queued event's arguments) that runs while a library mutex is held may call
    back into the library: with SingleThreading that works, with a real mutex the same single-threaded program deadlocks on itself."""
    from ..effects import classify_callee, USER_INVOKE
    from .qcommon import TUInfo, CONTAINER_CALLEES, SLOT_CLASSES
    info = TUInfo(tu)
    for f in tu.fns:
        if f.outermost().skey.startswith('OrderedQueueList::'):
            continue        # the ordering comparator is part of the container (tolerated by design, C06.N)
        for n in f.nodes:
            if not (f.is_call(n) or f.is_construct(n)):
                continue
            ck = f.callee_key(n) or ''
            if ck.startswith(CONTAINER_CALLEES):
                continue
            cal = f.callee(n) or {}
            what = None
            if cal.get('name') in ('clear', 'set') and short(cal.get('cls') or '').split('::')[-1] in SLOT_CLASSES:
                what = 'destruction / construction of queued arguments (%s)' % cal['name']
            else:
                eff, desc = classify_callee(f, n)
                if USER_INVOKE in eff:
                    what = desc
            if what is None:
                continue
            held = info.held_names(f, f.pos(n), must=False) - {None}
            ctx.ob('C20.N', f, 'user code runs with no library mutex held', not held,
                   detail='%s at %s runs while %s may be held: re-entrant use works with SingleThreading and deadlocks with std::mutex / SpinLock'
                          % (what, f.nloc(n), ', '.join(sorted(held))), where=f.nloc(n), key_detail='user code under mutex')


def check_init(ctx, tu, rule='C20.I', only=None):
    for f in tu.fns:
        if f.kind != 'ctor' or f.d.get('delegating'):
            continue
        if only and not any(f.skey.startswith(o) for o in only):
            continue
        if f.cls.startswith('(lambda)') or '(lambda)' in f.skey:
            continue
        # A default constructor that is not user-provided (implicit or `= default`) initialises nothing by definition:
        # whether members end up indeterminate depends on the initialisation syntax at the use site (T x; vs T x{}).
        # Uses inside the library are judged where they occur (the `indet` verdict on the enclosing constructor's
        # initialiser), which is how the queue counters were found. Judging the defaulted constructor itself would
        # demand more than the property states (checker correction, DESIGN.md section 5).
        # Exception: AnyId is a key type whose default-constructed value is itself a key (the id of "no value": zero digest, empty storage);
        # its default constructor is judged in whatever form it is written.
        if f.d.get('ctor') == 'default' and (f.d.get('implicit') or f.d.get('defaulted')) and f.cls not in VALUE_KEY_CLASSES:
            continue
        bad = []
        for i in f.d.get('inits', []):
            if i.get('indet'):
                bad.append('%s (%s default-initialised: %s stays indeterminate)' % (i.get('member') or tu.tstr(i.get('t')),
                                                                                   'implicitly' if not i.get('written') else 'explicitly',
                                                                                   i.get('why', '?')))
        for m in f.d.get('uninit_scalars', []):
            bad.append('%s (scalar with no initialiser)' % m)
        names = sorted(b.split(' ')[0] for b in bad)
        ctx.ob(rule, f, 'every data member is initialised (std=%s)' % tu.std, not bad,
               detail='after this %s constructor these members hold indeterminate values: %s'
                      % (f.d.get('ctor', ''), '; '.join(bad)),
               key_detail='indeterminate ' + ','.join(names))


def check_policy(ctx, tu, rule='C20.P', only=None):
    for f in tu.fns:
        if not f.skey.startswith('SingleThreading::Atomic::'):
            continue
        name = f.name
        if only and name not in only:
            continue
        if name in ('operator++', 'operator--', 'load', 'store', 'exchange'):
            # value numbering with helpers inlined (symval): result and final stored value as terms over the initial value and the argument
            this = symval.Obj(value='F:value')
            ev = symval.Eval(tu)
            try:
                ret = ev.run(f, this, ['A:%d' % i for i in range(len(f.params))])
            except symval.Unsupported as e:
                ctx.broken_later('%s: SingleThreading::Atomic::%s is outside the branch-free scalar fragment (%s)' % (rule, name, e))
                continue
            fin = this.get('value')
            if name in ('operator++', 'operator--'):
                op = name[-2:]
                want = ('+', 'F:value', 1 if op == '++' else -1)
                ctx.ob(rule, f, 'prefix %s returns the new value (std::atomic convention)' % op, ret == want and fin == want,
                       detail='returns %r, stores %r; the library compares the result of %scounter with thresholds (getNextCounter()==0 wrap test)' % (ret, fin, op))
            elif name == 'load':
                ctx.ob(rule, f, 'load returns the stored value without changing it', ret == 'F:value' and fin == 'F:value', detail='returns %r, stores %r' % (ret, fin))
            elif name == 'store':
                ctx.ob(rule, f, 'store assigns the given value', fin == 'A:0', detail='stores %r' % (fin,))
            elif name == 'exchange':
                ctx.ob(rule, f, 'exchange returns the previous value and stores the new one', ret == 'F:value' and fin == 'A:0', detail='returns %r, stores %r' % (ret, fin))
        elif f.kind == 'ctor' and f.d.get('ctor') not in ('copy', 'move', 'default'):
            inits = [i for i in f.d.get('inits', []) if i.get('member') == 'value' and i.get('n')]
            ok = bool(inits) and path(f, inits[0]['n'])[0].startswith('v:')
            ctx.ob(rule, f, 'converting constructor stores its argument', ok)
    for f in tu.fns:
        if only:
            break
        if f.skey in ('SingleThreading::Mutex::lock', 'SingleThreading::Mutex::unlock'):
            ctx.ob(rule, f, 'SingleThreading::Mutex provides %s()' % f.name, len(f.params) == 0)


def check_matrix(ctx):
    stds = witness.STDS_ALL if ctx.tier == 'thorough' else ['c++11', 'c++17']
    jobs = []
    for u in extract.witness_units():
        for c in ('g++', 'clang++'):
            for s in stds:
                jobs.append((u, c, s, ()))
    res = witness.run_matrix(jobs)
    # a unit rejected by *every* compiler / standard level is an outdated witness (or a library change the other properties' checks judge):
    # analysis-broken. The C20 clause is about configurations disagreeing: a unit some configurations accept and others reject.
    by_unit = {}
    for (u, c, s, e), rc, out in res:
        by_unit.setdefault(u, []).append(rc == 0)
    for u, oks in by_unit.items():
        if not any(oks):
            ctx.broken_later('C20.M: witness/%s is rejected by every compiler and standard level (witness outdated?)' % os.path.basename(u))
    for (u, c, s, e), rc, out in res:
        name = 'witness/%s' % os.path.basename(u)
        first = [l for l in out.splitlines() if 'error' in l][:2]
        ctx.ob('C20.M', name, 'type-checks with %s -std=%s like with the other configurations' % (c, s), rc == 0 or not any(by_unit[u]),
               detail='\n'.join(first), key_detail='%s %s' % (c, s))
    witness.check_static_unit(ctx, 'C20.M', os.path.join(extract.VERIF, 'witness', 's_meta.cpp'), 'policy detection (threading, callback, map)', tag='C20')
    witness.check_static_unit(ctx, 'C20.M', os.path.join(extract.VERIF, 'witness', 's_select.cpp'), 'policy defaults (map, threading, callback)', tag='C20')
