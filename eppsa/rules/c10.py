"""C10 — Copies are independent, moves transfer, swaps exchange; results fully functional.

  I  R-INIT: no copy / move / user-provided constructor of a container class leaves a scalar member indeterminate
  F  field completeness: swap exchanges, and move assignment transfers, every state field of its class (frozen table;
     mutexes / condition variables / counters of pending work exempt); dispatcher copy assignment replaces the whole
     listener map (stale events of the destination disappear)
  S  no sharing: in cloneFrom only freshly made nodes are linked into this list, each built from the source node's
     callback and one fresh generation drawn through getNextCounter; cloneFrom does not touch currentCounter otherwise;
     the heterogeneous copy constructor stores only doClone() results, and doClone builds a new list from *this
  A  self-assignment: copy assignment of the list classes is guarded by an identity test (and is copy-and-swap)
  Q  queues do not copy pending events: queue copy/move constructors default-construct their lists
  T  noexcept / copyability witnesses (static_assert)
"""
import os
import re

from ..facts import AnalysisBroken, short
from ..paths import path, pstr, last_field, root_var_id, fields_in
from .. import witness, extract
from .qcommon import TUInfo, check_counter_zero
from .c20 import check_init
from .listrules import edge_dominates

EXPLANATION = ('C10: uninitialised-member analysis of the container constructors, field completeness of swap / move assignment / dispatcher copy assignment, '
               'no node sharing and one fresh generation in cloneFrom, doClone results only in the heterogeneous copy, self-assignment guard, queue lists not copied, noexcept witnesses.')
ASSUMPTIONS = ['behavioural equivalence of the result with a freshly built object beyond state initialisation and the nested-invocation rules (C02) is not decided']
UNITS = None

CONTAINERS = ('CallbackListBase', 'EventDispatcherBase', 'EventQueueBase', 'HeterCallbackListBase', 'HeterEventDispatcherBase', 'HeterEventQueueBase',
              'CallbackList', 'EventDispatcher', 'EventQueue', 'HeterCallbackList', 'HeterEventDispatcher', 'HeterEventQueue', 'MixinFilter', 'MixinHeterFilter',
              'ScopedRemover')
STATE_FIELDS = {
    'CallbackListBase': ('head', 'tail', 'currentCounter'),
    'EventDispatcherBase': ('eventCallbackListMap',),
    'HeterEventDispatcherBase': ('eventCallbackListMap',),
    'HeterCallbackListBase': ('callbackListList',),
}


def check(ctx):
    ctx.rule('C10.I', 'constructors leave no scalar member indeterminate')
    ctx.rule('C10.F', 'swap / move assignment / copy assignment cover every state field')
    ctx.rule('C10.S', 'clones share no node and carry one fresh generation')
    ctx.rule('C10.A', 'self copy-assignment is guarded')
    ctx.rule('C10.Q', 'queue copies do not carry pending events')
    ctx.rule('C10.T', 'noexcept / copyability witnesses')
    for tu in ctx.tus:
        info = TUInfo(tu)
        check_init(ctx, tu, rule='C10.I', only=CONTAINERS)
        check_fields(ctx, tu, info)
        check_clone(ctx, tu, info)
        check_queue_ctors(ctx, tu)
        check_counter_zero(ctx, tu, 'C10.Q')
        check_value_state(ctx, tu)
    ctx.require_min('C10.I', 12)
    ctx.require_min('C10.F', 7)
    ctx.require_min('C10.S', 3)
    ctx.require_min('C10.A', 2)
    ctx.require_min('C10.Q', 4)
    witness.check_static_unit(ctx, 'C10.T', os.path.join(extract.VERIF, 'witness', 's_lifetime.cpp'), 'copy/move/swap traits')


def written_from_other(f, info, field, other_id):
    """this.field receives a value derived from other.field (assignment, exchange/store call, or swap)."""
    for w in info.writes(f):
        if w['path'] != ('this', '.' + field) and not (w['path'][:2] == ('this', '.' + field) and w['path'][-1] == '[]'):
            continue
        srcs = []
        if w.get('rhs'):
            srcs.append(w['rhs'])
        if f.is_call(w['node']) or f.is_construct(w['node']):
            srcs += f.call_args(w['node']) if f.is_call(w['node']) else []
            srcs += [a for a in f.nodes[w['node']].get('args', [])]
        for s in srcs:
            for d in [s] + f.descendants(s):
                if f.nodes[d]['cls'] == 'MemberExpr' and f.decl(d)['kind'] == 'field' and f.decl(d)['name'] == field:
                    p = path(f, d)
                    if root_var_id(p) == other_id:
                        return True
    # element-wise transfer through a standard range algorithm: std::move / std::copy / std::swap_ranges(other.f.begin(), other.f.end(), f.begin())
    for n in f.calls():
        if (f.callee_key(n) or '') not in ('std::move', 'std::copy', 'std::swap_ranges') or len(f.call_args(n)) != 3:
            continue
        ends = []
        for x in f.call_args(n):
            v = f.value_source(x)
            if f.is_call(v) and (f.callee(v) or {}).get('name') in ('begin', 'end') and f.call_obj(v):
                ends.append(((f.callee(v) or {}).get('name'), path(f, f.call_obj(v))))
        if len(ends) == 3 and [e[0] for e in ends] == ['begin', 'end', 'begin'] and ends[0][1] == ends[1][1] and \
                root_var_id(ends[0][1]) == other_id and last_field(ends[0][1]) == field and ends[2][1] == ('this', '.' + field):
            return True
    return False


def check_fields(ctx, tu, info):
    for cls, fields in STATE_FIELDS.items():
        for f in tu.fns:
            if f.cls != cls or not f.params:
                continue
            other = f.params[0]['id']
            if f.name == 'swap' and f.kind == 'method':
                ws = info.writes(f)
                missing = []
                for fld in fields:
                    mine = [w for w in ws if w['path'] == ('this', '.' + fld)]
                    theirs = [w for w in ws if root_var_id(w['path']) == other and last_field(w['path']) == fld and len(w['path']) == 2]
                    if not mine or not theirs:
                        missing.append(fld)
                ctx.ob('C10.F', f, 'swap exchanges every state field (%s)' % ', '.join(fields), not missing,
                       detail='not exchanged in both directions: %s' % ', '.join(missing), key_detail='swap fields')
                # any further data member (a cached look-up result, a count, a flag - whatever is added next to the listed state) describes the
                # contents that swap hands over: swap has to exchange it or reset it on this object; synchronisation primitives carry no contents
                extra = []
                for c in tu.classes_by_key.get(cls, []):
                    if c['q'] != f.clsq:
                        continue
                    for fl in c.get('fields', []):
                        ts = tu.tstr(fl['t'])
                        if fl['name'] in fields or re.search(r'[Mm]utex|[Cc]ondition|SpinLock|atomic_flag', ts) or fl['name'].endswith('Mutex'):
                            continue
                        extra.append(fl['name'])
                untouched = [x for x in extra if not any(w['path'][:2] == ('this', '.' + x) for w in ws)
                             and not any((f.callee(n) or {}).get('name') in ('swap',) and any(last_field(path(f, a)) == x for a in f.call_args(n)) for n in f.calls())]
                # ... directly or in a member helper called from swap
                for n in f.calls():
                    for h in f.callee_fns(n):
                        if h.cls == f.cls and h.kind == 'method':
                            untouched = [x for x in untouched if not any(w['path'][:2] == ('this', '.' + x) for w in info.writes(h))]
                if extra:
                    ctx.ob('C10.F', f, 'swap also exchanges or resets the further data members (%s)' % ', '.join(extra), not untouched,
                           detail='left as they were: %s - after the swap they describe contents this object no longer holds' % ', '.join(untouched),
                           key_detail='swap further fields ' + ','.join(untouched))
            elif f.name == 'operator=' and f.d.get('assign') == 'move':
                missing = [fld for fld in fields if not written_from_other(f, info, fld, other)]
                ctx.ob('C10.F', f, 'move assignment transfers every state field (%s)' % ', '.join(fields), not missing,
                       detail='not taken from the source: %s' % ', '.join(missing), key_detail='move-assign fields')
            elif f.kind == 'ctor' and f.d.get('ctor') == 'move' and not f.d.get('delegating'):
                inits = {i.get('member'): i for i in f.d.get('inits', []) if i.get('kind') == 'member'}
                missing = []
                for fld in fields:
                    i = inits.get(fld)
                    okf = False
                    if i and i.get('n'):
                        for d in [i['n']] + f.descendants(i['n']):
                            if f.nodes[d]['cls'] == 'MemberExpr' and f.decl(d)['name'] == fld and root_var_id(path(f, d)) == other:
                                okf = True
                    if not okf:
                        missing.append(fld)
                # alternatively the body swaps with the source (the members were value-initialised first)
                sw = [n for n in f.calls() if (f.callee(n) or {}).get('name') == 'swap' and any(root_var_id(path(f, a)) == other for a in f.call_args(n))
                      and (f.nodes[n].get('obj') is None or path(f, f.nodes[n]['obj']) == ('this',))]
                if missing and len(sw) == 1 and f.pos_postdominates(f.pos(sw[0]), (f.entry, 0)):
                    missing = []
                ctx.ob('C10.F', f, 'move construction takes every state field (%s)' % ', '.join(fields), not missing,
                       detail='not taken from the source: %s' % ', '.join(missing), key_detail='move-ctor fields')
    # delegating move constructors transfer through swap(other); derived queue classes hand copy/move on to the base
    for f in tu.fns:
        if f.cls in STATE_FIELDS and f.kind == 'ctor' and f.d.get('ctor') == 'move' and f.d.get('delegating'):
            other = f.params[0]['id']
            sw = [n for n in f.calls() if (f.callee(n) or {}).get('name') == 'swap' and any(root_var_id(path(f, a)) == other for a in f.call_args(n))
                  and (f.nodes[n].get('obj') is None or path(f, f.nodes[n]['obj']) == ('this',))]
            ctx.ob('C10.F', f, 'the delegating move constructor takes the source\'s state through swap(other) on every path',
                   len(sw) == 1 and f.pos_postdominates(f.pos(sw[0]), (f.entry, 0)), key_detail='move-ctor swap')
        if f.cls in ('EventQueueBase', 'HeterEventQueueBase') and f.name == 'operator=' and f.d.get('assign') in ('copy', 'move'):
            other = f.params[0]['id']
            base = [n for n in f.calls() if (f.callee(n) or {}).get('name') == 'operator=' and (f.callee(n) or {}).get('assign') == f.d.get('assign')
                    and 'DispatcherBase' in (f.callee_key(n) or '')]
            ok = len(base) == 1 and any(root_var_id(path(f, a)) == other for a in f.call_args(base[0])) and f.pos_postdominates(f.pos(base[0]), (f.entry, 0))
            if ok and f.d.get('assign') == 'move':
                ok = all(f.nodes[f.strip(a)].get('vk') == 'x' for a in f.call_args(base[0]))
            ctx.ob('C10.F', f, 'queue %s assignment hands the listeners on to the dispatcher base\'s %s assignment' % (f.d['assign'], f.d['assign']), ok,
                   key_detail='queue assign base')
        if f.cls in ('EventQueueBase', 'HeterEventQueueBase') and f.kind == 'ctor' and f.d.get('ctor') in ('copy', 'move'):
            other = f.params[0]['id']
            bi = [i for i in f.d.get('inits', []) if i.get('kind') == 'base' and i.get('n')]
            ok = len(bi) == 1
            if ok:
                n = f.strip_all_casts(bi[0]['n'])
                cal = f.callee(n) if f.is_construct(n) else None
                ok = bool(cal) and cal.get('ctor') == f.d.get('ctor') and any(root_var_id(path(f, a)) == other for a in f.nodes[n].get('args', []))
            ctx.ob('C10.F', f, 'queue %s construction builds the dispatcher base with the %s constructor from the source' % (f.d['ctor'], f.d['ctor']), ok,
                   key_detail='queue ctor base')
    # dispatcher copy assignment: the whole map is replaced
    for cls in ('EventDispatcherBase', 'HeterEventDispatcherBase'):
        for f in tu.fns:
            if f.cls == cls and f.name == 'operator=' and f.d.get('assign') == 'copy':
                other = f.params[0]['id']
                ws = [w for w in info.writes(f) if w['path'][:2] == ('this', '.eventCallbackListMap') and not (w['how'].startswith('call:') and w['how'][5:] in ('find', 'end', 'begin'))]
                whole = [w for w in ws if w['path'] == ('this', '.eventCallbackListMap') and (w['how'] == 'assign' or w['how'].endswith('swap'))]
                ok = len(ws) >= 1 and len(whole) == len(ws)
                if ok and whole[0]['how'] == 'assign':
                    p = path(f, f.value_source(whole[0]['rhs']))
                    ok = root_var_id(p) == other and last_field(p) == 'eventCallbackListMap' and len(p) == 2
                ctx.ob('C10.F', f, 'copy assignment replaces the whole listener map with the source\'s', ok,
                       detail='writes to the map: %s - assigning list by list keeps the destination\'s events that the source does not have'
                              % [(w['how'], pstr(w['path'])) for w in ws], key_detail='copy-assign map')
    # MixinFilter: filters are part of the state that copies must carry (implicit members copy them) - record what swap covers
    for f in tu.fns:
        if f.cls in ('CallbackListBase', 'HeterCallbackListBase') and f.name == 'operator=' and f.d.get('assign') == 'copy':
            other = f.params[0]['id']
            guard = False
            for bid, blk in f.blocks.items():
                c = blk.get('cond')
                if not c or len(blk['succ']) != 2:
                    continue
                n = f.strip_all_casts(c)
                o = f.nodes[n]
                if o['cls'] == 'BinaryOperator' and o.get('op') in ('!=', '=='):
                    l, r = [f.strip_all_casts(k) for k in f.kids(n)]
                    lp, rp = path(f, l), path(f, r)
                    ps = {lp, rp}
                    if ('this',) in ps and any(root_var_id(p) == other and p[-1] == '&' for p in ps):
                        role = 'true' if o['op'] == '!=' else 'false'
                        # every write to *this happens on the "different object" edge
                        ws = [w for w in info.writes(f) if w['path'][0] == 'this' and len(w['path']) > 1] + \
                             [{'pos': f.pos(n2)} for n2 in f.calls() if (f.callee(n2) or {}).get('name') == 'swap']
                        guard = all(edge_dominates(f, bid, role, w['pos']) for w in ws)
            ctx.ob('C10.A', f, 'copy assignment does nothing when source and destination are the same object', guard,
                   key_detail='self-assignment guard')


def check_clone_shape(ctx, tu, maxlen=4, rule='C10.S'):
    """A12 on cloneFrom: the copy is a well-formed list of as many *new* nodes as the source has, all with one fresh non-removed
    generation, and the source is untouched."""
    from .. import shape as S
    done = 0
    for f in tu.fns_named('CallbackListBase::cloneFrom'):
        if done >= 3:
            break
        done += 1
        pp = S.PointerProgram(tu)
        fails = {}
        try:
            for n in range(0, maxlen + 1):
                src, nodes = S.build_list(n)
                before = [(x.previous, x.next, x.counter) for x in nodes]
                dst = S.ListObj()
                dst.gen = 7
                pp.call(f, dst, [S.Ref(src, 'head')])
                seq = S.sequence(dst)
                wf = S.well_formed(dst)
                if isinstance(seq, str) or wf is not None or len(seq) != n:
                    fails.setdefault('the copy is a well-formed list of the same length', 'length %d: %s / %s' % (n, seq if isinstance(seq, str) else [x.name for x in seq], wf))
                    continue
                if any(x in nodes for x in seq):
                    fails.setdefault('the copy shares no node with the source', 'length %d' % n)
                gens = {x.counter for x in seq}
                if n and (len(gens) != 1 or 0 in gens or list(gens)[0] > dst.gen):
                    fails.setdefault('all cloned nodes carry one fresh generation that is not above the list\'s counter', 'length %d: generations %s, counter %d' % (n, sorted(gens), dst.gen))
                if [(x.previous, x.next, x.counter) for x in nodes] != before or S.sequence(src) != nodes:
                    fails.setdefault('the source list is untouched', 'length %d' % n)
        except S.Unsupported as e:
            ctx.broken_later('%s: cloneFrom uses a construct outside the pointer-program fragment: %s' % (rule, e))
            continue
        except S.NullDeref as e:
            fails['no null dereference'] = str(e)
        for law in ('the copy is a well-formed list of the same length', 'the copy shares no node with the source',
                    'all cloned nodes carry one fresh generation that is not above the list\'s counter', 'the source list is untouched'):
            ctx.ob(rule, f, 'cloneFrom: %s (source lengths 0..%d)' % (law, maxlen), law not in fails, detail='fails for %s' % fails.get(law), key_detail='clone shape ' + law[:40])
        if 'no null dereference' in fails:
            ctx.ob(rule, f, 'cloneFrom dereferences no null pointer', False, detail=fails['no null dereference'], key_detail='clone null')


def check_clone(ctx, tu, info):
    check_clone_shape(ctx, tu, 6 if ctx.tier == 'thorough' else 4)
    for f in tu.fns_named('CallbackListBase::cloneFrom'):
        src = f.params[0]['id'] if f.params else None
        makes = [n for n in f.calls() if (f.callee_key(n) or '') == 'std::make_shared' and 'Node' in tu.tstr(f.nodes[n].get('t'))]
        # one construction inside the copying loop; a peeled first iteration may add another one in front of it
        ok = bool(makes) and any(f.block_reaches(f.pos(m)[0], f.pos(m)[0]) for m in makes)
        detail = '%d node constructions' % len(makes)
        fresh_vars = set()
        gen_ok = cb_ok = False
        if ok:
            cb_ok = gen_ok = True
            for mk in makes:
                a = f.call_args(mk)
                # callback from the source cursor, generation from a local drawn once before the loop
                cbp = path(f, a[0]) if a else ()
                cb_ok = cb_ok and cbp[-1:] == ('.callback',)
                g = f.value_source(a[1]) if len(a) > 1 else None
                one = False
                if g is not None and f.nodes[g]['cls'] == 'DeclRefExpr' and f.decl(g)['kind'] == 'var':
                    vd = f.var_decls().get(f.decl(g)['id'])
                    if vd and vd.get('init'):
                        i = f.value_source(vd['init'])
                        one = f.is_call(i) and (f.callee_key(i) or '') == 'CallbackListBase::getNextCounter' and \
                            not f.block_reaches(f.pos(vd['stmt'])[0], f.pos(vd['stmt'])[0])
                gen_ok = gen_ok and one
            gens = {f.decl(f.value_source(f.call_args(mk)[1])).get('id') for mk in makes if len(f.call_args(mk)) > 1 and f.nodes[f.value_source(f.call_args(mk)[1])]['cls'] == 'DeclRefExpr'}
            gen_ok = gen_ok and len(gens) == 1        # all of them the same drawn generation
            for vid, vd in f.var_decls().items():
                if vd.get('init') and any(mk in ([f.value_source(vd['init'])] + f.descendants(vd['init'])) for mk in makes):
                    fresh_vars.add(vid)
            # a local that is only ever assigned freshly made nodes
            for vid, vd in f.var_decls().items():
                asg = [w for w in info.writes(f) if w['how'] == 'assign' and w['path'] == ('v:%s#%d' % (vd['name'], vid),) and w.get('rhs')]
                if asg and not vd.get('init') and any(f.value_source(w['rhs']) in makes for w in asg):
                    if all(f.value_source(w['rhs']) in makes or (len(path(f, f.value_source(w['rhs']))) == 1 and root_var_id(path(f, f.value_source(w['rhs']))) in fresh_vars) for w in asg):
                        fresh_vars.add(vid)
        ctx.ob('C10.S', f, 'every cloned node is a new node holding the source node\'s callback', ok and cb_ok, detail=detail)
        ctx.ob('C10.S', f, 'all cloned nodes get one fresh generation drawn through getNextCounter before the loop', gen_ok,
               detail='copying the source generations (or drawing nothing) makes callbacks of the copy look newer than its invocations: they are skipped')
        # taint: what is stored into head / tail / links derives from fresh nodes only
        node_vars = set(fresh_vars)
        changed = True
        ws = info.writes(f)
        while changed:
            changed = False
            for w in ws:
                if w['how'] == 'assign' and len(w['path']) == 1 and root_var_id(w['path']) is not None and w.get('rhs'):
                    rp = path(f, f.value_source(w['rhs']))
                    if len(rp) == 1 and root_var_id(rp) in node_vars and root_var_id(w['path']) not in node_vars and root_var_id(w['path']) != src:
                        # a variable that only ever receives fresh nodes
                        allsrc = [(x, path(f, f.value_source(x['rhs']))) for x in ws if x['path'] == w['path'] and x['how'] == 'assign' and x.get('rhs')]
                        if all((len(p) == 1 and root_var_id(p) in node_vars) or f.value_source(x['rhs']) in makes for (x, p) in allsrc):
                            node_vars.add(root_var_id(w['path']))
                            changed = True
        bad = []
        for w in ws:
            flds = fields_in(w['path'])
            if w['how'] == 'assign' and flds and flds[-1] in ('head', 'tail', 'previous', 'next') and w.get('rhs'):
                rp = path(f, f.value_source(w['rhs']))
                if not (len(rp) == 1 and root_var_id(rp) in node_vars):
                    bad.append('%s = %s at %s' % (pstr(w['path']), pstr(rp), f.nloc(w['node'])))
        ctx.ob('C10.S', f, 'only freshly made nodes are linked into the copy (no node is shared with the source)', not bad and bool(fresh_vars),
               detail='; '.join(bad))
        cw = [w for w in ws if w['path'] == ('this', '.currentCounter')]
        ctx.ob('C10.S', f, 'cloneFrom leaves currentCounter to getNextCounter', not cw,
               detail='direct write at %s' % ', '.join(f.nloc(w['node']) for w in cw))
    for f in tu.fns:
        if f.cls == 'HeterCallbackListBase' and f.kind == 'ctor' and f.d.get('ctor') == 'copy':
            ws = [w for w in info.writes(f) if 'callbackListList' in fields_in(w['path']) and w['how'] == 'assign']
            ok = len(ws) == 1
            if ok:
                r = f.value_source(ws[0]['rhs'])
                ok = f.is_call(r) and (f.callee(r) or {}).get('name') == 'doClone'
            inits = {i.get('member'): i for i in f.d.get('inits', [])}
            i0 = inits.get('callbackListList')
            shared = False
            if i0 and i0.get('n'):
                for d in [i0['n']] + f.descendants(i0['n']):
                    if f.nodes[d]['cls'] == 'MemberExpr' and f.decl(d)['name'] == 'callbackListList' and root_var_id(path(f, d)) == f.params[0]['id']:
                        shared = True
            ctx.ob('C10.S', f, 'the heterogeneous copy stores only clones of the per-prototype lists', ok and not shared,
                   detail='copying the shared_ptr array itself makes both objects share their callback lists')
        if f.skey == 'HeterCallbackListBase::HomoCallbackListType::doClone':
            mk = [n for n in f.calls() if (f.callee_key(n) or '') == 'std::make_shared']
            ok = len(mk) == 1
            if ok:
                a = f.call_args(mk[0])
                ok = len(a) == 1 and path(f, a[0]) == ('this',)
            ctx.ob('C10.S', f, 'doClone builds a new list from *this', ok)


VALUE_STATE = {
    # class key -> {field: substring its type must contain, held by value}
    'MixinFilter': {'filterList': 'CallbackList<'},
    'MixinHeterFilter': {'filterList': 'HeterCallbackList<'},
    'internal_::EventDispatcherBase': {'eventCallbackListMap': 'map<'},
    'internal_::HeterEventDispatcherBase': {'eventCallbackListMap': 'map<'},
}


def check_value_state(ctx, tu):
    """Listener and filter containers are data members held by value, so that the implicit / memberwise copy operations of the
    enclosing class produce independent objects. A pointer-like member would be copied shallowly (both objects then share filters)."""
    for key, fields in VALUE_STATE.items():
        for c in tu.classes_by_key.get(key, []) + tu.classes_by_key.get(key.split('::')[-1], []):
            fl = {x['name']: x for x in c['fields']}
            for fld, want in fields.items():
                if fld not in fl:
                    ctx.ob('C10.S', key.split('::')[-1], '%s holds its %s as a data member' % (key.split('::')[-1], fld), False, tu=tu,
                           detail='field not found in %s' % c['q'][:100], key_detail='value state ' + fld)
                    continue
                t = tu.type(fl[fld]['t'])
                s_ = t['s'] if t else ''
                byvalue = bool(t) and not t['ref'] and t.get('ptr') is None and not s_.startswith(('std::shared_ptr<', 'std::unique_ptr<', 'std::weak_ptr<')) and want in s_
                copy_user = c['special'].get('copy_ctor') == 'user' and c['special'].get('copy_assign') == 'user'
                ctx.ob('C10.S', key.split('::')[-1], '%s::%s is held by value (or the class deep-copies it itself)' % (key.split('::')[-1], fld), byvalue or copy_user, tu=tu,
                       detail='%s has type %s and the copy operations are %s/%s: a copy of the object shares the container with its source'
                              % (fld, s_[:100], c['special'].get('copy_ctor'), c['special'].get('copy_assign')), key_detail='value state ' + fld)


def check_queue_ctors(ctx, tu):
    # assignment and swap act on a *live* queue: guard objects (a running processing call, DisableQueueNotify) may refer to it and will
    # subtract their own one later, so these operations must leave the guard counters alone (resetting them drives them negative:
    # the queue then never reports empty again, or never notifies again)
    from ..effects import writes as _writes
    for f in tu.fns:
        if f.cls in ('EventQueueBase', 'HeterEventQueueBase') and f.kind in ('method', 'operator') and f.name in ('operator=', 'swap'):
            touched = []
            seen = set()
            work = [f]
            while work:
                g = work.pop()
                if g.id in seen:
                    continue
                seen.add(g.id)
                for w in _writes(g):
                    if last_field(w['path']) in ('queueEmptyCounter', 'queueNotifyCounter') and not (w['how'].startswith('call:') and w['how'][5:].split('::')[-1] == 'load'):
                        touched.append('%s %s at %s' % (w['how'], pstr(w['path']), g.nloc(w['node'])))
                for n in g.calls():
                    for h in g.callee_fns(n):
                        if h.cls == f.cls and h.kind in ('method', 'operator') and h.name not in ('operator=', 'swap'):
                            work.append(h)
            ctx.ob('C10.Q', f, '%s of a queue leaves the guard counters to their guards' % f.name, not touched,
                   detail='; '.join(touched[:3]), key_detail='assignment writes counters')
    for f in tu.fns:
        if f.cls in ('EventQueueBase', 'HeterEventQueueBase') and f.kind == 'ctor' and f.d.get('ctor') in ('copy', 'move'):
            inits = {i.get('member'): i for i in f.d.get('inits', []) if i.get('kind') == 'member'}
            bad = []
            for fld in ('queueList', 'freeList'):
                i = inits.get(fld)
                if i and i.get('n'):
                    n = f.strip_all_casts(i['n'])
                    if not (f.is_construct(n) and not f.nodes[n].get('args')):
                        bad.append(fld)
            ctx.ob('C10.Q', f, 'the new queue starts with empty event lists (pending events are not carried over)', not bad,
                   detail='initialised from the source: %s' % ', '.join(bad))
            cnt = [m for m in ('queueEmptyCounter', 'queueNotifyCounter') if m in inits and inits[m].get('indet')]
            ctx.ob('C10.Q', f, 'the new queue\'s counters start at a definite value', not cnt, detail='indeterminate: %s' % ', '.join(cnt))
