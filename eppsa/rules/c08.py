"""C08 — Stored callbacks and arguments are destroyed exactly once, never leaked.

  P  slot protocol (A9, shared with C05): no slot is recycled or re-set while FULL, none is cleared or read while EMPTY;
     ~BufferedItem / ~BufferedUnion clear exactly when dtor is non-null; clear() runs the stored destructor then resets the
     pointer; set() publishes dtor only after the placement construction
  T  type level: slots, AnyData and LargeData are not copyable (slots not movable): memberwise copies would destroy twice
  N  node cycles: the destructor and the move assignment of CallbackListBase run doFreeAllNodes before head is dropped or
     overwritten; doFreeAllNodes walks from head and resets both links of every node; the node-building copy constructor
     delegates first (so that the destructor runs if cloning throws)
  O  raw ownership: the only non-placement new is in LargeData; its destructor deletes iff data is non-null; its move
     constructor leaves the source null; AnyData's destructor frees iff a table is present; its move constructor
     move-constructs into its own buffer with the same table
"""
from ..facts import AnalysisBroken, short
from ..paths import path, pstr, last_field, root_var_id, fields_in
from .. import formula as F
from .qcommon import TUInfo, SLOT_CLASSES
from .listrules import edge_dominates, nonnull_test, adv_on_all_back_paths, is_node_ptr_type
from .c05 import run_slot_rules
from .c09 import check_placement

EXPLANATION = ('C08: slot EMPTY/FULL protocol by abstract interpretation (every clear/set/recycle), slot destructor/clear/set shapes, non-copyable owner '
               'types from class facts, node-cycle breaking in destructor / move assignment / delegating copy constructor, raw ownership of LargeData and AnyData.')
ASSUMPTIONS = ['leaks through user types and the exact time removed callbacks are released (beyond the ownership shape) are not decided']
UNITS = ['w_queue.cpp', 'w_heter.cpp', 'w_utils.cpp', 'w_callbacklist.cpp']


def check(ctx):
    ctx.rule('C08.P', 'slot protocol: destroyed exactly once, never overwritten while FULL')
    ctx.rule('C08.T', 'owner types are not copyable')
    ctx.rule('C08.N', 'node reference cycles are broken before the list lets go of its nodes')
    ctx.rule('C08.O', 'raw ownership in LargeData / AnyData')
    ctx.rule('C08.G', 'the ordered queue list reads a slot (get) only where the slot is established non-empty')
    n = 0
    ng = 0
    for tu in ctx.tus:
        info = TUInfo(tu)
        n += run_slot_rules(ctx, 'C08.P', None, tu, only_kinds=('P-',))
        check_slot_class(ctx, tu, info)
        check_placement(ctx, tu, info, 'C08.P')
        check_types(ctx, tu)
        check_nodes(ctx, tu, info)
        check_raw(ctx, tu, info)
        # the ordered queue list reads slot contents inside a container operation (its comparator): never on a cleared slot
        from .c13 import guarded_gets
        ng += guarded_gets(ctx, tu, 'C08.G')
    ctx.require(ng >= 2, 'C08.G: the comparator of the ordered queue list was not analysed (%d guarded reads found)' % ng)
    ctx.require(n >= 20, 'C08.P: fewer than 20 processing functions interpreted (%d)' % n)
    ctx.require_min('C08.P', 12)
    ctx.require_min('C08.T', 4)
    ctx.require_min('C08.N', 4)
    ctx.require_min('C08.O', 5)


def cond_is_nonnull(f, c, field):
    """branch condition `this.<field> != nullptr` -> edge on which it is non-null."""
    try:
        fm = F.boolexpr(f, c, {}, True)
    except F.Unsupported:
        return None
    neg = False
    while fm[0] == 'not':
        neg = not neg
        fm = fm[1]
    if fm[0] != 'atom':
        return None
    a = fm[1].replace('this.', '')
    if a in ('%s == nullptr' % field, 'nullptr == %s' % field):
        return 'true' if neg else 'false'
    if a == field:
        return 'false' if neg else 'true'
    return None


def check_slot_class(ctx, tu, info):
    # a slot class whose destructor is not user-written (defaulted / implicit) destroys nothing: every instantiated slot class must have
    # a destructor for the clause below to be judged on
    with_dtor = {f.clsq for f in tu.fns if f.kind == 'dtor' and f.cls.split('::')[0] in SLOT_CLASSES and not f.d.get('defaulted') and not f.d.get('implicit')}
    for f in tu.fns:
        if f.cls.split('::')[0] in SLOT_CLASSES and f.name == 'clear' and f.clsq not in with_dtor:
            ctx.ob('C08.P', f, 'the slot class has a destructor of its own that destroys a payload still present', False,
                   detail='%s has no user-written destructor: a slot that dies while FULL (a list of taken events unwinding after a listener threw, a queue '
                          'destroyed with events pending) never runs the stored destructor of its payload' % f.clsq[:120],
                   key_detail='no slot destructor')
    for f in tu.fns:
        if f.cls.split('::')[0] not in SLOT_CLASSES:
            continue
        if f.kind == 'dtor' and (f.d.get('defaulted') or f.d.get('implicit')):
            continue
        if f.kind == 'dtor':
            clears = [n for n in f.calls() if (f.callee(n) or {}).get('name') == 'clear']
            ok = len(clears) == 1
            if ok:
                dom = False
                for bid, blk in f.blocks.items():
                    c = blk.get('cond')
                    if c and len(blk['succ']) == 2:
                        role = cond_is_nonnull(f, c, 'dtor')
                        if role and edge_dominates(f, bid, role, f.pos(clears[0])):
                            # and the other edge skips it
                            dom = True
                ok = dom
            ctx.ob('C08.P', f, 'the slot destructor destroys the payload exactly when one is present (dtor != nullptr)', ok,
                   detail='a destructor that never clears leaks the payloads of queued events at queue destruction; one that always clears destroys garbage')
        elif f.name == 'clear':
            ind = [n for n in f.calls() if f.nodes[n].get('c', 0) == -1 and last_field(path(f, f.nodes[n]['calleeExpr'])) == 'dtor']
            resets = [w for w in info.writes(f) if w['path'] == ('this', '.dtor') and w['how'] == 'assign']
            ok = len(ind) == 1 and len(resets) == 1
            if ok:
                rhs = f.strip_all_casts(resets[0]['rhs'])
                isnull = f.nodes[rhs]['cls'] == 'CXXNullPtrLiteralExpr'
                ok = isnull and f.pos_dominates(f.pos(ind[0]), resets[0]['pos']) and f.pos_postdominates(resets[0]['pos'], (f.entry, 0)) \
                    and f.pos_postdominates(f.pos(ind[0]), (f.entry, 0))
                a = f.call_args(ind[0])
                ok = ok and len(a) == 1 and 'buffer' in fields_in(path(f, f.strip_all_casts(a[0])))
            ctx.ob('C08.P', f, 'clear() runs the stored destructor on the buffer once and then marks the slot EMPTY', ok)
        elif f.name == 'empty':
            try:
                fm = F.formula(f, inline=False)
                ok, _ = F.equivalent(fm, ('atom', 'dtor == nullptr'))
            except F.Unsupported:
                ok = False
            ctx.ob('C08.P', f, 'empty() reports exactly dtor == nullptr', ok)
    for f in tu.fns_named('commonDtor'):
        # reinterpret_cast<T*>(instance)->~T(): destructor of exactly the template argument
        ta = f.d.get('targs') or []
        dt = [n for n in f.nodes if f.nodes[n]['cls'] == 'CXXMemberCallExpr' and (f.callee(n) or {}).get('dtor')]
        pseudo = [n for n in f.nodes if f.nodes[n]['cls'] == 'CXXPseudoDestructorExpr']
        ok = (len(dt) == 1 or len(pseudo) == 1)
        if dt and ta and isinstance(ta[0], int):
            ok = tu.tstr((f.callee(dt[0]) or {}).get('clst')) == tu.tstr(ta[0])
        ctx.ob('C08.P', f, 'commonDtor<T> destroys the buffer content as exactly T', ok, key_detail='commonDtor')


def check_types(ctx, tu):
    want = {
        'BufferedItem': ('copy_ctor', 'move_ctor', 'copy_assign'),
        'BufferedUnion': ('copy_ctor', 'move_ctor', 'copy_assign'),
        'AnyData': ('copy_ctor', 'copy_assign', 'move_assign'),
        'anydata_internal_::LargeData': ('copy_ctor', 'copy_assign', 'move_assign'),
    }
    for key, members in want.items():
        for c in tu.classes_by_key.get(key, []):
            sp = c['special']
            bad = [m for m in members if sp.get(m) not in ('deleted', 'implicitly-deleted', 'none')]
            # 'none' for a move member is fine only if the copy member is deleted (then moves fall back to the deleted copy)
            if 'move_ctor' in members and sp.get('move_ctor') == 'none' and sp.get('copy_ctor') not in ('deleted', 'implicitly-deleted'):
                bad.append('move_ctor')
            ctx.ob('C08.T', key, '%s has no usable %s' % (key.split('::')[-1], '/'.join(members)), not bad,
                   detail='%s: usable %s - a memberwise copy duplicates the raw buffer / pointer and the payload is destroyed twice'
                          % (c['q'][:100], ', '.join(bad)), tu=tu, key_detail='noncopyable ' + key)


def check_nodes(ctx, tu, info):
    for f in tu.fns:
        if f.cls != 'CallbackListBase':
            continue
        if f.kind == 'dtor':
            calls = [n for n in f.calls() if (f.callee_key(n) or '') == 'CallbackListBase::doFreeAllNodes']
            ok = len(calls) >= 1 and any(f.pos_postdominates(f.pos(n), (f.entry, 0)) for n in calls)
            ctx.ob('C08.N', f, 'the destructor breaks the node cycles (doFreeAllNodes) on every path', ok,
                   detail='neighbouring nodes own each other through shared_ptr previous/next: without the walk all callbacks of a list with two or more nodes leak')
        elif f.name == 'operator=' and f.d.get('assign') == 'move':
            calls = [n for n in f.calls() if (f.callee_key(n) or '') == 'CallbackListBase::doFreeAllNodes']
            heads = [w for w in info.writes(f) if w['path'] == ('this', '.head') and w['how'] == 'assign']
            ok = bool(calls) and bool(heads) and all(any(f.pos_dominates(f.pos(n), w['pos']) and f.pos(n) != w['pos'] for n in calls) for w in heads)
            ctx.ob('C08.N', f, 'move assignment frees the nodes it held before head is overwritten', ok,
                   detail='overwriting head without doFreeAllNodes leaks the destination\'s callbacks (cycle through previous/next)')
        elif f.kind == 'ctor' and f.d.get('ctor') == 'copy':
            ctx.ob('C08.N', f, 'the copy constructor delegates to a complete constructor before cloning (a throwing clone is then cleaned up by the destructor)',
                   bool(f.d.get('delegating')),
                   detail='without delegation the destructor does not run when cloneFrom throws, and the nodes cloned so far (mutually owning) are never freed')
        elif f.name == 'doFreeAllNodes':
            cursors = [(vid, vd) for vid, vd in f.var_decls().items() if is_node_ptr_type(tu, vd['t'])]
            ws = info.writes(f)
            loops = [b for b in f.blocks if f.block_reaches(b, b)]
            ok = False
            detail = ''
            # find the cursor: initialised from head, loop runs while it is non-null
            for vid, vd in cursors:
                if not vd.get('init') or path(f, f.value_source(vd['init'])) != ('this', '.head'):
                    continue
                cname = vd['name']
                root = 'v:%s#%d' % (cname, vid)
                lc = [b for b in loops if f.blocks[b].get('cond') and nonnull_test(f, f.blocks[b]['cond'], cname)]
                if len(lc) != 1:
                    continue
                body = f.blocks[lc[0]]['succ'][0]
                resets = {}
                for w in ws:
                    if w['path'] in ((root, '*', '.previous'), (root, '*', '.next')) and (w['how'] == 'call:reset' or (w['how'] == 'assign' and
                            f.nodes[f.strip_all_casts(w['rhs'])]['cls'] == 'CXXNullPtrLiteralExpr')):
                        resets[w['path'][2]] = w
                adv = [w for w in ws if w['path'] == (root,) and w['how'] == 'assign']
                # resetting one direction of links on every node is enough to break every previous/next cycle
                both = bool(resets) and any(adv_on_all_back_paths(f, body, lc[0], w['pos']) for w in resets.values())
                # the successor is saved before the links are reset
                saved = False
                if len(adv) == 1:
                    src = f.value_source(adv[0]['rhs'])
                    if f.nodes[src]['cls'] == 'DeclRefExpr' and f.decl(src)['kind'] == 'var':
                        nvd = f.var_decls().get(f.decl(src)['id'])
                        if nvd and nvd.get('init') and path(f, f.value_source(nvd['init'])) == (root, '*', '.next'):
                            saved = '.next' not in resets or (f.pos_dominates(f.pos(nvd['stmt']), resets['.next']['pos']) and f.pos(nvd['stmt']) != resets['.next']['pos'])
                    every = adv_on_all_back_paths(f, body, lc[0], adv[0]['pos'])
                else:
                    every = False
                ok = both and saved and every
                detail = 'a link direction reset in every iteration: %s; successor saved before the reset: %s; advances every iteration: %s' % (both, saved, every)
            head_reset = [w for w in ws if w['path'] == ('this', '.head') and w['how'] in ('call:reset', 'assign')]
            ctx.ob('C08.N', f, 'doFreeAllNodes walks the whole list from head and cuts the links of every node (at least one direction)', ok, detail=detail)
            ctx.ob('C08.N', f, 'doFreeAllNodes lets go of head', bool(head_reset))


def check_raw(ctx, tu, info):
    # the only non-placement new is in LargeData
    for f in tu.fns:
        for n, o in f.nodes.items():
            if o['cls'] == 'CXXNewExpr' and not o.get('placement'):
                ctx.ob('C08.O', f, 'heap allocation with a raw owning pointer happens only in LargeData', f.skey.startswith('anydata_internal_::LargeData::LargeData'),
                       detail='new at %s' % f.nloc(n), where=f.nloc(n), key_detail='raw new')
    for f in tu.fns:
        if f.skey == 'anydata_internal_::LargeData::~LargeData':
            ind = [n for n in f.calls() if f.nodes[n].get('c', 0) == -1 and last_field(path(f, f.nodes[n]['calleeExpr'])) == 'deleter']
            ok = len(ind) == 1
            if ok:
                a = f.call_args(ind[0])
                ok = len(a) == 1 and path(f, f.strip_all_casts(a[0])) == ('this', '.data')
                dom = False
                for bid, blk in f.blocks.items():
                    c = blk.get('cond')
                    if c and len(blk['succ']) == 2:
                        role = cond_is_nonnull(f, c, 'data')
                        if role and edge_dominates(f, bid, role, f.pos(ind[0])):
                            dom = True
                ok = ok and dom
            ctx.ob('C08.O', f, '~LargeData deletes its object exactly when it owns one', ok)
        elif f.skey == 'anydata_internal_::LargeData::LargeData' and f.d.get('ctor') == 'move':
            inits = {i.get('member'): i for i in f.d.get('inits', [])}
            nulls = all(m in inits and not inits[m].get('indet') for m in ('data', 'deleter'))
            other = f.params[0]['id']
            sw = [w for w in info.writes(f) if w['how'].startswith('arg:') and w['how'].endswith('swap')]
            swapped = {(w['path'][0].startswith('v:'), last_field(w['path'])) for w in sw}
            ok = nulls and (False, 'data') in swapped and (True, 'data') in swapped and (False, 'deleter') in swapped
            if not ok:
                # the other spelling: take both members from the source in the initialiser list, then null the source's object pointer
                def from_other(m):
                    i = inits.get(m)
                    if not i or not i.get('n'):
                        return False
                    pp = path(f, f.value_source(i['n']))
                    return root_var_id(pp) == other and last_field(pp) == m
                nulled = [w for w in info.writes(f) if root_var_id(w['path']) == other and last_field(w['path']) == 'data' and w['how'] == 'assign'
                          and w.get('rhs') and (f.nodes[f.strip_all_casts(w['rhs'])]['cls'] in ('CXXNullPtrLiteralExpr', 'GNUNullExpr')
                                                or f.nodes[f.strip_all_casts(w['rhs'])].get('value') == 0)]
                ok = from_other('data') and from_other('deleter') and len(nulled) >= 1 and all(f.pos_postdominates(w['pos'], (f.entry, 0)) for w in nulled[:1])
            ctx.ob('C08.O', f, 'the LargeData move constructor takes the object and leaves the source owning nothing', ok,
                   detail='source and destination would both delete the same object')
        elif f.skey == 'anydata_internal_::LargeData::LargeData' and f.d.get('ctor') not in ('copy', 'move', 'default'):
            news = [n for n, o in f.nodes.items() if o['cls'] == 'CXXNewExpr' and not o.get('placement')]
            ws = [w for w in info.writes(f) if w['path'] in (('this', '.data'), ('this', '.deleter')) and w['how'] == 'assign']
            # the value a member ends up with: the assignment in the body, or its member initialiser when the body does not assign it
            src = {w['path'][1]: w['rhs'] for w in ws if w.get('rhs')}
            for i in f.d.get('inits', []):
                m = '.' + str(i.get('member'))
                if m in ('.data', '.deleter') and m not in src and i.get('n') and \
                        f.nodes[f.strip_all_casts(i['n'])]['cls'] not in ('ImplicitValueInitExpr', 'CXXScalarValueInitExpr', 'CXXNullPtrLiteralExpr', 'InitListExpr'):
                    src[m] = i['n']
            okn = len(news) == 1 and set(src) == {'.data', '.deleter'}
            if okn:
                # the object allocated is what `data` receives, and the deleter is for exactly the allocated type
                alloc = tu.tstr(f.nodes[news[0]].get('alloc'))
                okn = news[0] in [src['.data']] + f.descendants(src['.data'])
                dref = [d for d in [src['.deleter']] + f.descendants(src['.deleter']) if f.nodes[d]['cls'] == 'DeclRefExpr' and f.decl(d)['kind'] == 'func']
                okn = okn and bool(dref) and ('funcDeleteObject<%s>' % alloc) in f.decl(dref[0]).get('q', '').replace('class ', '')
            ctx.ob('C08.O', f, 'LargeData allocates one object and stores the matching deleter', okn)
        elif f.skey == 'AnyData::~AnyData':
            b_ = f.body_helper or f       # the body may be one call of a private helper taking the object explicitly
            ind = [n for n in b_.calls() if b_.nodes[n].get('c', 0) == -1 and last_field(path(b_, b_.nodes[n]['calleeExpr'])) == 'free']
            ok = len(ind) == 1
            if ok:
                dom = False
                others = []
                for bid, blk in b_.blocks.items():
                    c = blk.get('cond')
                    if c and len(blk['succ']) == 2:
                        role = cond_is_nonnull(b_, c, 'functions')
                        if role and edge_dominates(b_, bid, role, b_.pos(ind[0])):
                            dom = True
                        elif edge_dominates(b_, bid, 'true', b_.pos(ind[0])) or edge_dominates(b_, bid, 'false', b_.pos(ind[0])):
                            others.append(b_.nloc(c))      # "exactly when": no further condition stands between a held object and its destruction
                a = b_.call_args(ind[0])
                pa = path(b_, b_.strip_all_casts(a[0])) if len(a) == 1 else ()
                ok = dom and not others and len(a) == 1 and 'buffer' in fields_in(pa) and pa[0] == 'this'
            ctx.ob('C08.O', f, '~AnyData destroys the held object exactly when it holds one', ok)
        elif f.skey == 'AnyData::AnyData' and f.d.get('ctor') == 'move':
            inits = {i.get('member'): i for i in f.d.get('inits', [])}
            other = f.params[0]['id']
            okf = 'functions' in inits and inits['functions'].get('n') and root_var_id(path(f, inits['functions']['n'])) == other and \
                last_field(path(f, inits['functions']['n'])) == 'functions'
            b_ = f.body_helper or f
            ind = [n for n in b_.calls() if b_.nodes[n].get('c', 0) == -1 and last_field(path(b_, b_.nodes[n]['calleeExpr'])) == 'moveConstruct']
            okm = len(ind) == 1
            if okm:
                a = [path(b_, b_.strip_all_casts(x)) for x in b_.call_args(ind[0])]
                okm = len(a) == 2 and root_var_id(a[0]) == other and 'buffer' in fields_in(a[0]) and a[1][0] == 'this' and 'buffer' in fields_in(a[1])
            ctx.ob('C08.O', f, 'moving an AnyData move-constructs the held object from the source buffer into its own buffer, with the same table', bool(okf and okm))
            srcw = [w for w in info.writes(f) if root_var_id(w['path']) == other and w['how'] in ('assign', 'call:reset', '++', '--')]
            ctx.ob('C08.O', f, 'the moved-from AnyData keeps its table, so its destructor still destroys the moved-from object left in its buffer', not srcw,
                   detail='write to %s at %s: the source no longer destroys the (moved-from) object it still holds - that object is never destroyed'
                          % (', '.join(pstr(w['path']) for w in srcw), ', '.join(f.nloc(w['node']) for w in srcw)))
