// compile-fail witnesses: each marked line below must be rejected by the compiler; all other lines must build.
#include "common.h"

namespace wit {

void okInclude() { eventpp::EventDispatcher<int, void (int), PoliciesInclude> d; d.dispatch(1); }
void okExclude() { eventpp::EventDispatcher<int, void (int), PoliciesExclude> d; d.dispatch(1, 2); }
void okAuto() { eventpp::EventDispatcher<int, void (int)> d; d.dispatch(1); d.dispatch(1, 2); }

void badIncludeWithExcludeForm() {
	eventpp::EventDispatcher<int, void (int), PoliciesInclude> d;
	d.dispatch(1, 2); // EXPECT-ERROR
}
void badExcludeWithIncludeForm() {
	eventpp::EventDispatcher<int, void (int), PoliciesExclude> d;
	d.dispatch(1); // EXPECT-ERROR
}
void badQueueIncludeWithExcludeForm() {
	eventpp::EventQueue<int, void (int), PoliciesInclude> q;
	q.enqueue(1, 2); // EXPECT-ERROR
}
void badQueueExcludeWithIncludeForm() {
	eventpp::EventQueue<int, void (int), PoliciesExclude> q;
	q.enqueue(1); // EXPECT-ERROR
}

} // namespace wit
