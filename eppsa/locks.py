"""A5 lockset / scope-object analysis.

Forward dataflow over the CFG of one function of the set of *held scope objects*:
  kind 'lock'  : std::lock_guard / unique_lock / scoped_lock over a mutex path, or a bare mutex.lock()
  kind 'guard' : eventpp::internal_::CounterGuard over a counter path
must-hold (intersection at joins) and may-hold (union) are both computed.
"""
from .paths import path, pstr

LOCK_CLASSES = {'std::lock_guard', 'std::unique_lock', 'std::scoped_lock'}
GUARD_CLASSES = {'CounterGuard', 'eventpp::internal_::CounterGuard'}


class ScopeInfo:
    """Per-function result: for every CFG position the set of held (kind, path) pairs."""

    def __init__(self, fn, entry_must=frozenset(), entry_may=frozenset()):
        self.fn = fn
        self.entry_must = frozenset(entry_must)
        self.entry_may = frozenset(entry_may)
        self.acquires = []   # (pos, kind, path, var, node)
        self.releases = []   # (pos, var)
        self.bare = []       # (pos, 'lock'|'unlock', path, node)
        self._ctor_var = {}
        self._scan_decls()
        self.must_in, self.must_at = self._solve(True)
        self.may_in, self.may_at = self._solve(False)

    def _scan_decls(self):
        fn = self.fn
        for vid, vd in fn.var_decls().items():
            init = vd.get('init')
            if not init:
                continue
            s = fn.strip(init)
            if fn.is_construct(s):
                self._ctor_var[s] = vid

    def _classify(self, n):
        fn = self.fn
        cal = fn.callee(n)
        if not cal:
            return None
        cls = cal.get('cls', '')
        from .facts import short
        scls = short(cls)
        if cls in LOCK_CLASSES or scls in LOCK_CLASSES or scls in fn.tu.lock_guard_classes():
            return 'lock'
        if scls in GUARD_CLASSES or scls in fn.tu.counter_guard_classes():
            return 'guard'
        return None

    def _transfer(self, state, bid, idx, e, record):
        fn = self.fn
        k = e['k']
        if k in ('stmt', 'init'):
            n = e.get('n')
            if not n:
                return state
            o = fn.nodes[n]
            if fn.is_construct(n):
                kind = self._classify(n)
                cal = fn.callee(n)
                if kind and cal.get('ctor') not in ('copy', 'move', 'default'):
                    args = o.get('args', [])
                    # unique_lock(m, std::defer_lock) does not acquire
                    if kind == 'lock' and len(args) >= 2:
                        t = fn.ntype(args[1])
                        if t and 'defer_lock' in t['s']:
                            return state
                    if args:
                        p = path(fn, args[0])
                        if kind == 'guard':
                            from .facts import short as _short
                            gc = _short((cal or {}).get('cls', ''))
                            if gc in fn.tu.counter_guard_classes():
                                p = fn.tu.guard_counter_path(gc, p)
                        var = self._ctor_var.get(n)
                        if var is None:
                            # temporary scope object: acquired and released within the full expression
                            if record:
                                self.acquires.append(((bid, idx), kind, p, None, n))
                            return state
                        if record:
                            self.acquires.append(((bid, idx), kind, p, var, n))
                        return state | {(kind, p, var)}
            elif o['cls'] == 'CXXMemberCallExpr':
                cal = fn.callee(n)
                if cal and cal['name'] in ('lock', 'unlock') and o.get('obj') and not cal['params'] \
                        and (fn.tu.type(cal.get('ret')) or {}).get('s') == 'void':
                    objp = path(fn, o['obj'], resolve_refs=True)
                    # call on a tracked scope variable?
                    from .paths import root_var_id
                    vid = root_var_id(objp) if len(objp) == 1 else None
                    tracked = [x for x in state if x[2] == vid] if vid is not None else []
                    objt = fn.ntype(o['obj'])
                    is_scope_obj = objt and objt.get('rec') in LOCK_CLASSES
                    if is_scope_obj:
                        if cal['name'] == 'unlock':
                            return frozenset(x for x in state if x[2] != vid)
                        else:
                            # re-lock: find the mutex from the acquire record of that var
                            for (_, kind, p, var, _) in self.acquires:
                                if var == vid:
                                    return state | {(kind, p, var)}
                            return state
                    else:
                        # bare mutex lock()/unlock()
                        if record:
                            self.bare.append(((bid, idx), cal['name'], objp, n))
                        if cal['name'] == 'lock':
                            return state | {('lock', objp, 'bare')}
                        return frozenset(x for x in state if not (x[1] == objp and x[2] == 'bare'))
        elif k == 'autodtor':
            var = e.get('var')
            if any(x[2] == var for x in state):
                if record:
                    self.releases.append(((bid, idx), var))
                return frozenset(x for x in state if x[2] != var)
        return state

    def _solve(self, must):
        fn = self.fn
        entry = frozenset(('lock' if True else 'guard', p, 'entry') for p in (self.entry_must if must else self.entry_may))
        IN = {}
        order = sorted(fn.blocks, reverse=True)
        preds = fn.preds()
        reach = fn.reachable_blocks()
        IN[fn.entry] = entry
        OUT = {}
        changed = True
        first = True
        it = 0
        while changed and it < 50:
            changed = False
            it += 1
            for b in order:
                if b not in reach:
                    continue
                if b != fn.entry:
                    ps = [p for p in preds.get(b, []) if p in OUT]
                    if not ps:
                        continue
                    if must:
                        s = None
                        for p in ps:
                            s = OUT[p] if s is None else (s & OUT[p])
                    else:
                        s = frozenset()
                        for p in ps:
                            s = s | OUT[p]
                    if IN.get(b) != s:
                        IN[b] = s
                        changed = True
                st = IN[b]
                for i, e in enumerate(fn.blocks[b]['elems']):
                    st = self._transfer(st, b, i, e, False)
                if OUT.get(b) != st:
                    OUT[b] = st
                    changed = True
        AT = {}
        self_record = must  # record events once
        if self_record:
            self.acquires, self.releases, self.bare = [], [], []
        for b in order:
            if b not in IN:
                continue
            st = IN[b]
            for i, e in enumerate(fn.blocks[b]['elems']):
                AT[(b, i)] = st
                st = self._transfer(st, b, i, e, self_record)
            AT[(b, len(fn.blocks[b]['elems']))] = st
        return IN, AT

    # ---- queries ------------------------------------------------------------------
    def held_must(self, pos, kind='lock'):
        st = self.must_at.get(pos)
        if st is None:
            return set()
        return {x[1] for x in st if x[0] == kind}

    def held_may(self, pos, kind='lock'):
        st = self.may_at.get(pos)
        if st is None:
            return set()
        return {x[1] for x in st if x[0] == kind}

    def held_must_full(self, pos):
        return self.must_at.get(pos) or frozenset()

    def node_held_must(self, n, kind='lock'):
        return self.held_must(self.fn.pos(n), kind)

    def node_held_may(self, n, kind='lock'):
        return self.held_may(self.fn.pos(n), kind)


def mutex_name(p):
    """Last field of a mutex path (e.g. 'queueListMutex')."""
    for s in reversed(p):
        if s.startswith('.') and not s.endswith('()'):
            return s[1:]
    return pstr(p)
