"""C18 — AnyId keys are coherent: equality, ordering and hash agree.

  L  the extracted boolean formulas of operator==, operator< (with the compareEqual/compareLessThan overloads selected for
     the storage inlined) are evaluated over every consistent ordering of three ids (13 weak orderings of the digests x
     13 weak orderings of the stored values, or no value comparison for EmptyAnyStorage):
       == is an equivalence; < is irreflexive and transitive with transitive incomparability; incomparable <=> ==;
       equal ids have equal digests and std::hash reads nothing but the digest; with comparable value storage, ids with
       equal digests and different values are distinct; without it ids are equal iff their digests are
  W  an AnyId key selects the hashed map (static_assert witness)
"""
import itertools
import os
import re

from ..facts import AnalysisBroken, short
from ..paths import path, root_var_id
from ..effects import fields_read_transitively
from .. import formula as F
from .. import witness, extract

EXPLANATION = 'C18: algebraic laws of the extracted ==, < and hash formulas of AnyId, exhaustively over all orderings of three ids.'
ASSUMPTIONS = ['the digester is a function and the stored type\'s own == / < are an equivalence / strict weak order consistent with each other']
UNITS = ['w_utils.cpp']

ATOM_RE = re.compile(r'^(a|b)\.(.+?) (==|<) (a|b)\.(.+)$')
KINDS = {'getDigest()': 'D', 'getValue()': 'V'}


def atom_kind(text):
    """Relation an atom compares the two ids by: 'D' digest, 'V' stored value, or 'X:<accessor>' for anything else the ids expose
    (e.g. getValue().type()): such a relation is modelled like the others, as a weak ordering of the three ids, all of them enumerated."""
    m = ATOM_RE.match(text)
    if not m or m.group(2) != m.group(5):
        return None
    return KINDS.get(m.group(2), 'X:' + m.group(2))


def weak_orderings(n):
    """All assignments of ranks to n items describing the distinct weak orderings (ties allowed)."""
    seen = set()
    out = []
    for ranks in itertools.product(range(n), repeat=n):
        # canonicalise: ranks must be dense 0..k
        used = sorted(set(ranks))
        canon = tuple(used.index(r) for r in ranks)
        if canon not in seen:
            seen.add(canon)
            out.append(canon)
    return out


def eval_formula(f, x, y, d, v):
    """Evaluate formula (written over parameters a,b) with a:=x, b:=y under digest ranks d and value ranks v (or None)."""
    k = f[0]
    if k == 'const':
        return f[1]
    if k == 'not':
        return not eval_formula(f[1], x, y, d, v)
    if k == 'and':
        return eval_formula(f[1], x, y, d, v) and eval_formula(f[2], x, y, d, v)
    if k == 'or':
        return eval_formula(f[1], x, y, d, v) or eval_formula(f[2], x, y, d, v)
    m = ATOM_RE.match(f[1])
    kind = atom_kind(f[1])
    if not m or kind is None:
        raise F.Unsupported('unrecognised atom "%s"' % f[1])
    l, _, op, r, _ = m.groups()
    sub = {'a': x, 'b': y}
    li, ri = sub[l], sub[r]
    ranks = d if kind == 'D' else (v.get(kind) if isinstance(v, dict) else v)
    if ranks is None:
        raise F.Unsupported('value comparison without comparable storage: "%s"' % f[1])
    return ranks[li] == ranks[ri] if op == '==' else ranks[li] < ranks[ri]


def check(ctx):
    ctx.rule('C18.L', 'algebraic laws of ==, < and hash over all orderings of three ids')
    ctx.rule('C18.I', 'no AnyId constructor leaves the digest indeterminate')
    ctx.rule('C18.D', 'digests reach the comparisons unconverted')
    ctx.rule('C18.V', 'the converting constructor stores the value it digested')
    ctx.rule('C18.W', 'AnyId selects the hashed map')
    seen = set()
    for tu in ctx.tus:
        for eqf, ltf, storage in anyid_pairs(tu):
            check_pair(ctx, tu, eqf, ltf, storage)
            seen.add(storage)
        for f in tu.fns:
            if f.skey.startswith('std::hash::operator()') and 'AnyId' in f.q:
                reads = fields_read_transitively(f)
                reads = {r for r in reads if r in ('digest', 'value')}
                ctx.ob('C18.L', f, 'std::hash<AnyId> reads only the digest (ids that compare equal have equal digests, hence equal hashes)',
                       reads == {'digest'}, detail='fields read: %s' % sorted(reads))
    # the hash is a function of the digest's *value* (ids that compare equal have equal digest values, e.g. +0.0 and -0.0): MakeHash may
    # convert the value or hand it to std::hash, but must not look at its object representation (address-of, bit casts, memcpy)
    for tu in ctx.tus:
        for f in tu.fns:
            if f.skey.startswith('anyid_internal_::MakeHash') and f.name == 'operator()' and f.params:
                pid = f.params[0]['id']
                bad = []
                for n, o in f.nodes.items():
                    if o['cls'] == 'UnaryOperator' and o.get('op') == '&':
                        if root_var_id(path(f, f.kids(n)[0], resolve_refs=False)) == pid:
                            bad.append('address of the digest taken at %s' % f.nloc(n))
                    if o['cls'] in ('CXXReinterpretCastExpr',) or o.get('ck') in ('BitCast', 'LValueBitCast'):
                        if any(f.nodes[d]['cls'] == 'DeclRefExpr' and f.decl(d).get('id') == pid for d in f.descendants(n)):
                            bad.append('bit cast of the digest at %s' % f.nloc(n))
                ctx.ob('C18.L', f, 'the hash is computed from the digest\'s value, not from its object representation', not bad,
                       detail='; '.join(bad), key_detail='hash from representation')
    # the stored values are compared by the Storage's own operators: compareEqual / compareLessThan either apply == / < to their two
    # parameters (where the Storage has the operator) or answer a constant (where it has not) - nothing else (no byte comparison, no
    # detour that a Storage with a coarser == or a non-bool < would not survive)
    for tu in ctx.tus:
        for f in tu.fns:
            if f.skey not in ('anyid_internal_::compareEqual', 'anyid_internal_::compareLessThan') or len(f.params) != 2:
                continue
            op = '==' if f.name == 'compareEqual' else '<'
            try:
                fm = F.formula(f, {f.params[0]['id']: 'a', f.params[1]['id']: 'b'}, inline=False)
                ok = fm[0] == 'const' or fm == ('atom', 'a %s b' % op)
                shown = F.show(fm)
            except F.Unsupported as e:
                ok, shown = False, 'not a plain comparison of the two values (%s)' % e
            ctx.ob('C18.L', f, '%s is the Storage\'s own %s on the two values, or a constant when the Storage has no such operator' % (f.name, op), ok,
                   detail='extracted: %s' % shown, key_detail='storage operator ' + f.name)
    # digests are compared as what the digester returned: a value-changing conversion on the way to the comparison (e.g. a helper taking
    # std::size_t when the digester returns double) makes operator< coarser than operator==, which still compares the real digests
    NUMERIC = ('IntegralCast', 'FloatingToIntegral', 'IntegralToFloating', 'FloatingCast', 'IntegralToBoolean', 'FloatingToBoolean')
    for tu in ctx.tus:
        for eqf, ltf, storage in anyid_pairs(tu):
            for g in (eqf, ltf):
                bad = []
                for n, o in g.nodes.items():
                    if o.get('ck') in NUMERIC:
                        inner = g.strip_all_casts(g.kids(n)[0]) if g.kids(n) else None
                        if inner and g.is_call(inner) and (g.callee(inner) or {}).get('name') == 'getDigest':
                            bad.append('%s (%s to %s)' % (g.nloc(n), o['ck'], tu.tstr(o.get('t'))))
                ctx.ob('C18.D', g, 'the digests are compared in the digester\'s own result type (no value-changing conversion first)', not bad,
                       detail='; '.join(bad[:3]), key_detail='digest converted')
    ctx.require_min('C18.D', 2)
    # every AnyId constructor - the default one included, in whatever form it is written - leaves the digest definite: the
    # default-constructed id is a key like any other (equal to itself, hashing like itself)
    from .c20 import check_init
    for tu in ctx.tus:
        check_init(ctx, tu, rule='C18.I', only=('AnyId::AnyId',))
    ctx.require_min('C18.I', 2)
    # the constructor digests the value and then stores it: the value stored is the one supplied only if nothing consumed it in
    # between (a forwarding constructor that forwards twice stores a moved-from value whenever the digester takes by value)
    from ..moves import MoveAnalysis
    for tu in ctx.tus:
        ma = MoveAnalysis(tu)
        for f in tu.fns:
            if f.cls == 'AnyId' and f.kind == 'ctor' and f.file.endswith('anyid.h') and f.params and not f.d.get('ctor') in ('copy', 'move'):
                vs, _ = ma.violations(f)
                ctx.ob('C18.V', f, 'the value is digested and stored without being moved from in between', not vs,
                       detail='\n'.join(v['msg'] for v in vs[:3]), key_detail='value consumed')
    ctx.require_min('C18.V', 1)
    ctx.require(len(seen) >= 2, 'C18.L: expected AnyId with both storage kinds (value-comparable and empty) in the witness units, found %d' % len(seen))
    ctx.require_min('C18.L', 3)
    witness.check_static_unit(ctx, 'C18.W', os.path.join(extract.VERIF, 'witness', 's_meta.cpp'), 'HasEqual / HasLess / digest type', tag='C18')
    witness.check_static_unit(ctx, 'C18.W', os.path.join(extract.VERIF, 'witness', 's_select.cpp'), 'AnyId is hashable and selects unordered_map', tag='C18')


def anyid_pairs(tu):
    def is_anyid_op(f, name):
        return f.skey == name and f.file.endswith('anyid.h') and f.params and 'AnyId' in tu.tstr(f.params[0]['t'])
    eqs = [f for f in tu.fns if is_anyid_op(f, 'operator==')]
    lts = [f for f in tu.fns if is_anyid_op(f, 'operator<')]
    for eqf in eqs:
        storage = tu.tstr(eqf.params[0]['t'])
        ltf = [g for g in lts if tu.tstr(g.params[0]['t']) == storage]
        if ltf:
            yield eqf, ltf[0], storage


def check_pair(ctx, tu, eqf, ltf, storage, rule='C18.L', only=None):
    try:
        feq = F.formula(eqf)
        flt = F.formula(ltf)
    except F.Unsupported as e:
        ctx.broken_later('C18.L: cannot extract AnyId comparison formulas: %s' % e)
        return
    kinds = sorted({atom_kind(a) or '?' for a in F.atoms(feq) + F.atoms(flt)})
    uses_value = 'V' in kinds
    extra = [k for k in kinds if k.startswith('X:')]
    ctx.sample({'rule': 'C18.L', 'storage': storage[:80], '==': F.show(feq), '<': F.show(flt)})
    D = weak_orderings(3)
    vk = (['V'] if uses_value else []) + extra
    # every relation other than the digest gets its own weak ordering of the three ids; all combinations are enumerated
    V = [dict(zip(vk, combo)) for combo in itertools.product(weak_orderings(3), repeat=len(vk))] if vk else [None]
    ncases = 0
    fails = {}

    def law(name, ok, d, v):
        if not ok and name not in fails:
            fails[name] = 'digest ranks %s, value ranks %s' % (d, v)
    try:
        for d in D:
            for v in V:
                ncases += 1
                eq = lambda x, y: eval_formula(feq, x, y, d, v)
                lt = lambda x, y: eval_formula(flt, x, y, d, v)
                for x in range(3):
                    law('== is reflexive', eq(x, x), d, v)
                    law('< is irreflexive', not lt(x, x), d, v)
                for x, y in itertools.permutations(range(3), 2):
                    law('== is symmetric', eq(x, y) == eq(y, x), d, v)
                    law('< is asymmetric', not (lt(x, y) and lt(y, x)), d, v)
                    inc = (not lt(x, y)) and (not lt(y, x))
                    law('incomparable under < exactly when ==', inc == eq(x, y), d, v)
                    law('equal ids have equal digests', (not eq(x, y)) or d[x] == d[y], d, v)
                    if uses_value:
                        vv = v['V']
                        law('equal digests with different values are distinct ids', not (d[x] == d[y] and vv[x] != vv[y]) or not eq(x, y), d, v)
                        law('equal digests and equal values are equal ids', not (d[x] == d[y] and vv[x] == vv[y]) or eq(x, y), d, v)
                    else:
                        law('without value storage ids are equal exactly when digests are', eq(x, y) == (d[x] == d[y]), d, v)
                for x, y, z in itertools.permutations(range(3), 3):
                    law('== is transitive', not (eq(x, y) and eq(y, z)) or eq(x, z), d, v)
                    law('< is transitive', not (lt(x, y) and lt(y, z)) or lt(x, z), d, v)
                    incxy = not lt(x, y) and not lt(y, x)
                    incyz = not lt(y, z) and not lt(z, y)
                    incxz = not lt(x, z) and not lt(z, x)
                    law('incomparability is transitive', not (incxy and incyz) or incxz, d, v)
    except F.Unsupported as e:
        ctx.broken_later('%s: %s (operator== / operator< of AnyId use a form the analysis does not model)' % (rule, e))
        return
    names = ['== is reflexive', '== is symmetric', '== is transitive', '< is irreflexive', '< is asymmetric', '< is transitive',
             'incomparability is transitive', 'incomparable under < exactly when ==', 'equal ids have equal digests']
    names += ['equal digests with different values are distinct ids', 'equal digests and equal values are equal ids'] if uses_value else \
        ['without value storage ids are equal exactly when digests are']
    for nm in names:
        if only is not None and nm not in only:
            continue
        ctx.ob(rule, eqf if '==' in nm and '<' not in nm else ltf, '%s (%s storage; %d orderings)' % (nm, 'comparable value' if uses_value else 'empty', ncases),
               nm not in fails,
               detail='== is %s ; < is %s ; fails for %s' % (F.show(feq), F.show(flt), fails.get(nm)),
               key_detail='%s [%s]' % (nm, 'value' if uses_value else 'empty'))
    ctx.extra['orderings_enumerated'] = ctx.extra.get('orderings_enumerated', 0) + ncases
    ctx.extra['exhaustive'] = True
