import sys
area = sys.argv[1]
wt = sys.argv[2]
round2 = len(sys.argv) > 3 and sys.argv[3] == 'round2'
round3 = len(sys.argv) > 3 and sys.argv[3] == 'round3'
AREAS = {
 'A1': 'include/eventpp/callbacklist.h',
 'A2': 'include/eventpp/eventdispatcher.h and include/eventpp/utilities/eventutil.h',
 'A3': 'include/eventpp/eventqueue.h (process, processOne, processIf, processUntil, wait, waitFor, DisableQueueNotify)',
 'A4': 'include/eventpp/eventqueue.h (enqueue, doEnqueue, peekEvent, takeEvent, clearEvents, constructors and assignment) and include/eventpp/internal/eventqueue_i.h',
 'A5': 'include/eventpp/hetercallbacklist.h and include/eventpp/hetereventdispatcher.h',
 'A6': 'include/eventpp/hetereventqueue.h',
 'A7': 'include/eventpp/utilities/scopedremover.h, counterremover.h and conditionalremover.h',
 'A8': 'include/eventpp/utilities/anydata.h and include/eventpp/utilities/anyid.h',
 'A9': 'include/eventpp/mixins/mixinfilter.h, mixinheterfilter.h, include/eventpp/utilities/orderedqueuelist.h, conditionalfunctor.h and argumentadapter.h',
 'A10': 'include/eventpp/eventpolicies.h, include/eventpp/internal/eventpolicies_i.h and include/eventpp/internal/typeutil_i.h',
}
extra = ''
if round2:
    extra = ('An earlier study already collected: guard clauses / inverted conditions, a local variable holding a test result, lambda -> named functor, '
             'range-for -> iterator loop, lock_guard -> unique_lock, one small private helper extracted, it++ inside a call, tag dispatch for an enable_if pair, '
             'renamed locals. Do NOT repeat those; look for OTHER behaviour-preserving rewrites, for example: splitting one function into two or three helpers that '
             'call each other, or inlining an existing private helper into its callers; passing state through a small struct or std::pair/std::tuple/std::tie; '
             'replacing an if/else chain by a conditional expression or a switch, or a loop by a standard algorithm (std::for_each, std::find_if, std::any_of) with a '
             'lambda, or the reverse; do-while or for(;;)-with-break instead of while; hoisting a common sub-expression, or duplicating it into both branches; using a '
             'reference or pointer alias to a member (auto & list = queueList;), or this-> qualification; replacing std::lock_guard scopes by one std::unique_lock with '
             'explicit unlock()/lock() at the same points; std::addressof / std::ref where equivalent; typedef / using aliases for member types; turning a member function '
             'into a static or free helper taking the object explicitly; adding const, noexcept(false), explicit template arguments, or redundant parentheses and casts '
             'that do not change the selected overload; de Morgan rewrites; swapping the operands of == and !=; replacing ! x.empty() by x.size() != 0 only where the '
             'container provides size() for every policy. ')

if round3:
    extra = ('Two earlier studies already collected the following kinds, do NOT repeat them: guard clauses / inverted conditions, a local holding a test result, '
             'lambda <-> named functor, range-for <-> iterator loop <-> std::for_each, lock_guard <-> unique_lock (also one unique_lock with explicit unlock/lock), '
             'a private helper extracted or inlined, a function split into steps, a body moved into a static helper taking the object, reference / pointer aliases to '
             'members, a small local struct for state, conditional expressions for if/else, de Morgan, merged loop conditions, member initialisers for body assignments, '
             'execute-around closures for the list operation, typedef/using aliases, this-> qualification, std::addressof. Look for rewrites of OTHER kinds, for example: '
             'single-exit style (one `result` variable assigned in the branches and returned at the end) or the reverse; nested ifs merged into one condition or one condition '
             'split into nested ifs; a loop rotated (do-while with a leading test, `while(true)` with the test in the middle, loop peeling of the first iteration only where '
             'provably equivalent); an index loop over an array instead of iterators or the reverse; a scope `{ lock_guard ...; ... }` turned into a call of a small generic '
             'helper that runs a closure under a lock (withLock(mutex, [&]{ ... })); two overloads merged into one with a defaulted parameter, or one split into two; '
             'a by-value parameter that is moved from turned into const-reference plus copy only where the observable copies/moves of user types stay the same; '
             'member function definitions moved out of the class body (out-of-line template member definitions below the class) or the reverse; an `enable_if` on the return type moved '
             'to a defaulted template parameter or to a tag-dispatched pair of helpers; a recursive metafunction rewritten with a helper alias or specialisation order changed '
             'without changing its value; a small nested class hoisted to namespace internal_ scope; a static member function turned into a free function in internal_; '
             'copy-and-swap written with an explicit temporary vs. by-value parameter only where overload resolution and noexcept stay the same; comparison chains reordered '
             'where evaluation order does not matter (pure comparisons of locals); `const` locals, `noexcept` where already implied is NOT allowed (changes the interface). '
             'Do NOT rename data members or public/protected functions, and do not change which mutex protects what. ')

round4 = len(sys.argv) > 3 and sys.argv[3] == 'round4'
if round4:
    extra = ('Three earlier studies already collected the following kinds, do NOT repeat them: guard clauses / inverted conditions, a local holding a test result, '
             'lambda <-> named functor, range-for <-> iterator loop <-> std::for_each, lock_guard <-> unique_lock, a private helper extracted or inlined, a function split '
             'into steps, a body moved into a static or free helper taking the object, reference / pointer aliases to members, a local struct for state, conditional '
             'expressions, de Morgan, merged or split conditions, member initialisers for body assignments, execute-around closures, withLock(mutex, closure) helpers, '
             'single-exit style, loop rotation / peeling, tag dispatch for enable_if pairs, out-of-line member definitions, defaulted-parameter enable_if, typedef/using aliases. '
             'Look for rewrites of OTHER kinds, for example: MOVING CODE AROUND without changing it - reordering member functions (including the two overloads of an '
             'enable_if pair) or nested classes inside a class body, moving a nested helper class or a metafunction to another internal header that is already included, '
             'reordering specialisations that do not overlap; a group of private helper functions moved into a private base class or a nested `struct Impl` with static members '
             'taking the object; a small RAII class of the library replaced by an equivalent local RAII struct (or a generic ScopeExit-style guard running a closure in its '
             'destructor) with the same construction and destruction points; a pair of hand-written statements replaced by an equivalent private helper used at all the sibling '
             'sites (e.g. "link at tail", "notify if allowed", "mark removed"); recursion over a parameter pack replaced by pack expansion into an initializer list '
             '(int dummy[] = { (f(args), 0)... }) or the reverse, only where evaluation order is the same; std::get<I> / std::tuple_element spelled through a helper alias; '
             'a boolean member function re-expressed through its sibling (e.g. `operator bool` via `!empty()`); comparisons through std::less / std::equal_to or a small '
             'constexpr helper where the types are built-in; `x = x + 1` / `x += 1` / `++x` for plain integers (not for atomics, whose operations differ); an iterator '
             'advanced with std::next / std::advance instead of ++; `auto` vs the spelled-out type, `decltype(member)` vs the alias; a template template parameter or a '
             'long dependent type hoisted into a class-level `using`; C-style / functional casts turned into static_cast; a `for` loop with the increment moved into the body '
             'end where no `continue` exists; macros introduced for a repeated snippet; wrapping a block in an immediately invoked lambda `[&]{ ... }()` with the same returns; '
             '`if(p)` vs `if(p != nullptr)` vs `if(static_cast<bool>(p))`; `return f(), void()` style avoided - keep it readable. '
             'Do NOT rename data members or public/protected functions, do not change which mutex protects what, and do not change data member declaration order. ')

print(f'''You are given a scratch git worktree of the header-only C++11 library wqking/eventpp at {wt} (work ONLY inside that directory; never touch /repo or /verif, never read /verif). The library headers are in {wt}/include/eventpp, its unit tests (Catch) in {wt}/tests/unittest, its documentation in {wt}/doc.

Your task: produce FOUR different BEHAVIOUR-PRESERVING refactorings of the library code in {AREAS[area]} - the kind of edit a careful maintainer makes while tidying up: restructuring control flow (early returns, inverted conditions, merged or split conditionals), introducing or inlining a local variable or a small private helper function, replacing a range-for by an iterator loop or the other way round, using an equivalent standard-library call (emplace_back for push_back, std::unique_lock for std::lock_guard, a while loop around a plain condition-variable wait instead of the predicate overload, std::swap vs member swap ...), renaming locals, reordering independent statements, replacing a lambda by a named functor, writing a comparison the other way round, etc. Each refactoring must leave the observable behaviour of the library EXACTLY as it is for every input, every interleaving of threads and every exception path (same locks held over the same operations, same order of side effects on shared state, same exception safety, same results) - we use these to check that an analysis tool does not raise false alarms, so a refactoring that subtly changes behaviour is worse than useless. {extra}Prefer edits that change the *shape* of the code substantially (not just whitespace or comments) while being provably equivalent; make the four of different kinds and in different functions. Touch only library headers; keep it C++11.

For each refactoring i in (1,2,3,4):
 1. Start from a clean tree (git -C {wt} checkout -- . ).
 2. Make the edit. Save the diff as {wt}/_eq/e{{i}}/patch.diff (git -C {wt} diff > ...; applicable with `git apply`).
 3. Confirm the existing tests still build and pass:
      cmake -G Ninja -S {wt}/tests -B {wt}/_b -DCMAKE_BUILD_TYPE=RelWithDebInfo >/dev/null && cmake --build {wt}/_b --target unittest && {wt}/_b/unittest/unittest
    (first build takes a few minutes; expected output ends with "All tests passed").
 4. Write {wt}/_eq/e{{i}}/README.txt: what was changed and a short argument why behaviour is identical (cover locking, ordering of writes to shared state, exception paths, and template / overload resolution if relevant).
Leave the worktree clean (git checkout -- .) at the end; keep the _eq directory (untracked). Report back a one-line summary per refactoring.''')
