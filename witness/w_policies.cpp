// Witness: further policy products (user map, user condition variable, spin lock on the heterogeneous classes,
// combined policies) so that the rules are evaluated on more of the configuration space.
#include "common.h"
#include <condition_variable>

namespace wit {

template <typename K, typename T> struct UserHashMap : std::unordered_map<K, T> {};
struct PoliciesUserMap { template <typename K, typename T> using Map = UserHashMap<K, T>; };

struct UserCV {
	std::condition_variable_any cv;
	void notify_one() noexcept { cv.notify_one(); }
	void notify_all() noexcept { cv.notify_all(); }
	template <typename Lock, typename Pred> void wait(Lock & lock, Pred pred) { cv.wait(lock, pred); }
	// the full condition-variable interface (the library may spell its waits as re-check loops around the plain forms)
	template <typename Lock> void wait(Lock & lock) { cv.wait(lock); }
	template <typename Lock, typename Rep, typename Period>
	std::cv_status wait_for(Lock & lock, const std::chrono::duration<Rep, Period> & d) { return cv.wait_for(lock, d); }
	template <typename Lock, typename Rep, typename Period, typename Pred>
	bool wait_for(Lock & lock, const std::chrono::duration<Rep, Period> & d, Pred pred) { return cv.wait_for(lock, d, pred); }
};
struct PoliciesUserThreading { using Threading = eventpp::GeneralThreading<std::mutex, std::atomic, UserCV>; };

struct PoliciesCombined {
	using Threading = eventpp::GeneralThreading<eventpp::SpinLock>;
	using ArgumentPassingMode = eventpp::ArgumentPassingIncludeEvent;
	using Mixins = eventpp::MixinList<eventpp::MixinFilter>;
	template <typename K, typename T> using Map = std::map<K, T>;
	template <typename Item> using QueueList = eventpp::OrderedQueueList<Item>;
	static bool canContinueInvoking(const std::string &, int) { return true; }
};

void usePolicies()
{
	{
		using D = eventpp::EventDispatcher<int, void (int), PoliciesUserMap>;
		D d; auto h = d.appendListener(1, [](int) {}); d.prependListener(1, [](int) {}); d.insertListener(1, [](int) {}, h);
		(void)d.removeListener(1, h); (void)d.hasAnyListener(1); (void)d.ownsHandle(1, h); d.dispatch(1); d.dispatch(1, 2);
		D c(d); D m(std::move(c)); c = d; m = std::move(c); d.swap(m);
	}
	{
		using Q = eventpp::EventQueue<int, void (int), PoliciesUserThreading>;
		Q q; q.appendListener(1, [](int) {}); q.enqueue(1); q.enqueue(1, 2);
		(void)q.process(); (void)q.processOne(); (void)q.processIf([](int) { return true; }); (void)q.processUntil([](int) { return false; });
		q.wait(); (void)q.waitFor(std::chrono::milliseconds(1)); (void)q.emptyQueue(); q.clearEvents();
		Q::DisableQueueNotify guard(&q); Q::QueuedEvent e; (void)q.peekEvent(&e); (void)q.takeEvent(&e); q.dispatch(e);
		Q c(q); Q m(std::move(c)); c = q; m = std::move(c);
	}
	{
		using Q = eventpp::EventQueue<std::string, void (const std::string &, int), PoliciesCombined>;
		Q q; auto h = q.appendListener("k", [](const std::string &, int) {}); (void)q.removeListener("k", h);
		auto fh = q.appendFilter([](const std::string &, int &) { return true; }); (void)q.removeFilter(fh);
		q.enqueue(std::string("k"), 1); q.dispatch(std::string("k"), 2);
		(void)q.process(); (void)q.processOne(); (void)q.processIf([](const std::string &, int) { return true; });
		(void)q.processUntil([](const std::string &, int) { return false; }); q.clearEvents(); (void)q.emptyQueue();
		Q::QueuedEvent e; (void)q.peekEvent(&e); (void)q.takeEvent(&e); Q::DisableQueueNotify guard(&q);
		Q c(q); Q m(std::move(c)); c = q; m = std::move(c);
	}
	{
		using PLX = eventpp::HeterTuple<void (), void (int, const std::string &), void (Payload)>;
		using Q = eventpp::HeterEventQueue<int, PLX, PoliciesSpin>;
		Q q; q.appendListener(1, []() {}); q.prependListener(1, [](Payload) {});
		q.enqueue(1); q.enqueue(1, 2, std::string("x")); q.enqueue(1, Payload());
		(void)q.process(); (void)q.processOne(); (void)q.processIf([](const Payload &) { return true; }); q.clearEvents(); (void)q.emptyQueue();
		q.dispatch(1, Payload());
		Q c(q); Q m(std::move(c)); c = q; m = std::move(c);
		using D = eventpp::HeterEventDispatcher<std::string, PLX, PoliciesUserMap>;
		D d; d.appendListener("k", [](int, const std::string &) {}); d.dispatch("k", 1, std::string("x")); d.dispatch(std::string("k"));
	}
	{
		// the whole SingleThreading::Atomic interface (the library itself never calls store())
		eventpp::SingleThreading::Atomic<int> a(1); a.store(2); (void)a.load(); (void)a.exchange(3); (void)++a; (void)--a;
		eventpp::SingleThreading::Atomic<unsigned long long> b; b.store(2); (void)b.load(); (void)b.exchange(3); (void)++b; (void)--b;
	}
	{
		// callbacks with a return value and reference arguments
		using CL = eventpp::CallbackList<int (std::string &, const Payload &), PoliciesSpin>;
		CL l; auto h = l.append([](std::string &, const Payload &) { return 1; }); l.insert([](std::string &, const Payload &) { return 2; }, h);
		std::string s; l(s, Payload()); (void)l.remove(h); (void)l.ownsHandle(h);
		l.forEach([](CL::Callback &) {}); (void)l.forEachIf([](const CL::Handle &, CL::Callback &) { return true; });
		CL c(l); CL m(std::move(c)); c = l; m = std::move(c); l.swap(m);
	}
}

} // namespace wit
