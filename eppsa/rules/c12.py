"""C12 — Filters and canContinueInvoking gate every dispatch, synchronous or queued.

  F1 gate dominance: in directDispatch (both dispatchers) and the heterogeneous doDispatch the listener list is invoked only on
     the true edge of the mixin chain result, which is evaluated before the list lookup; ForEachMixins::forEach is the
     conjunction of the mixins in list order (stops at the first false); DoMixinBeforeDispatch returns the mixin's own result
  F2 same objects: the mixins receive lvalue references to the very parameters that are afterwards passed to the listeners
  F3 mixinBeforeDispatch runs the filter list through forEachIf, returns each filter's own result, passes lvalues, and is false
     exactly when forEachIf was
  F4 both operator() variants call the callback once, then canContinueInvoking with the same parameters; a false result stops
     the traversal
  F5 ConditionalFunctor: the function runs exactly when the single condition call (lvalue arguments) returned true;
     ArgumentAdapter: exactly one call of the wrapped function with one cast of each incoming argument, in order
"""
from ..facts import AnalysisBroken, short
from ..paths import path, pstr, last_field, root_var_id, fields_in
from ..moves import MoveAnalysis
from .. import formula as F
from .listrules import edge_dominates
from .c04 import arg_var

EXPLANATION = ('C12: dominance of the mixin gate over lookup and invocation, conjunction-in-order shape of the mixin chain, identity of the objects '
               'passed to filters and listeners, filter-list result propagation, canContinueInvoking after each callback, conditional functor and adapter shapes.')
ASSUMPTIONS = ['what filters do to values and the conversion semantics of user types are not decided; "removed filters never run again" is C01/C02 on the filter CallbackList']
UNITS = ['w_dispatcher.cpp', 'w_queue.cpp', 'w_heter.cpp', 'w_utils.cpp', 'w_callbacklist.cpp']

GATED = ('EventDispatcherBase::directDispatch', 'HeterEventDispatcherBase::directDispatch', 'HeterEventDispatcherBase::doDispatch')


def check(ctx):
    ctx.rule('C12.F1', 'listener invocation is dominated by the mixin gate; mixin chain is a conjunction in list order')
    ctx.rule('C12.F2', 'filters and listeners see the same argument objects')
    ctx.rule('C12.F3', 'mixinBeforeDispatch propagates the filter list result, lvalue arguments')
    ctx.rule('C12.F4', 'canContinueInvoking is consulted after every callback with the same arguments and stops the traversal')
    ctx.rule('C12.F5', 'ConditionalFunctor / ArgumentAdapter shapes')
    for tu in ctx.tus:
        ma = MoveAnalysis(tu)
        for f in tu.fns:
            k = f.skey
            if k in GATED:
                check_gate(ctx, tu, f)
            elif k == 'ForEachMixins::forEach':
                check_chain(ctx, tu, f)
            elif k == 'EventDispatcherBase::DoMixinBeforeDispatch::forEach' or k == 'HeterEventDispatcherBase::DoMixinBeforeDispatch::forEach':
                check_domixin(ctx, tu, f)
            elif k in ('MixinFilter::mixinBeforeDispatch', 'MixinHeterFilter::mixinBeforeDispatch'):
                check_filter(ctx, tu, f, ma)
            elif k == 'CallbackListBase::operator()':
                check_cancontinue(ctx, tu, f)
            elif k in ('MixinFilter::appendFilter', 'MixinHeterFilter::appendFilter', 'MixinFilter::removeFilter', 'MixinHeterFilter::removeFilter'):
                want = 'append' if f.name == 'appendFilter' else 'remove'
                calls = [n for n in f.calls() if (f.callee(n) or {}).get('name') == want and f.call_obj(n) and path(f, f.call_obj(n)) == ('this', '.filterList')]
                ok = len(calls) == 1
                if ok:
                    a = f.call_args(calls[0])
                    ok = len(a) == 1 and arg_var(f, a[0], allow_conv=True) == f.params[0]['id']
                    r = f.return_nodes()
                    ok = ok and len(r) == 1 and calls[0] in ([f.value_source(f.kids(r[0])[0])] + f.descendants(f.kids(r[0])[0]))
                ctx.ob('C12.F3', f, '%s is exactly %s on the filter list (filters are ordinary callback-list members: order, removal)' % (f.name, want), ok)
            elif k == 'ConditionalFunctor::operator()':
                check_condfunctor(ctx, tu, f, ma)
            elif k == 'ArgumentAdapter::operator()':
                check_adapter(ctx, tu, f)
    # the wrappers own what they wrap: the listener / condition handed to conditionalFunctor or argumentAdapter is stored by value, in
    # every instantiation (also when the caller passed lvalues) - a wrapper holding a reference follows whatever the caller's variable
    # holds at dispatch time, or dangles once it is gone
    for tu in ctx.tus:
        check_adapter_casts(ctx, tu)
        from .listrules import check_invoked_in_place
        check_invoked_in_place(ctx, tu, 'C12.F3', lambda o: o.cls in ('MixinFilter', 'MixinHeterFilter', 'ConditionalFunctor', 'ArgumentAdapter'))
        for key in ('ConditionalFunctor', 'ArgumentAdapter'):
            for c in tu.classes_by_key.get(key, []):
                bad = []
                for fl in c['fields']:
                    t = tu.type(fl['t'])
                    if t and (t['ref'] or t.get('ptr') is not None and 'std::function' not in t['s'] and not t['s'].rstrip().endswith(')')):
                        bad.append('%s : %s' % (fl['name'], t['s'][:80]))
                if c['fields']:
                    ctx.ob('C12.F5', key, '%s stores the wrapped callables by value' % key, not bad, tu=tu,
                           detail='reference/pointer members in %s: %s' % (c['q'][:120], '; '.join(bad)), key_detail='stores by value')
    ctx.require_min('C12.F1', 5)
    ctx.require_min('C12.F2', 3)
    ctx.require_min('C12.F3', 2)
    ctx.require_min('C12.F4', 1)
    ctx.require(ctx.extra.get('operator_variants', {}).get('loop', 0) > 0 and ctx.extra.get('operator_variants', {}).get('lambda', 0) > 0,
                'C12.F4: both CallbackListBase::operator() variants (lambda form and GCC-4 loop form) must be analysed: %s' % ctx.extra.get('operator_variants'))
    ctx.require_min('C12.F5', 2)
    import os
    from .. import witness, extract
    witness.check_static_unit(ctx, 'C12.F4', os.path.join(extract.VERIF, 'witness', 's_meta.cpp'), 'canContinueInvoking detection, mixin selection and nesting', tag='C12')
    witness.check_static_unit(ctx, 'C12.F4', os.path.join(extract.VERIF, 'witness', 's_select.cpp'), 'canContinueInvoking / mixin policy selection', tag='C12')


def check_gate(ctx, tu, f):
    gates = [n for n in f.calls() if (f.callee_key(n) or '') == 'ForEachMixins::forEach']
    LISTCALL = ('CallbackListBase::operator()', 'HeterCallbackListBase::operator()')
    invs = [n for n in f.calls() if (f.callee_key(n) or '') in LISTCALL]
    finds = [n for n in f.calls() if (f.callee_key(n) or '').endswith('::doFindCallableList')]
    if not invs:
        # lookup + invocation may sit in a private helper ("find the list of e and invoke it with the arguments"): the call of that
        # helper is the invocation site
        deep = f.deep_calls(lambda h, m: (h.callee_key(m) or '') in LISTCALL, depth=1)
        tops = sorted({t for (t, h, m) in deep if h.id != f.id})
        invs = tops
    ok = len(gates) == 1 and len(invs) == 1
    ctx.ob('C12.F1', f, 'one mixin gate and one listener invocation', ok, detail='gates %d, invocations %d' % (len(gates), len(invs)))
    if not ok:
        return
    g, inv = gates[0], invs[0]
    dom = False
    for bid, blk in f.blocks.items():
        c = blk.get('cond')
        if not c or len(blk['succ']) != 2:
            continue
        cn = f.strip_all_casts(c)
        neg = False
        while f.nodes[cn]['cls'] == 'UnaryOperator' and f.nodes[cn].get('op') == '!':
            neg = not neg
            cn = f.strip_all_casts(f.kids(cn)[0])
        if cn == g and edge_dominates(f, bid, 'false' if neg else 'true', f.pos(inv)):
            dom = True
    ctx.ob('C12.F1', f, 'the listeners are invoked only when the mixin chain returned true', dom,
           detail='the invocation at %s is not dominated by the true result of the filter chain at %s: a dispatch rejected by a filter still reaches listeners'
                  % (f.nloc(inv), f.nloc(g)), where=f.nloc(inv))
    before = all(f.pos_dominates(f.pos(g), f.pos(x)) and f.pos(g) != f.pos(x) for x in finds + [inv])
    ctx.ob('C12.F1', f, 'the filters run before the listener list is looked up and invoked', before, where=f.nloc(g))
    # every mixin of the policy's MixinList takes part in the chain
    def split_targs(t):
        out, depth, cur = [], 0, ''
        for ch in t:
            if ch == '<':
                depth += 1
            elif ch == '>':
                depth -= 1
            if ch == ',' and depth == 0:
                out.append(cur.strip())
                cur = ''
            else:
                cur += ch
        if cur.strip():
            out.append(cur.strip())
        return out
    gq = (f.callee(g) or {}).get('clsq', '')
    i0 = gq.find('MixinList<')
    nmix = None
    if i0 >= 0:
        depth, j = 0, i0 + len('MixinList')
        for j2 in range(j, len(gq)):
            if gq[j2] == '<':
                depth += 1
            elif gq[j2] == '>':
                depth -= 1
                if depth == 0:
                    nmix = len(split_targs(gq[j + 1:j2]))
                    break
    if nmix is not None:
        levels = 0
        cur = f.callee_fns(g)
        seen = set()
        while cur and cur[0].id not in seen:
            h = cur[0]
            seen.add(h.id)
            own = [n for n in h.calls() if 'DoMixinBeforeDispatch' in (h.callee_key(n) or '')]
            rec = [n for n in h.calls() if (h.callee_key(n) or '') == 'ForEachMixins::forEach']
            if own:
                levels += 1
            cur = h.callee_fns(rec[0]) if rec else []
        ctx.ob('C12.F1', f, 'every mixin of the MixinList is consulted (chain length = number of mixins)', levels == nmix,
               detail='%d mixins declared, %d consulted by the chain' % (nmix, levels), key_detail='chain length')
    # F2: same objects
    gargs = f.call_args(g)[1:]    # first argument is `this`
    iargs = f.call_args(inv)
    gv = []
    for a in gargs:
        x = f.strip(a)
        ok_l = f.nodes[x].get('vk') == 'l' and not f.is_construct(f.strip_all_casts(a))
        p = path(f, a, resolve_refs=False)
        gv.append(root_var_id(p) if ok_l and len(p) == 1 else None)
    iv = [arg_var(f, a, allow_conv=True) for a in iargs]
    if (f.callee_key(inv) or '') not in LISTCALL:
        # the invocation site is a helper call: which of its arguments reach the listeners, and in which order?
        for h in f.callee_fns(inv):
            inner = [m for m in h.calls() if (h.callee_key(m) or '') in LISTCALL]
            if len(inner) == 1:
                hv = [arg_var(h, a, allow_conv=True) for a in h.call_args(inner[0])]
                hp = [p_['id'] for p_ in h.params]
                k = len(hp) - len(hv)
                if k >= 0 and hv == hp[k:] and len(iv) == len(hp):
                    iv = iv[k:]
    ctx.ob('C12.F2', f, 'the mixins receive lvalue references to exactly the parameters later passed to the listeners, in order',
           gv == iv and None not in gv,
           detail='filters get %s ; listeners get %s (a copy handed to the filters hides their modifications from the listeners)'
                  % ([pstr(path(f, a)) for a in gargs], [pstr(path(f, a)) for a in iargs]), where=f.nloc(g))


def check_chain(ctx, tu, f):
    try:
        fm = F.formula(f, inline=False)
    except F.Unsupported as e:
        raise AnalysisBroken('C12.F1: cannot extract ForEachMixins::forEach: %s' % e)
    ats = F.atoms(fm)
    if not ats:
        ok, _ = F.equivalent(fm, ('const', True))
        ctx.ob('C12.F1', f, 'the empty mixin chain accepts every dispatch', ok, detail=F.show(fm), key_detail='chain base')
        return
    calls = [n for n in f.calls() if (f.callee(n) or {}).get('name') == 'forEach']
    own = [n for n in calls if 'DoMixinBeforeDispatch' in (f.callee_key(n) or '')]
    rec = [n for n in calls if (f.callee_key(n) or '') == 'ForEachMixins::forEach']
    ok = len(own) == 1 and len(rec) == 1 and len(ats) == 2
    if ok:
        conj = ('and', ('atom', ats[0]), ('atom', ats[1]))
        eq, cex = F.equivalent(fm, conj)
        order = f.pos_dominates(f.pos(own[0]), f.pos(rec[0])) and f.pos(own[0]) != f.pos(rec[0])
        # the remaining mixins are consulted only if this one accepted
        gated = False
        for bid, blk in f.blocks.items():
            c = blk.get('cond')
            if c and f.cond_core(c)[0] == own[0] and edge_dominates(f, bid, 'false' if f.cond_core(c)[1] else 'true', f.pos(rec[0])):
                gated = True
        ok = eq and order and gated
    ctx.ob('C12.F1', f, 'the mixin chain is: this mixin, and only if it accepts, the rest (conjunction in list order)', ok,
           detail='extracted %s' % F.show(fm), key_detail='chain step')


def check_domixin(ctx, tu, f):
    calls = [n for n in f.calls() if (f.callee(n) or {}).get('name') == 'mixinBeforeDispatch']
    rets = f.return_nodes()
    if calls:
        ok = len(calls) == 1 and len(rets) == 1 and f.strip_all_casts(f.kids(rets[0])[0]) == calls[0]
        if ok:
            want = [p['id'] for p in f.params[1:]]
            got = [root_var_id(path(f, a, resolve_refs=False)) for a in f.call_args(calls[0])]
            ok = got == want
        ctx.ob('C12.F1', f, 'the gate returns the mixin\'s own verdict for the same arguments', ok, key_detail='domixin call')
        # every mixin of the chain gets its own turn: the hook called at the level of chain type T has to be T's own. A hook that T only
        # inherits from a mixin further down the chain is called again at that mixin's level - its filters run twice per dispatch
        # (and see their own modifications of the arguments)
        ta = f.d.get('targs') or []
        if len(calls) == 1 and ta and isinstance(ta[0], int):
            level = tu.tstr(ta[0]).strip()
            owner = ((f.callee(calls[0]) or {}).get('clsq') or '').strip()
            ctx.ob('C12.F1', f, 'the hook invoked at a chain level is declared by that level\'s mixin itself (each hook runs once per dispatch)',
                   bool(owner) and owner == level,
                   detail='at the level of %s the call resolves to the hook of %s, which is invoked again at its own level' % (level[:110], owner[:110]),
                   key_detail='inherited hook')
    else:
        try:
            ok, _ = F.equivalent(F.formula(f, inline=False), ('const', True))
        except F.Unsupported:
            ok = False
        ctx.ob('C12.F1', f, 'a mixin without mixinBeforeDispatch accepts every dispatch', ok, key_detail='domixin default')
        # ... but the filter mixins do have the hook, for whatever arguments a dispatch of this dispatcher can carry: if the "no hook"
        # overload was the one selected at a filter mixin's level, its hook dropped out of overload resolution for these argument
        # types (an over-tight constraint) and every filter is silently skipped
        ta = f.d.get('targs') or []
        level = tu.tstr(ta[0]).strip() if ta and isinstance(ta[0], int) else ''
        if level.startswith(('eventpp::MixinFilter<', 'eventpp::MixinHeterFilter<')):
            ctx.ob('C12.F1', f, 'at the level of a filter mixin the hook is the overload selected', False,
                   detail='for %s the dispatcher took the "mixin has no hook" path: the filters do not run for these argument types' % f.q[-160:],
                   key_detail='filter hook not selected')


def check_filter(ctx, tu, f, ma):
    fe = [n for n in f.calls() if (f.callee(n) or {}).get('name') == 'forEachIf' and f.call_obj(n) and last_field(path(f, f.call_obj(n))) == 'filterList']
    ctx.ob('C12.F3', f, 'the filters are run through forEachIf on the filter list (stops at the first false)', len(fe) == 1)
    if len(fe) != 1:
        return
    try:
        fm = F.formula(f, inline=False)
    except F.Unsupported as e:
        raise AnalysisBroken('C12.F3: cannot extract mixinBeforeDispatch: %s' % e)
    ats = F.atoms(fm)
    fe_atoms = [a for a in ats if 'forEachIf' in a]
    em_atoms = [a for a in ats if a.endswith('filterList.empty()')]
    ok = len(fe_atoms) == 1 and len(ats) == len(fe_atoms) + len(em_atoms)
    if ok:
        FE = ('atom', fe_atoms[0])
        alts = [FE]
        if em_atoms:
            alts.append(('or', ('atom', em_atoms[0]), FE))
        ok = any(F.equivalent(fm, a)[0] for a in alts)
    ctx.ob('C12.F3', f, 'mixinBeforeDispatch is false exactly when a filter returned false', ok, detail='extracted %s' % F.show(fm))
    lams = tu.lambdas_of.get(f.id, [])
    ctx.ob('C12.F3', f, 'one per-filter lambda', len(lams) == 1)
    for lam in lams:
        calls = [n for n in lam.calls() if lam.nodes[n].get('op') == '()' and lam.call_obj(n) and root_var_id(path(lam, lam.call_obj(n))) in lam.param_ids()]
        rets = lam.return_nodes()
        ok = len(calls) == 1 and len(rets) == 1 and lam.strip_all_casts(lam.kids(rets[0])[0]) == calls[0]
        if ok:
            want = [p['id'] for p in f.params]
            args = lam.call_args(calls[0])
            got = [root_var_id(path(lam, a, resolve_refs=False)) for a in args]
            lv = all(lam.nodes[lam.strip(a)].get('vk') == 'l' for a in args)
            ok = got == want and lv
        ctx.ob('C12.F3', lam, 'each filter is called once with the dispatch arguments as lvalues, and its own result is returned', ok)
        # the filter that runs is the stored one: the visitor receives it by reference. Received by value, every dispatch would run a fresh
        # copy of the filter as it was when it was added - a filter that keeps state in itself (a budget, "only once") never reaches the
        # point where it returns false
        if lam.params:
            pk = lam.params[0].get('pass')
            ctx.ob('C12.F3', lam, 'the visitor receives the stored filter by reference (the stored filter itself is run, not a copy)',
                   pk in ('lref', 'clref', 'rref'), detail='parameter passing: %s' % pk, key_detail='filter by reference')
        vs, _ = ma.violations(lam)
        ctx.ob('C12.F3', lam, 'no filter receives a moved-from argument', not vs, detail='\n'.join(v['msg'] for v in vs[:2]))


def check_cancontinue(ctx, tu, f):
    loops = [b for b in f.blocks if f.block_reaches(b, b)]
    ov = ctx.extra.setdefault('operator_variants', {'loop': 0, 'lambda': 0})
    ov['loop' if loops else 'lambda'] += 1
    if loops:
        host = f           # GCC-4 variant: inline loop
        pvars = [p['id'] for p in f.params]
    else:
        lams = tu.lambdas_of.get(f.id, [])
        if len(lams) != 1:
            ctx.ob('C12.F4', f, 'operator() delegates to forEachIf with one per-callback lambda', False, detail='%d lambdas' % len(lams))
            return
        host = lams[0]
        pvars = [p['id'] for p in f.params]
    cb = [n for n in host.calls() if host.nodes[n].get('op') == '()' and host.call_obj(n) and 'callback' in pstr(path(host, host.call_obj(n)))]
    cb += [n for n in host.calls() if host.nodes[n].get('c', 0) == -1 and host.nodes[n].get('calleeExpr')
           and 'callback' in pstr(path(host, host.strip_all_casts(host.nodes[n]['calleeExpr'])))]
    cc = [n for n in host.calls() if (host.callee(n) or {}).get('name') == 'canContinueInvoking']
    ok = len(cb) == 1 and len(cc) == 1
    ctx.ob('C12.F4', f, 'one callback call and one canContinueInvoking call per visited callback', ok, detail='callback calls %d, policy calls %d' % (len(cb), len(cc)))
    if not ok:
        return
    order = host.pos_dominates(host.pos(cb[0]), host.pos(cc[0])) and host.pos(cb[0]) != host.pos(cc[0]) and host.pos_postdominates(host.pos(cc[0]), host.pos(cb[0]))
    ctx.ob('C12.F4', f, 'canContinueInvoking is evaluated after every callback call', order)
    a1 = [arg_source(host, a) for a in host.call_args(cb[0])]
    a2 = [arg_source(host, a) for a in host.call_args(cc[0])]

    lv = all(is_lvalue_arg(host, a) for a in host.call_args(cb[0]) + host.call_args(cc[0]))
    ctx.ob('C12.F4', f, 'callback and policy both receive the invocation\'s parameters, in order, as lvalues', a1 == pvars and a2 == pvars and lv,
           detail='callback args %s, policy args %s' % (a1, a2))
    if host is f:
        # false result leaves the loop
        stop = False
        for bid, blk in f.blocks.items():
            c = blk.get('cond')
            if not c or len(blk['succ']) != 2:
                continue
            cn = f.strip_all_casts(c)
            neg = False
            while f.nodes[cn]['cls'] == 'UnaryOperator' and f.nodes[cn].get('op') == '!':
                neg = not neg
                cn = f.strip_all_casts(f.kids(cn)[0])
            if cn == cc[0]:
                fs = blk['succ'][0] if neg else blk['succ'][1]     # successor when the policy returned false
                ts = blk['succ'][1] if neg else blk['succ'][0]
                stop = fs is not None and not f.block_reaches(fs, bid) and fs != bid and (ts is not None and (f.block_reaches(ts, bid)))
        ctx.ob('C12.F4', f, 'a false policy result ends the traversal, a true one continues it', stop)
    else:
        rets = host.return_nodes()
        ok = len(rets) == 1 and host.strip_all_casts(host.kids(rets[0])[0]) == cc[0]
        ctx.ob('C12.F4', f, 'the lambda returns the policy result to the traversal (false stops it)', ok)


def arg_source(fn, a):
    """The single variable an argument expression is computed from (looking through parameter-initialising copies,
    conversions and conversion operators); None when it mentions no or several variables."""
    v = arg_var(fn, a, allow_conv=True)
    if v is not None:
        return v
    ids = set()
    for d in [a] + fn.descendants(a):
        if fn.nodes[d]['cls'] == 'DeclRefExpr' and fn.decl(d)['kind'] in ('parm', 'var'):
            ids.add(fn.decl(d)['id'])
    return list(ids)[0] if len(ids) == 1 else None


def is_lvalue_arg(fn, a):
    """The argument uses its source variable as an lvalue: no std::move / std::forward<T&&> / rvalue cast on the way
    (copies, conversions and conversion operators applied to the lvalue are fine)."""
    from ..facts import MOVE_LIKE
    for d in [a] + fn.descendants(a):
        o = fn.nodes[d]
        if o['cls'] == 'CallExpr' and short((fn.callee(d) or {}).get('key', '')) in MOVE_LIKE and o.get('vk') == 'x':
            return False
        if o['cls'] in ('CXXStaticCastExpr', 'CStyleCastExpr') and o.get('vk') == 'x':
            return False
    return True


def member_calls(f, field):
    """Calls of the callable stored in this.<field>: operator() of a class-type member or a call through a function pointer."""
    out = []
    for n in f.calls():
        if f.call_obj(n) and path(f, f.call_obj(n)) == ('this', '.' + field):
            out.append(n)
        elif f.nodes[n].get('c', 0) == -1 and f.nodes[n].get('calleeExpr') and path(f, f.strip_all_casts(f.nodes[n]['calleeExpr'])) == ('this', '.' + field):
            out.append(n)
    return out


def helper_member_call(f, field, lvalues=True, returns=True):
    """Calls in f to a private helper of the same class that does nothing but call this.<field> with its own parameters (as lvalues, in
    order) and return the result: [(call node in f)]. The helper stands for the member call at that site."""
    out = []
    for n in f.calls():
        for g in f.callee_fns(n):
            if g.clsq != f.clsq or g.id == f.id or g.kind == 'lambda':
                continue
            inner = member_calls(g, field)
            rets = g.return_nodes()
            if len(inner) != 1:
                continue
            if returns:
                if len(rets) != 1:
                    continue
                rv = g.value_source(g.kids(rets[0])[0]) if g.kids(rets[0]) else None
                if rv != inner[0] and inner[0] not in ([rv] + g.descendants(rv) if rv else []):
                    continue
            elif not g.pos_postdominates(g.pos(inner[0]), (g.entry, 0)) or len([x for x in g.calls() if not g.nodes[x].get('c') is None and short((g.callee(x) or {}).get('key', '')) not in ('std::move', 'std::forward')]) != 1:
                continue      # the helper does something besides the one member call
            if [arg_source(g, a) for a in g.call_args(inner[0])] == [p['id'] for p in g.params] and (not lvalues or all(is_lvalue_arg(g, a) for a in g.call_args(inner[0]))):
                out.append(n)
    return out


def check_condfunctor(ctx, tu, f, ma):
    conds = member_calls(f, 'condition') or helper_member_call(f, 'condition')
    funcs = member_calls(f, 'func') or helper_member_call(f, 'func', lvalues=False, returns=False)
    ok = len(conds) == 1 and len(funcs) == 1
    ctx.ob('C12.F5', f, 'one condition call and one function call', ok, detail='condition calls %d, function calls %d' % (len(conds), len(funcs)))
    if not ok:
        return
    c, fn = conds[0], funcs[0]
    dom = False
    others = 0
    for bid, blk in f.blocks.items():
        cd = blk.get('cond')
        if not cd or len(blk['succ']) != 2:
            continue
        core, neg = f.cond_core(cd)
        on_true = edge_dominates(f, bid, 'true', f.pos(fn))
        on_false = edge_dominates(f, bid, 'false', f.pos(fn))
        if core == c:
            if (on_false if neg else on_true):
                dom = True
        elif on_true or on_false:
            others += 1
    ctx.ob('C12.F5', f, 'the wrapped function runs exactly when the condition returned true', dom and others == 0 and f.pos_postdominates(f.pos(c), (f.entry, 0)))
    want = [p['id'] for p in f.params]
    ca = [arg_source(f, a) for a in f.call_args(c)]
    fa = [arg_source(f, a) for a in f.call_args(fn)]
    lv = all(is_lvalue_arg(f, a) for a in f.call_args(c))
    ctx.ob('C12.F5', f, 'the condition sees the arguments as lvalues, the function receives the same arguments in order', ca == want and fa == want and lv)
    vs, _ = ma.violations(f)
    ctx.ob('C12.F5', f, 'nothing is moved from before the function call', not vs, detail='\n'.join(v['msg'] for v in vs[:2]))


def check_adapter_casts(ctx, tu):
    """The conversion helpers of argumentAdapter: a plain parameter is static_cast from the incoming argument; a shared_ptr parameter
    has to *share ownership* with the incoming pointer (static/dynamic/const_pointer_cast of it, or an aliasing construction whose owner
    is the incoming pointer) - a pointer to the same address that owns nothing is not "the same argument value converted"."""
    for f in tu.fns:
        if not f.skey.startswith('adapter_internal_::StaticCast') or f.name != 'cast' or not f.params:
            continue
        pid = f.params[0]['id']
        rets = f.return_nodes()
        is_sp = 'shared_ptr' in f.clsq
        ok = len(rets) == 1
        detail = ''
        if ok:
            v = f.value_source(f.kids(rets[0])[0])
            o = f.nodes[v]
            if not is_sp:
                ok = o['cls'] in ('CXXStaticCastExpr', 'CXXFunctionalCastExpr', 'CStyleCastExpr', 'ImplicitCastExpr', 'DeclRefExpr', 'CXXConstructExpr') and \
                    any(f.nodes[d]['cls'] == 'DeclRefExpr' and f.decl(d).get('id') == pid for d in [v] + f.descendants(v))
                detail = 'returned expression: %s' % o['cls']
            else:
                if f.is_call(v) and (f.callee(v) or {}).get('name') in ('static_pointer_cast', 'dynamic_pointer_cast', 'const_pointer_cast'):
                    a = f.call_args(v)
                    ok = len(a) == 1 and root_var_id(path(f, f.value_source(a[0]), resolve_refs=False)) == pid
                    detail = 'pointer cast of %s' % (pstr(path(f, a[0])) if a else '?')
                elif f.is_construct(v):
                    a = [x for x in f.nodes[v].get('args', []) if f.nodes[x]['cls'] != 'CXXDefaultArgExpr']
                    owner = root_var_id(path(f, f.value_source(a[0]), resolve_refs=False)) if a else None
                    ok = owner == pid
                    detail = 'shared_ptr constructed with owner %s' % ('the incoming pointer' if ok else 'something else (%s)' % (f.nodes[f.value_source(a[0])]['cls'] if a else 'nothing'))
                else:
                    ok = False
                    detail = 'returned expression: %s' % o['cls']
        ctx.ob('C12.F5', f, 'the converted %s the incoming argument' % ('shared_ptr shares ownership with' if is_sp else 'value is a cast of'), ok,
               detail=detail, key_detail='adapter cast ' + ('shared_ptr' if is_sp else 'value'))


def check_adapter(ctx, tu, f):
    funcs = member_calls(f, 'func')
    ok = len(funcs) == 1 and f.pos_postdominates(f.pos(funcs[0]), (f.entry, 0))
    ctx.ob('C12.F5', f, 'the adapter calls the wrapped function exactly once', ok)
    if not ok:
        return
    args = f.call_args(funcs[0])
    want = [p['id'] for p in f.params]
    got = []
    casted = True
    for a in args:
        ids = set()
        has_cast = False
        for d in [a] + f.descendants(a):
            o = f.nodes[d]
            if o['cls'] == 'DeclRefExpr' and f.decl(d)['kind'] == 'parm':
                ids.add(f.decl(d)['id'])
            if o['cls'] == 'CXXStaticCastExpr' or (f.is_call(d) and (f.callee(d) or {}).get('name') in ('cast', 'static_pointer_cast')):
                has_cast = True
        got.append(list(ids)[0] if len(ids) == 1 else None)
        casted = casted and has_cast
    ctx.ob('C12.F5', f, 'each parameter of the wrapped function is one cast of the incoming argument at the same position', got == want and casted,
           detail='argument sources %s, expected %s' % (got, want))
