"""Runs the eppfacts extractor over the witness (and, in the thorough tier, test) units, with a
content-addressed cache so that the per-property commands share one extraction."""
import glob
import hashlib
import os
import subprocess
import sys
from concurrent.futures import ThreadPoolExecutor

from .facts import TU, AnalysisBroken

VERIF = os.path.dirname(os.path.dirname(os.path.abspath(__file__)))
REPO = os.environ.get('EPP_REPO', '/repo')
CACHE = os.environ.get('EPP_CACHE', os.path.join(VERIF, '.cache', 'facts'))
EXTRACTOR = os.path.join(VERIF, 'build', 'eppfacts')

VARIANTS = {
    # g++ (>=5) and every non-GNU compiler build the lambda-based CallbackListBase::operator()
    'gnuc10': ['-fgnuc-version=10.2.0'],
    # clang defines __GNUC__ == 4: the hand-unrolled "GCC 4 patch" operator()
    'gnuc4': [],
}


def resource_dir():
    try:
        return subprocess.check_output(['clang++', '-print-resource-dir'], text=True).strip()
    except Exception:
        return '/usr/lib/llvm-14/lib/clang/14.0.6'


def ensure_extractor():
    src = os.path.join(VERIF, 'tool', 'eppfacts.cc')
    if not os.path.exists(EXTRACTOR) or os.path.getmtime(src) > os.path.getmtime(EXTRACTOR):
        r = subprocess.run([os.path.join(VERIF, 'bin', 'build-tools.sh')], stdout=subprocess.PIPE, stderr=subprocess.STDOUT, text=True)
        if r.returncode != 0:
            raise AnalysisBroken('cannot build the extractor:\n' + r.stdout)


_include_hash = None


def include_hash():
    global _include_hash
    if _include_hash is None:
        h = hashlib.sha256()
        root = os.path.join(REPO, 'include')
        for dp, dn, fns in sorted(os.walk(root)):
            dn.sort()
            for fn in sorted(fns):
                p = os.path.join(dp, fn)
                h.update(os.path.relpath(p, root).encode())
                with open(p, 'rb') as f:
                    h.update(f.read())
        with open(EXTRACTOR, 'rb') as f:
            h.update(hashlib.sha256(f.read()).digest())
        for p in sorted(glob.glob(os.path.join(VERIF, 'witness', '*.h'))):
            with open(p, 'rb') as f:
                h.update(f.read())
        _include_hash = h.hexdigest()
    return _include_hash


def flags_for(std, variant, extra=()):
    return ['-std=' + std, '-I' + os.path.join(REPO, 'include'), '-DNDEBUG', '-UEVENTPP_VERIF',
            '-I' + os.path.join(VERIF, 'witness'), '-Wno-everything',
            '-resource-dir', resource_dir()] + VARIANTS[variant] + list(extra)


def extract_one(unit, std, variant, extra=(), roots=None):
    ensure_extractor()
    flags = flags_for(std, variant, extra)
    h = hashlib.sha256()
    h.update(include_hash().encode())
    h.update(' '.join(flags).encode())
    h.update(repr(roots).encode())
    with open(unit, 'rb') as f:
        h.update(f.read())
    out = os.path.join(CACHE, h.hexdigest()[:32] + '.json')
    if os.path.exists(out) and os.path.getsize(out) > 0:
        return out, True
    os.makedirs(CACHE, exist_ok=True)
    tmp = out + '.tmp%d' % os.getpid()
    rootargs = ['--root=' + r for r in (roots or [os.path.join(REPO, 'include', 'eventpp')])]
    cmd = [EXTRACTOR] + rootargs + ['--out=' + tmp, unit, '--'] + flags
    r = subprocess.run(cmd, stdout=subprocess.PIPE, stderr=subprocess.STDOUT, text=True)
    if r.returncode != 0 or not os.path.exists(tmp) or os.path.getsize(tmp) == 0:
        if os.path.exists(tmp):
            os.remove(tmp)
        raise AnalysisBroken('extraction failed for %s [%s %s]:\n%s' % (unit, std, variant, r.stdout[-3000:]))
    os.replace(tmp, out)
    return out, False


def witness_units():
    return sorted(glob.glob(os.path.join(VERIF, 'witness', 'w_*.cpp')))


def test_units():
    us = sorted(glob.glob(os.path.join(REPO, 'tests', 'unittest', 'test_*.cpp')))
    us += sorted(glob.glob(os.path.join(REPO, 'tests', 'tutorial', 'tutorial_*.cpp')))
    return us


def plan(tier, only_units=None):
    """List of (unit, std, variant, extra flags)."""
    jobs = []
    for u in witness_units():
        if only_units and os.path.basename(u) not in only_units:
            continue
        for v in VARIANTS:
            jobs.append((u, 'gnu++17', v, ()))
    if tier == 'thorough':
        for u in witness_units():
            if only_units and os.path.basename(u) not in only_units:
                continue
            for std in ('c++11', 'c++14', 'c++20'):
                jobs.append((u, std, 'gnuc10', ()))
        # cover what the build covers: the repository's own unit-test and tutorial units
        inc = ['-I' + os.path.join(REPO, 'tests'), '-I' + os.path.join(REPO, 'tests', 'unittest')]
        for u in test_units():
            jobs.append((u, 'gnu++17', 'gnuc10', tuple(inc)))
    return jobs


def prune_cache(limit_bytes=3 << 30):
    """Keep the fact cache below `limit_bytes` by deleting the least recently used files."""
    try:
        fs = [(os.path.getatime(os.path.join(CACHE, f)), os.path.getsize(os.path.join(CACHE, f)), os.path.join(CACHE, f)) for f in os.listdir(CACHE)]
    except OSError:
        return
    total = sum(x[1] for x in fs)
    for at, sz, p in sorted(fs):
        if total <= limit_bytes:
            break
        try:
            os.remove(p)
            total -= sz
        except OSError:
            pass


def load(tier='quick', only_units=None, verbose=False):
    prune_cache()
    jobs = plan(tier, only_units)
    results = [None] * len(jobs)

    def run(i):
        u, std, v, extra = jobs[i]
        try:
            results[i] = extract_one(u, std, v, extra)
        except AnalysisBroken as e:
            results[i] = e

    with ThreadPoolExecutor(max_workers=min(16, os.cpu_count() or 4)) as ex:
        list(ex.map(run, range(len(jobs))))
    tus = []
    skipped = []
    for (u, std, v, extra), r in zip(jobs, results):
        if isinstance(r, Exception):
            # witness units must extract; test units that do not build at some level are skipped with a note
            if '/witness/' in u and std in ('gnu++17',):
                raise r
            skipped.append((u, std, v, str(r).splitlines()[-1] if str(r) else ''))
            continue
        path, cached = r
        tus.append(TU(path, v, std))
        if verbose:
            print('  facts %-28s %-8s %-7s %s' % (os.path.basename(u), std, v, 'cached' if cached else 'extracted'))
    return tus, skipped
