// compile-fail witnesses (C14.H1): a callable / argument list that matches no listed prototype must be rejected.
#include "common.h"

namespace wit {
using PLF = eventpp::HeterTuple<void (), void (int, const std::string &)>;

void okAll() {
	eventpp::HeterCallbackList<PLF> l; l.append([]() {}); l.append([](int, const std::string &) {}); l(); l(1, "x");
	eventpp::HeterEventDispatcher<int, PLF> d; d.appendListener(1, []() {}); d.dispatch(1); d.dispatch(1, 2, "x");
	eventpp::HeterEventQueue<int, PLF> q; q.enqueue(1); q.enqueue(1, 2, "x");
}
void badAppend() {
	eventpp::HeterCallbackList<PLF> l;
	l.append([](double *, double *, double *) {}); // EXPECT-ERROR
}
void badInvoke() {
	eventpp::HeterCallbackList<PLF> l;
	l(std::string("no"), 1.5, 2); // EXPECT-ERROR
}
void badListener() {
	eventpp::HeterEventDispatcher<int, PLF> d;
	d.appendListener(1, [](double *) {}); // EXPECT-ERROR
}
void badEnqueue() {
	eventpp::HeterEventQueue<int, PLF> q;
	q.enqueue(1, std::string("no"), 1.5, 2); // EXPECT-ERROR
}
} // namespace wit
