// Witness: instantiate every member of CallbackList under the threading / callback / canContinue policies.
#include "common.h"

namespace wit {

template <typename CL, typename CB>
void exerciseCallbackList(CB cb)
{
	CL list;
	typename CL::Handle h = list.append(cb);
	typename CL::Handle h2 = list.prepend(cb);
	typename CL::Handle h3 = list.insert(cb, h);
	(void)list.remove(h2);
	(void)list.ownsHandle(h3);
	(void)list.empty();
	(void)(bool)list;
	(void)(bool)h;
	list.forEach([](const typename CL::Handle &, const typename CL::Callback &) {});
	list.forEach([](const typename CL::Callback &) {});
	(void)list.forEachIf([](const typename CL::Handle &, const typename CL::Callback &) { return true; });
	(void)list.forEachIf([](const typename CL::Callback &) { return true; });
	CL copied(list);
	CL moved(std::move(copied));
	copied = list;
	moved = std::move(copied);
	list.swap(moved);
	swap(list, moved);
	(void)eventpp::hasAnyListener(list);
}

void cbIntStr(int, const std::string &) {}

void useCallbackLists()
{
	using Proto = void (int, const std::string &);
	std::function<Proto> f = [](int, const std::string &) {};
	{
		using CL = eventpp::CallbackList<Proto>;
		exerciseCallbackList<CL>(f);
		CL l; l(1, "a"); const std::string s; l(2, s);
	}
	{
		using CL = eventpp::CallbackList<Proto, PoliciesSingle>;
		exerciseCallbackList<CL>(f);
		CL l; l(1, "a");
	}
	{
		using CL = eventpp::CallbackList<Proto, PoliciesSpin>;
		exerciseCallbackList<CL>(f);
		CL l; l(1, "a");
	}
	{
		using CL = eventpp::CallbackList<Proto, PoliciesCanContinue>;
		exerciseCallbackList<CL>(f);
		CL l; l(1, "a");
	}
	{
		using CL = eventpp::CallbackList<Proto, PoliciesCustomCallback>;
		exerciseCallbackList<CL>(MyCallback<Proto>(&cbIntStr));
		CL l; l(1, "a");
		(void)eventpp::removeListener(l, MyCallback<Proto>(&cbIntStr));
		(void)eventpp::hasListener(l, MyCallback<Proto>(&cbIntStr));
	}
	{
		// by-value class-type argument with a non-trivial move
		using P2 = void (Payload);
		using CL = eventpp::CallbackList<P2>;
		std::function<P2> g = [](Payload) {};
		exerciseCallbackList<CL>(g);
		CL l; l(Payload()); Payload p; l(p);
	}
	{
		using P2 = void (Payload);
		using CL = eventpp::CallbackList<P2, PoliciesCanContinue>;
		std::function<P2> g = [](Payload) {};
		exerciseCallbackList<CL>(g);
		CL l; l(Payload());
	}
	{
		using P2 = void (Payload);
		using CL = eventpp::CallbackList<P2, PoliciesCanContinueValue>;
		std::function<P2> g = [](Payload) {};
		exerciseCallbackList<CL>(g);
		CL l; l(Payload()); Payload p; l(p);
	}
	{
		using P3 = void (std::unique_ptr<int> &, const std::string &);
		using CL = eventpp::CallbackList<P3>;
		std::function<P3> g = [](std::unique_ptr<int> &, const std::string &) {};
		exerciseCallbackList<CL>(g);
		CL l; std::unique_ptr<int> u; l(u, std::string("x"));
	}
	{
		using P4 = int ();
		using CL = eventpp::CallbackList<P4>;
		std::function<P4> g = []() { return 1; };
		exerciseCallbackList<CL>(g);
		CL l; l();
	}
}

} // namespace wit
