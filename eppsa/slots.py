"""A9 slot typestate: abstract interpretation of the queue's processing functions over the EMPTY/FULL protocol of the
buffered slots and the content of the slot lists.

Abstract values
  list content  Z (no elements) | F (all FULL) | E (all EMPTY) | T (mixed / unknown)
  class invariants of the shared lists: queueList <= F, freeList <= E
  tracked elements (denoted by iterator / reference variables): state F | E | T and the list that owns them
  a list that is being walked by a cursor is split into (behind, ahead) so that "every visited element was cleared" survives
  the loop: ++it merges the old element into `behind`; leaving the loop through `it == end()` makes the content `behind`.

Library helpers that receive slot lists by reference are interpreted at the call site (call-by-reference binding).
Obligations are reported through a callback: ob(kind, fn, node, ok, message).
"""
from .facts import short, AnalysisBroken
from .paths import path, pstr, root_var_id, last_field

INF = 2          # "two or more / unknown"
# element states
F, E, T = 'F', 'E', 'T'
# list contents: (kind, lo, hi): kind of the elements (F/E/T, or None when there are none), and bounds on their number
Z = (None, 0, 0)
ANY_F = (F, 0, INF)
ANY_E = (E, 0, INF)
SHARED = {'queueList': ANY_F, 'freeList': ANY_E}
SHARED_KIND = {'queueList': F, 'freeList': E}
SLOT_CLASSES = ('BufferedItem', 'BufferedUnion')


def kjoin(a, b):
    if a is None:
        return b
    if b is None:
        return a
    return a if a == b else T


def join(a, b):
    """Join of two list contents (alternative paths)."""
    k = kjoin(a[0], b[0])
    lo, hi = min(a[1], b[1]), max(a[2], b[2])
    return norm((k, lo, hi))


def norm(c):
    k, lo, hi = c
    lo, hi = min(lo, INF), min(hi, INF)
    if hi == 0:
        return Z
    return (k, lo, hi)


def concat(a, b):
    """Content of a list after the elements of b were added to a."""
    return norm((kjoin(a[0], b[0]), a[1] + b[1], a[2] + b[2]))


def one(state):
    return (state, 1, 1)


def kind_leq(c, want):
    """All elements of content c are in state `want`."""
    return c[0] is None or c[0] == want


def sjoin(a, b):
    return a if a == b else T


class State:
    __slots__ = ('lists', 'iters', 'vars', 'elems', 'ends', 'counts', 'recycled', 'bools')

    def __init__(self):
        self.lists = {}     # list key -> content
        self.iters = {}     # list key -> (behind, ahead)
        self.vars = {}      # var id -> elem id
        self.elems = {}     # elem id -> [state, owner list key, tag]
        self.ends = {}      # var id -> list key (var holds L.end())
        self.counts = {}    # local list key -> (lo, hi) total number of elements (a cursor walk does not change it)
        self.recycled = 0   # lower bound on the number of slots this call has cleared and recycled (or taken) so far
        self.bools = {}     # local bool var id -> frozenset of (value or None, `recycled` when it was assigned): result variables

    def copy(self):
        s = State()
        s.lists = dict(self.lists)
        s.iters = dict(self.iters)
        s.vars = dict(self.vars)
        s.elems = {k: list(v) for k, v in self.elems.items()}
        s.ends = dict(self.ends)
        s.counts = dict(self.counts)
        s.recycled = self.recycled
        s.bools = dict(self.bools)
        return s

    def key(self):
        return (tuple(sorted((k, str(v)) for k, v in self.lists.items())), tuple(sorted((k, str(v)) for k, v in self.iters.items())), tuple(sorted(self.vars.items())),
                tuple(sorted((k, tuple(str(x) for x in v)) for k, v in self.elems.items())), tuple(sorted(self.ends.items())), tuple(sorted(self.counts.items())), self.recycled,
                tuple(sorted((k, tuple(sorted(map(str, v)))) for k, v in self.bools.items())))

    def content(self, L):
        """Whole content of L including the parts split off by a cursor and the tracked elements."""
        c = self.lists.get(L, SHARED.get(L, Z))
        if L in self.iters:
            b, a = self.iters[L]
            c = concat(concat(c, b), a)
        for e in self.elems.values():
            if e[1] == L and e[0] is not None:
                c = concat(c, one(e[0]))
        return c


def join_states(a, b):
    if a is None:
        return b.copy()
    s = State()
    s.recycled = min(a.recycled, b.recycled)
    for v in set(a.bools) | set(b.bools):
        s.bools[v] = frozenset(a.bools.get(v, frozenset())) | frozenset(b.bools.get(v, frozenset()))
    for L in set(a.counts) | set(b.counts):
        ca, cb = a.counts.get(L, (0, 0)), b.counts.get(L, (0, 0))
        s.counts[L] = (min(ca[0], cb[0]), max(ca[1], cb[1]))
    for L in set(a.lists) | set(b.lists):
        s.lists[L] = join(a.lists.get(L, Z), b.lists.get(L, Z))
    for L in set(a.iters) | set(b.iters):
        if L in a.iters and L in b.iters:
            s.iters[L] = (join(a.iters[L][0], b.iters[L][0]), join(a.iters[L][1], b.iters[L][1]))
        else:
            # iteration finished on one side: fold
            x = a if L in a.iters else b
            o = b if L in a.iters else a
            s.lists[L] = join(concat(concat(x.lists.get(L, Z), x.iters[L][0]), x.iters[L][1]), o.lists.get(L, Z))
    # elements are named by deterministic tags (creation site), so equal ids denote the same abstract element
    for k in set(a.elems) | set(b.elems):
        if k in a.elems and k in b.elems:
            ea, eb = a.elems[k], b.elems[k]
            s.elems[k] = [sjoin(ea[0], eb[0]) if (ea[0] is not None and eb[0] is not None) else (ea[0] if eb[0] is None else eb[0]),
                          ea[1] if ea[1] == eb[1] else '?', ea[2], 'must' if (ea[3] == 'must' and eb[3] == 'must') else 'may']
        else:
            # tracked on one side only: fold it back into its owner's content on that side
            x = a if k in a.elems else b
            e = x.elems[k]
            if e[0] is None:
                continue
            if e[1] in s.iters:
                s.iters[e[1]] = (join(s.iters[e[1]][0], concat(s.iters[e[1]][0], one(e[0]))), s.iters[e[1]][1])
            else:
                # present on one side only: on that side the list has one more element
                s.lists[e[1]] = join(s.lists.get(e[1], Z), concat(x.lists.get(e[1], Z), one(e[0])))
    for v in set(a.vars) & set(b.vars):
        if a.vars[v] == b.vars[v] and a.vars[v] in s.elems:
            s.vars[v] = a.vars[v]
    for v in set(a.ends) & set(b.ends):
        if a.ends[v] == b.ends[v]:
            s.ends[v] = a.ends[v]
    return s


def init_has_args(fn, init):
    """The initialiser of a local passes something in (copy / aggregate with values) - as opposed to default construction."""
    if not init:
        return False
    x = fn.strip_all_casts(init)
    o = fn.nodes[x]
    if fn.is_construct(x):
        return bool([a for a in o.get('args', []) if fn.nodes[a]['cls'] != 'CXXDefaultArgExpr'])
    if o['cls'] == 'InitListExpr':
        return bool(fn.kids(x))
    return True


class SlotInterp:
    def __init__(self, tu, report, note=None):
        self.tu = tu
        self.report = report        # report(kind, fn, node, ok, message)
        self.note = note or (lambda m: None)
        self.depth = 0
        self.stats = {'functions': 0, 'events': 0}

    # ---- naming of lists ------------------------------------------------------------------------
    def list_key(self, fn, n, binding):
        """Key of the slot list denoted by expression n (or None)."""
        p = path(fn, n)
        t = fn.ntype(n)
        if p[0] == 'this' and len(p) == 2 and p[1][1:] in SHARED:
            return p[1][1:]
        vid = root_var_id(p)
        if vid is not None and len(p) == 1:
            if vid in binding:
                return binding[vid]
            vd = fn.var_decls().get(vid)
            if vd is not None and self.is_slot_list_type(vd['t']):
                return 'L%d:%s' % (vid, vd['name'])
        if vid is not None and len(p) == 2 and p[1].startswith('.') and not p[1].endswith('()'):
            # a slot list that is a member of a local aggregate (`struct { List pending; List done; } lists;`)
            vd = fn.var_decls().get(vid)
            if vd is not None and p[1][1:] in self.struct_list_fields(vd['t']):
                return 'L%d:%s%s' % (vid, vd['name'], p[1])
        return None

    def struct_list_fields(self, tidx):
        t = self.tu.type(tidx)
        if not t or t.get('ref') or not t.get('recq'):
            return []
        c = self.tu.class_by_q.get(t['recq'])
        if not c or c.get('bases'):
            return []
        return [fl['name'] for fl in c.get('fields', []) if self.is_slot_list_type(fl['t'])]

    def is_slot_list_type(self, tidx):
        t = self.tu.type(tidx)
        if not t:
            return False
        if t['ref']:
            t = self.tu.type(t.get('base'))
        s = t['s'] if t else ''
        return ('std::list<' in s or 'OrderedQueueList<' in s) and ('BufferedItem<' in s or 'BufferedUnion<' in s)

    # ---- element lookup ---------------------------------------------------------------------------
    def elem_of(self, fn, n, st, binding, create=True):
        """Element id denoted by the slot expression n (receiver of get/set/clear)."""
        p = path(fn, n, resolve_refs=False)
        vid = root_var_id(p)
        if vid is not None and vid in st.vars and len(p) <= 2:
            return st.vars[vid]
        # reference variable bound to an element
        if vid is not None and len(p) == 1:
            vd = fn.var_decls().get(vid)
            if vd and vd.get('init'):
                return self.elem_of(fn, vd['init'], st, binding, create)
        # L.front()
        nn = fn.strip_all_casts(n)
        o = fn.nodes[nn]
        if o['cls'] == 'CXXMemberCallExpr' and (fn.callee(nn) or {}).get('name') in ('front',):
            L = self.list_key(fn, fn.call_obj(nn), binding)
            if L is not None:
                return self.elem_front(fn, L, st)
        if o['cls'] == 'CXXOperatorCallExpr' and o.get('op') in ('*', '->') and o.get('obj'):
            return self.elem_of(fn, o['obj'], st, binding, create)
        if o['cls'] == 'UnaryOperator' and o.get('op') in ('*', '&'):
            return self.elem_of(fn, fn.kids(nn)[0], st, binding, create)      # *p / &x: the same element
        if o['cls'] == 'CallExpr' and short((fn.callee(nn) or {}).get('key', '')) == 'std::addressof' and o.get('args'):
            return self.elem_of(fn, o['args'][0], st, binding, create)
        return None

    # ---- interpretation ---------------------------------------------------------------------------
    def run(self, fn, st_in, binding):
        """Interpret fn from state st_in with list-parameter binding {param var id: list key}. Returns exit state."""
        self.depth += 1
        if self.depth > 6:
            self.depth -= 1
            raise AnalysisBroken('slot analysis: helper nesting too deep at %s' % fn.skey)
        self.stats['functions'] += 1
        IN = {fn.entry: st_in.copy()}
        work = [fn.entry]
        exit_state = None
        rounds = 0
        reported = set()
        while work:
            rounds += 1
            if rounds > 4000:
                raise AnalysisBroken('slot analysis does not converge in %s' % fn.skey)
            b = work.pop(0)
            st = IN[b].copy()
            blk = fn.blocks[b]
            for i, e in enumerate(blk['elems']):
                if e['k'] == 'stmt' and e.get('n'):
                    if fn.nodes[e['n']]['cls'] == 'ReturnStmt':
                        ks = fn.kids(e['n'])
                        v = fn.strip_all_casts(ks[0]) if ks else None
                        if v and fn.nodes[v]['cls'] == 'CXXBoolLiteralExpr' and fn.nodes[v].get('value'):
                            self.ob('B-true', fn, e['n'], st.recycled >= 1,
                                    '`return true` with no slot certainly consumed (cleared and recycled) on this path', reported)
                        elif v and fn.nodes[v]['cls'] == 'DeclRefExpr' and (fn.decl(v) or {}).get('id') in st.bools:
                            # single-exit style: the result variable may be true only from an assignment made after a slot was consumed
                            bad = [x for x in st.bools[fn.decl(v)['id']] if x[0] is not False and x[1] < 1]
                            self.ob('B-true', fn, e['n'], not bad,
                                    'the result variable `%s` can be true here although no slot was certainly consumed (cleared and recycled) '
                                    'when it got that value' % fn.decl(v).get('name'), reported)
                    self.step(fn, e['n'], st, binding, reported)
                elif e['k'] == 'autodtor':
                    # a local list dies: its slots are destroyed (the slot destructor clears FULL ones, so nothing leaks) - but a FULL
                    # slot that dies with a local list on a normal path is an event that was neither dispatched, taken nor cleared by
                    # the caller's request: it silently disappears (clearEvents, which clears explicitly, leaves only EMPTY slots)
                    dying = []
                    if e.get('t') is not None and self.is_slot_list_type(e['t']):
                        dying = ['L%d:%s' % (e['var'], e.get('name'))]
                    elif e.get('t') is not None:
                        dying = ['L%d:%s.%s' % (e['var'], e.get('name'), fl) for fl in self.struct_list_fields(e['t'])]
                    for L in dying:
                        if L in st.lists or L in st.iters or any(x[1] == L for x in st.elems.values()):
                            c = st.content(L)
                            node = fn.blocks[b].get('term') or next((x.get('n') for x in blk['elems'] if x.get('n')), None) or fn.body
                            self.ob('O-drop', fn, node, c[0] in (None, E),
                                    'the local list %s is destroyed while it may still hold FULL slots (%s): those events disappear '
                                    'without having been dispatched, taken or cleared' % (e.get('name'), self.show(c)), reported)
            if b == fn.exit or not fn.succs(b):
                exit_state = join_states(exit_state, st) if exit_state is not None else st.copy()
                continue
            succ = blk['succ']
            outs = []
            if len(succ) == 2 and blk.get('cond'):
                t_st, f_st = self.branch(fn, blk['cond'], st, binding)
                if succ[0] is not None and t_st is not None:
                    outs.append((succ[0], t_st))
                if succ[1] is not None and f_st is not None:
                    outs.append((succ[1], f_st))
            else:
                for s in succ:
                    if s is not None:
                        outs.append((s, st))
            for s, o in outs:
                old = IN.get(s)
                new = join_states(old, o) if old is not None else o.copy()
                if old is None or new.key() != old.key():
                    IN[s] = new
                    if s not in work:
                        work.append(s)
        self.depth -= 1
        return exit_state if exit_state is not None else st_in

    def ob(self, kind, fn, n, ok, msg, reported):
        k = (kind, fn.id, n, ok)
        # report each (kind, node) once per verdict; a later failing verdict at the same node is still reported
        if k in reported:
            return
        reported.add(k)
        self.report(kind, fn, n, ok, msg)

    def branch(self, fn, cond, st, binding):
        """Refine on `cursor != L.end()` and on `L.empty()`."""
        c = fn.strip_all_casts(cond)
        o = fn.nodes[c]
        neg = False
        while o['cls'] == 'UnaryOperator' and o.get('op') == '!':
            neg = not neg
            c = fn.strip_all_casts(fn.kids(c)[0])
            o = fn.nodes[c]
        t_st, f_st = st.copy(), st.copy()
        if o['cls'] == 'CXXOperatorCallExpr' and o.get('op') in ('!=', '==') and len(o.get('args', [])) == 2:
            a0, a1 = o['args']
            it, L = self.iter_vs_end(fn, a0, a1, st, binding)
            if it is None:
                it, L = self.iter_vs_end(fn, a1, a0, st, binding)
            if it is not None:
                eid = st.vars.get(it)
                e = st.elems.get(eid)
                ahead_hi = st.iters[L][1][2] if L in st.iters else 0
                # cursor is at end(): there is no current element and nothing ahead
                at_end = st.copy()
                if L in at_end.iters:
                    bh, ah = at_end.iters.pop(L)
                    at_end.lists[L] = concat(at_end.lists.get(L, Z), bh)
                if eid in at_end.elems:
                    del at_end.elems[eid]
                for v in [v for v, x in at_end.vars.items() if x == eid]:
                    del at_end.vars[v]
                if e is not None and e[3] == 'must':
                    at_end = None          # the current element certainly exists
                # cursor is at an element
                not_end = st.copy()
                if e is None or (e[3] == 'may' and e[0] is None):
                    not_end = None
                elif e[3] == 'may':
                    not_end.elems[eid][3] = 'must'
                if o['op'] == '!=':
                    t_st, f_st = not_end, at_end
                else:
                    t_st, f_st = at_end, not_end
                if neg:
                    t_st, f_st = f_st, t_st
                return t_st, f_st
        if o['cls'] == 'CXXMemberCallExpr' and (fn.callee(c) or {}).get('name') == 'empty' and fn.call_obj(c):
            L = self.list_key(fn, fn.call_obj(c), binding)
            if L is not None and L not in SHARED and (L in st.iters or any(e[1] == L for e in st.elems.values())):
                # a cursor walk / tracked elements of L are still recorded (e.g. after a `break` out of the walk): empty() == true means
                # that there is no element at all, whichever part of the record it belongs to; the non-empty branch keeps the record
                whole = st.content(L)
                must = any(e[1] == L and e[3] == 'must' and e[0] is not None for e in st.elems.values())
                cnt = st.counts.get(L, (0, INF))
                empty_st = None
                if whole[1] == 0 and not must and cnt[0] == 0:
                    empty_st = st.copy()
                    empty_st.iters.pop(L, None)
                    for k in [k for k, e in empty_st.elems.items() if e[1] == L]:
                        del empty_st.elems[k]
                        for v in [v for v, x in empty_st.vars.items() if x == k]:
                            del empty_st.vars[v]
                    empty_st.lists[L] = Z
                    empty_st.counts[L] = (0, 0)
                nonempty_st = st.copy() if (whole[2] > 0 or must) and cnt[1] > 0 else None
                t_st, f_st = empty_st, nonempty_st
                if neg:
                    t_st, f_st = f_st, t_st
                return t_st, f_st
            if L is not None and L not in SHARED and L not in st.iters:
                cont = st.lists.get(L, Z)
                tracked = [k for k, e in st.elems.items() if e[1] == L]
                empty_st = st.copy() if (cont[1] == 0 and not tracked) else None
                cnt = st.counts.get(L, (0, INF))
                if cnt[0] >= 1:
                    empty_st = None
                if empty_st is not None:
                    empty_st.lists[L] = Z
                    empty_st.counts[L] = (0, 0)
                nonempty_st = st.copy() if ((cont[2] > 0 or tracked) and cnt[1] > 0) else None
                if nonempty_st is not None:
                    nonempty_st.counts[L] = (max(cnt[0], 1), cnt[1])
                    if not tracked:
                        nonempty_st.lists[L] = (cont[0], max(cont[1], 1), cont[2])
                t_st, f_st = empty_st, nonempty_st
                if neg:
                    t_st, f_st = f_st, t_st
                return t_st, f_st
        return t_st, f_st

    def iter_vs_end(self, fn, a, b, st, binding):
        """a is a cursor variable, b denotes L.end() -> (var id, L)."""
        pa = path(fn, a, resolve_refs=False)
        va = root_var_id(pa)
        if va is None or len(pa) != 1 or va not in st.vars:
            return None, None
        bb = self.iter_source(fn, b)
        ob = fn.nodes[bb]
        if ob['cls'] == 'CXXMemberCallExpr' and (fn.callee(bb) or {}).get('name') in ('end', 'cend'):
            L = self.list_key(fn, fn.call_obj(bb), binding)
            return (va, L) if L else (None, None)
        pb = path(fn, bb, resolve_refs=False)
        vb = root_var_id(pb)
        if vb is not None and vb in st.ends:
            return va, st.ends[vb]
        return None, None

    def is_iterator_var(self, fn, vid):
        vd = fn.var_decls().get(vid)
        if not vd:
            return False
        t = self.tu.type(vd['t'])
        return bool(t) and not t['ref'] and 'iterator' in t['s']

    def iter_source(self, fn, n):
        """Strip conversions between iterator types (iterator -> const_iterator)."""
        n = fn.value_source(n)
        while fn.is_construct(n):
            args = [a for a in fn.nodes[n].get('args', []) if fn.nodes[a]['cls'] != 'CXXDefaultArgExpr']
            t = fn.ntype(n)
            if len(args) == 1 and t and 'iterator' in t['s']:
                n = fn.value_source(args[0])
            else:
                break
        return n

    def cnt_add(self, st, L, lo, hi):
        if L in SHARED:
            return
        c = st.counts.get(L, (0, 0))
        st.counts[L] = (min(c[0] + lo, INF), min(c[1] + hi, INF))

    def cnt_take_one(self, st, L):
        if L in SHARED:
            return
        c = st.counts.get(L, (0, 0))
        st.counts[L] = (max(c[0] - 1, 0), c[1] if c[1] == INF else max(c[1] - 1, 0))

    # -- elements are [state, owner list, tag, 'must'|'may'] : 'may' = the cursor may be at end() (no element)
    def fold_tracked(self, st, L):
        """Fold every tracked element of L (and a running walk) back into the list content."""
        c = st.lists.get(L, SHARED.get(L, Z))
        if L in st.iters:
            bh, ah = st.iters.pop(L)
            c = concat(concat(c, bh), ah)
        for k in [k for k, e in st.elems.items() if e[1] == L]:
            e = st.elems.pop(k)
            if e[0] is not None:
                c = concat(c, one(e[0])) if e[3] == 'must' else join(c, concat(c, one(e[0])))
            for v in [v for v, x in st.vars.items() if x == k]:
                del st.vars[v]
        st.lists[L] = c
        return c

    def take_first(self, c):
        """Split content c into (first element state or None, certainty, rest)."""
        k, lo, hi = c
        if hi == 0:
            return None, 'may', Z
        rest = norm((k, max(lo - 1, 0), hi if hi == INF else hi - 1))
        return k, ('must' if lo >= 1 else 'may'), rest

    def new_cursor(self, fn, n, L, st, vid):
        """A cursor at L.begin(): start walking L."""
        c = self.fold_tracked(st, L)
        state, cert, rest = self.take_first(c)
        st.iters[L] = (Z, rest)
        st.lists[L] = Z
        tag = 'cur:%s' % vid
        st.elems[tag] = [state, L, tag, cert]
        return tag

    def step(self, fn, n, st, binding, reported):
        o = fn.nodes[n]
        c = o['cls']
        self.stats['events'] += 1
        if c == 'BinaryOperator' and o.get('op') == '=':
            ks = fn.kids(n)
            lhs = fn.strip_all_casts(ks[0])
            if fn.nodes[lhs]['cls'] == 'DeclRefExpr' and (fn.decl(lhs) or {}).get('id') in st.bools:
                r = fn.strip_all_casts(ks[1])
                val = bool(fn.nodes[r].get('value')) if fn.nodes[r]['cls'] == 'CXXBoolLiteralExpr' else None
                st.bools[fn.decl(lhs)['id']] = frozenset([(val, st.recycled)])
            return
        if c == 'DeclStmt':
            for v in o.get('decls', []):
                vt = self.tu.type(v['t'])
                if vt and not vt.get('ref') and vt.get('ptr') is None and vt.get('s', '').strip() == 'bool' and v.get('init'):
                    r = fn.strip_all_casts(v['init'])
                    val = bool(fn.nodes[r].get('value')) if fn.nodes[r]['cls'] == 'CXXBoolLiteralExpr' else None
                    st.bools[v['id']] = frozenset([(val, st.recycled)])
            for v in o.get('decls', []):
                vid = v['id']
                init = v.get('init')
                if self.is_slot_list_type(v['t']) and not (self.tu.type(v['t']) or {}).get('ref'):
                    st.lists['L%d:%s' % (vid, v['name'])] = Z
                    st.counts['L%d:%s' % (vid, v['name'])] = (0, 0)
                    continue
                slf = self.struct_list_fields(v['t'])
                if slf and not init_has_args(fn, init):
                    for fl in slf:
                        st.lists['L%d:%s.%s' % (vid, v['name'], fl)] = Z
                        st.counts['L%d:%s.%s' % (vid, v['name'], fl)] = (0, 0)
                    continue
                if not init:
                    continue
                src = self.iter_source(fn, init)
                so = fn.nodes[src]
                # `Slot * const item = std::addressof(L.front());` / `&L.front()`: a pointer to the element
                for _ in range(3):
                    if so['cls'] == 'CallExpr' and short((fn.callee(src) or {}).get('key', '')) == 'std::addressof' and so.get('args'):
                        src = self.iter_source(fn, so['args'][0])
                    elif so['cls'] == 'UnaryOperator' and so.get('op') == '&':
                        src = self.iter_source(fn, fn.kids(src)[0])
                    else:
                        break
                    so = fn.nodes[src]
                if so['cls'] == 'CXXMemberCallExpr' and fn.call_obj(src):
                    nm = (fn.callee(src) or {}).get('name')
                    L = self.list_key(fn, fn.call_obj(src), binding)
                    if L is not None and nm in ('begin', 'cbegin'):
                        st.vars[vid] = self.new_cursor(fn, src, L, st, vid)
                        continue
                    if L is not None and nm in ('end', 'cend'):
                        st.ends[vid] = L
                        continue
                    if L is not None and nm == 'front':
                        eid = self.elem_of(fn, src, st, binding)
                        if eid:
                            st.vars[vid] = eid
                        continue
                # alias of another cursor / element reference
                p = path(fn, src, resolve_refs=False)
                rv = root_var_id(p)
                if rv is not None and rv in st.vars and len(p) <= 2:
                    st.vars[vid] = st.vars[rv]
            return
        if c == 'CXXOperatorCallExpr' and o.get('op') == '++' and o.get('args'):
            # a post-increment that is the element argument of a splice (`splice(pos, src, it++)`) is interpreted with that splice
            if len(o['args']) == 2:
                pm = fn.parent_map()
                q = pm.get(n)
                hops = 0
                while q is not None and hops < 6 and not (fn.is_call(q) and (fn.callee(q) or {}).get('name') == 'splice'):
                    if fn.nodes[q]['cls'] in ('CompoundStmt', 'IfStmt', 'ForStmt', 'WhileStmt', 'DeclStmt', 'ReturnStmt'):
                        q = None
                        break
                    q = pm.get(q)
                    hops += 1
                if q is not None and hops < 6:
                    return
            p = path(fn, o['args'][0], resolve_refs=False)
            vid = root_var_id(p)
            if vid is not None and vid in st.vars and len(p) == 1:
                self.advance(fn, n, vid, st)
            return
        if c in ('CXXMemberCallExpr', 'CallExpr', 'CXXOperatorCallExpr'):
            cal = fn.callee(n)
            if not cal:
                return
            name = cal['name']
            scls = short(cal.get('cls', ''))
            if cal.get('method') and scls in SLOT_CLASSES and name in ('get', 'clear', 'set'):
                self.slot_op(fn, n, name, st, binding, reported)
                return
            if name == 'splice' and fn.call_obj(n):
                self.splice(fn, n, st, binding, reported)
                return
            if short(cal.get('key', '')) == 'std::for_each' and len(fn.call_args(n)) == 3:
                if self.for_each(fn, n, st, binding, reported):
                    return
            if name == 'swap':
                ops = [a for a in fn.call_args(n)]
                if fn.call_obj(n) and cal.get('method'):
                    ops = [fn.call_obj(n)] + ops
                ks = [self.list_key(fn, a, binding) for a in ops]
                if len(ks) == 2 and all(ks):
                    self.swap(fn, n, ks[0], ks[1], st, reported)
                return
            if name in ('emplace_back', 'emplace_front') and fn.call_obj(n):
                L = self.list_key(fn, fn.call_obj(n), binding)
                if L is not None:
                    if L in SHARED:
                        self.ob('P-shared-add', fn, n, SHARED_KIND[L] == E, '%s() adds an EMPTY slot to %s' % (name, L), reported)
                    else:
                        self.fold_tracked(st, L)
                        st.lists[L] = concat(st.lists.get(L, Z), one(E))
                        self.cnt_add(st, L, 1, 1)
                return
            if name in ('clear', 'pop_front', 'pop_back', 'erase', 'push_back', 'push_front', 'insert', 'remove', 'remove_if', 'resize', 'assign', 'merge') and fn.call_obj(n):
                L = self.list_key(fn, fn.call_obj(n), binding)
                if L is not None:
                    self.ob('P-unsupported', fn, n, False, '%s() on slot list %s is not part of the transfer-only protocol (slots move between lists by splice/swap only)' % (name, L), reported)
                return
            # library helper receiving slot lists by reference
            if cal.get('lib') and cal.get('fid', -1) in fn.tu.by_id:
                g = fn.tu.by_id[cal['fid']]
                args = fn.call_args(n)
                nb = {}
                for prm, a in zip(g.params, args):
                    if self.is_slot_list_type(prm['t']):
                        L = self.list_key(fn, a, binding)
                        if L is not None:
                            nb[prm['id']] = L
                if nb:
                    for L in nb.values():
                        if L not in SHARED:
                            self.fold_tracked(st, L)
                    out = self.run(g, st, nb)
                    st.lists, st.iters, st.elems = out.lists, out.iters, out.elems
                    st.counts, st.recycled = out.counts, out.recycled      # what the helper recycled / moved counts for the caller
                    st.vars = {v: e for v, e in st.vars.items() if e in st.elems}
            return

    def for_each(self, fn, n, st, binding, reported):
        """std::for_each(L.begin(), L.end(), f) over a slot list: the body of f (lambda or functor, read through functor_body) is
        interpreted once for every state an element of L can be in, with its parameter denoting that element; afterwards every
        element of L is in the joined result state, their number unchanged."""
        args = fn.call_args(n)
        srcs = [self.iter_source(fn, a) for a in args[:2]]
        Ls = []
        for want, sn in zip((('begin', 'cbegin'), ('end', 'cend')), srcs):
            so = fn.nodes[sn]
            if so['cls'] != 'CXXMemberCallExpr' or not fn.call_obj(sn) or (fn.callee(sn) or {}).get('name') not in want:
                return False
            Ls.append(self.list_key(fn, fn.call_obj(sn), binding))
        if Ls[0] is None or Ls[0] != Ls[1]:
            return False
        L = Ls[0]
        g = fn.functor_body(args[2])
        if g is None or len(g.params) != 1 or L in SHARED:
            self.ob('P-untracked', fn, n, False, 'std::for_each over slot list %s with a callable the analysis cannot read' % L, reported)
            return True
        c = self.fold_tracked(st, L)
        if c[0] is None:
            return True
        outk = None
        tag = 'each:%d' % n
        for k in ([c[0]] if c[0] in (F, E) else [F, E]):
            s2 = st.copy()
            s2.elems[tag] = [k, L, tag, 'must']
            s2.vars[g.params[0]['id']] = tag
            out = self.run(g, s2, binding)
            e = out.elems.get(tag)
            if e is None or out.lists.get(L) != s2.lists.get(L):
                self.ob('P-untracked', fn, n, False, 'the body of the std::for_each over %s moves slots between lists' % L, reported)
                return True
            outk = kjoin(outk, e[0])
        st.lists[L] = norm((outk, c[1], c[2]))
        return True

    def advance(self, fn, n, vid, st):
        eid = st.vars[vid]
        e = st.elems.get(eid)
        if e is None:
            return
        L = e[1]
        others = [v for v, x in st.vars.items() if x == eid and v != vid]
        # iterator copies (auto tempIt = it) keep denoting the old element; references to it (auto & item = *it) do not
        keep = [v for v in others if self.is_iterator_var(fn, v)]
        for v in others:
            if v not in keep:
                del st.vars[v]
        del st.elems[eid]
        if keep:
            ntag = 'held:%s' % keep[0]
            st.elems[ntag] = [e[0], L, ntag, e[3]]
            for v in keep:
                st.vars[v] = ntag
        elif e[0] is not None:
            # the element stays in L, behind the cursor
            add = one(e[0])
            if L in st.iters:
                bh = st.iters[L][0]
                st.iters[L] = (concat(bh, add) if e[3] == 'must' else join(bh, concat(bh, add)), st.iters[L][1])
            else:
                cur = st.lists.get(L, Z)
                st.lists[L] = concat(cur, add) if e[3] == 'must' else join(cur, concat(cur, add))
        if L in st.iters:
            state, cert, rest = self.take_first(st.iters[L][1])
            st.iters[L] = (st.iters[L][0], rest)
        else:
            state, cert, rest = None, 'may', Z
        tag = 'cur:%s' % vid
        st.elems[tag] = [state, L, tag, cert]
        st.vars[vid] = tag

    def slot_op(self, fn, n, name, st, binding, reported):
        obj = fn.call_obj(n)
        p = path(fn, obj)
        shared = [x for x in SHARED if ('.' + x) in p]
        eid = self.elem_of(fn, obj, st, binding)
        if eid is None or eid not in st.elems:
            if shared and name == 'get':
                self.ob('P-get', fn, n, SHARED_KIND[shared[0]] == F, 'get() on an element of %s (class invariant: all %s)' % (shared[0], SHARED_KIND[shared[0]]), reported)
                return
            self.ob('P-untracked', fn, n, False, '%s() on a slot the analysis cannot attribute to a list (%s)' % (name, pstr(p)), reported)
            return
        e = st.elems[eid]
        s = e[0]
        if name == 'get':
            self.ob('P-get', fn, n, s == F, 'get() needs a FULL slot, the slot is %s' % self.show(s), reported)
        elif name == 'clear':
            self.ob('P-clear', fn, n, s == F, 'clear() needs a FULL slot (exactly one destruction), the slot is %s' % self.show(s), reported)
            e[0] = E
        elif name == 'set':
            self.ob('P-set', fn, n, s == E, 'set() needs an EMPTY slot (otherwise the previous payload is never destroyed), the slot is %s' % self.show(s), reported)
            e[0] = F

    @staticmethod
    def show(s):
        if isinstance(s, tuple):
            s = s[0]
        return {None: 'absent', F: 'FULL', E: 'EMPTY', T: 'FULL or EMPTY (paths disagree)'}[s]

    def elem_front(self, fn, L, st):
        """Element denoted by L.front()."""
        tag = 'front:%s' % L
        if tag not in st.elems:
            if L in SHARED:
                return None
            c = self.fold_tracked(st, L)
            state, cert, rest = self.take_first(c)
            st.lists[L] = rest
            st.elems[tag] = [state, L, tag, cert]
        return tag

    def splice(self, fn, n, st, binding, reported):
        args = fn.call_args(n)
        dst = self.list_key(fn, fn.call_obj(n), binding)
        if dst is None or len(args) < 2:
            return
        src = self.list_key(fn, args[1], binding)
        if src is None:
            return
        posn = self.iter_source(fn, args[0])
        pos_name = (fn.callee(posn) or {}).get('name') if fn.is_call(posn) else None
        pos_list = self.list_key(fn, fn.call_obj(posn), binding) if fn.is_call(posn) and fn.call_obj(posn) else None
        if len(args) >= 3:
            itn = self.iter_source(fn, args[2])
            moved = None
            if fn.is_call(itn) and (fn.callee(itn) or {}).get('name') in ('begin', 'cbegin') and fn.call_obj(itn):
                L2 = self.list_key(fn, fn.call_obj(itn), binding)
                if L2 == src:
                    if src in SHARED:
                        moved = SHARED_KIND[src]
                    else:
                        c = self.fold_tracked(st, src)
                        state, cert, rest = self.take_first(c)
                        st.lists[src] = rest
                        moved = state
                        self.cnt_take_one(st, src)
                    self.ob('O-take-front', fn, n, True, 'single element taken from the front of %s' % src, reported)
            else:
                # `splice(pos, src, it++)`: the element the cursor stood on is moved, and the cursor steps to the next one
                post_inc = None
                io = fn.nodes[itn]
                if io['cls'] in ('CXXOperatorCallExpr', 'UnaryOperator') and io.get('op') == '++' and \
                        (io.get('postfix') or (io['cls'] == 'CXXOperatorCallExpr' and len(io.get('args', [])) == 2)):
                    operand = io['args'][0] if io['cls'] == 'CXXOperatorCallExpr' else fn.kids(itn)[0]
                    pv = path(fn, operand, resolve_refs=False)
                    if len(pv) == 1 and root_var_id(pv) in st.vars:
                        post_inc = root_var_id(pv)
                if post_inc is not None:
                    eid = st.vars[post_inc]
                    e = st.elems.get(eid)
                    if e is not None and e[0] is not None:
                        self.ob('O-own', fn, n, e[1] == src, 'the spliced element belongs to %s (source given: %s)' % (e[1], src), reported)
                        moved = e[0]
                        L0 = e[1]
                        self.cnt_take_one(st, L0)
                        del st.elems[eid]
                        for v in [v for v, x in st.vars.items() if x == eid]:
                            del st.vars[v]
                        if L0 in st.iters:
                            state, cert, rest = self.take_first(st.iters[L0][1])
                            st.iters[L0] = (st.iters[L0][0], rest)
                        else:
                            state, cert, rest = None, 'may', Z
                        tag = 'cur:%s' % post_inc
                        st.elems[tag] = [state, L0, tag, cert]
                        st.vars[post_inc] = tag
                p = path(fn, itn, resolve_refs=False)
                vid = root_var_id(p)
                if moved is None and vid is not None and vid in st.vars:
                    eid = st.vars[vid]
                    e = st.elems.get(eid)
                    if e is not None:
                        self.ob('O-own', fn, n, e[1] == src, 'the spliced element belongs to %s (source given: %s)' % (e[1], src), reported)
                        moved = e[0]
                        self.cnt_take_one(st, e[1])
                        del st.elems[eid]
                        for v in [v for v, x in st.vars.items() if x == eid]:
                            del st.vars[v]
            if moved is None:
                self.ob('P-untracked', fn, n, False, 'single-element splice of an element the analysis cannot attribute', reported)
                return
            self.deliver(fn, n, dst, one(moved), st, reported, pos_name, pos_list, single=True)
        else:
            if src in SHARED:
                c = SHARED[src]
            else:
                c = self.fold_tracked(st, src)
                cnt = st.counts.get(src, (c[1], c[2]))
                c = norm((c[0], cnt[0], cnt[1])) if c[0] is not None else c
                st.lists[src] = Z
                st.counts[src] = (0, 0)
            self.deliver(fn, n, dst, c, st, reported, pos_name, pos_list, single=False)

    def deliver(self, fn, n, dst, c, st, reported, pos_name, pos_list, single):
        if dst in SHARED:
            inv = SHARED_KIND[dst]
            self.ob('P-into-' + dst, fn, n, kind_leq(c, inv),
                    'slots spliced into %s must all be %s, they are %s' % (dst, self.show(inv), self.show(c)), reported)
            if dst == 'freeList' and c[0] == E:
                st.recycled = min(INF, st.recycled + c[1])
            if dst == 'queueList':
                if single:
                    self.ob('O-enqueue-end', fn, n, pos_name in ('end', 'cend') and pos_list == dst,
                            'a newly filled slot enters queueList at end() (FIFO); position is %s.%s()' % (pos_list, pos_name), reported)
                else:
                    self.ob('O-putback-begin', fn, n, pos_name in ('begin', 'cbegin') and pos_list == dst,
                            'events a processing call hands back re-enter queueList at begin() (ahead of newer events, original order); '
                            'position is %s.%s()' % (pos_list, pos_name), reported)
        else:
            self.cnt_add(st, dst, c[1], c[2])
            if dst in st.iters:
                st.iters[dst] = (concat(st.iters[dst][0], c), st.iters[dst][1])
            else:
                st.lists[dst] = concat(st.lists.get(dst, Z), c)

    def swap(self, fn, n, a, b, st, reported):
        if a in SHARED or b in SHARED:
            sh, lo = (a, b) if a in SHARED else (b, a)
            if lo in SHARED:
                self.ob('P-unsupported', fn, n, False, 'swap of the two shared lists', reported)
                return
            c = self.fold_tracked(st, lo)
            self.ob('P-swap-' + sh, fn, n, kind_leq(c, SHARED_KIND[sh]),
                    'the list swapped into %s must hold only %s slots, it holds %s' % (sh, self.show(SHARED_KIND[sh]), self.show(c)), reported)
            st.lists[lo] = SHARED[sh]
            st.counts[lo] = (0, INF)
        else:
            ca, cb = self.fold_tracked(st, a), self.fold_tracked(st, b)
            st.lists[a], st.lists[b] = cb, ca
            na, nb = st.counts.get(a, (0, INF)), st.counts.get(b, (0, INF))
            st.counts[a], st.counts[b] = nb, na
