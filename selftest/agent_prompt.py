import sys
pid=sys.argv[1]
round2 = len(sys.argv) > 2 and sys.argv[2] == 'round2'
wt = sys.argv[3] if len(sys.argv) > 3 else '/tmp/wt/' + pid
import json
prop = None
for l in open('/verif/properties.jsonl'):
    d = json.loads(l)
    if d['id'] == pid:
        prop = '%s — %s\n\n%s\n' % (d['id'], d['title'], d['statement'])
hint = ''
if round2:
    hint = '''
Diversity request: an earlier study already collected the most obvious changes in the functions most directly connected with this property. Look further afield this time. Prefer changes in places such as: helper templates and metafunctions (policy selection, prototype matching, index sequences), the heterogeneous variants (HeterCallbackList / HeterEventDispatcher / HeterEventQueue), internal headers (include/eventpp/internal), mixins and utility classes, constructors / assignment / swap, or rarely taken branches. Prefer kinds such as: wrong value category (lvalue vs rvalue, missing or extra std::forward / std::move), wrong template argument or off-by-one in a template recursion, a state field forgotten in one of several sibling operations, a check performed on a stale copy, a condition inverted or weakened in a rarely taken branch, two sibling implementations that drift apart, a resource released a little too early or too late. The two changes must be of different kinds and in different functions.
'''

if len(sys.argv) > 2 and sys.argv[2] == 'round3':
    hint = '''
Diversity request: earlier studies already collected the obvious changes in the functions most directly connected with this property, and also changes of these kinds: missing/extra std::move or std::forward, a check moved outside its lock, a counter or field forgotten in a copy/move constructor, a dropped self-assignment guard, a wrong index in a template recursion. Do NOT repeat those. Look instead at: the interaction of two features (filters or other mixins with queues; removers with heterogeneous containers; the ordered queue list with processIf/processUntil; nested invocation with SingleThreading; a custom Callback type, a custom map, custom Threading primitives); compile-time selected alternatives (enable_if overload pairs, #if branches such as the GCC-4 variant of CallbackList::operator(), const vs non-const overload pairs that must agree); memory-order arguments and atomics; noexcept specifiers and exception paths (what state is left when a user callable or a copy throws half-way); default template arguments and policy defaults; lifetime of temporaries and captured state (by reference vs by value, dangling); the helpers in eventutil.h, forEach/forEachIf, argumentadapter.h, conditionalfunctor.h, anydata.h, anyid.h, orderedqueuelist.h. The two changes must be of different kinds and in different functions, and at least one of them should involve two sites or two features that each look fine alone.
'''

print(f'''You are given a scratch git worktree of the header-only C++11 library wqking/eventpp at {wt} (work ONLY inside that directory; never touch /repo or /verif, never read /verif). The library headers are in {wt}/include/eventpp, its unit tests (Catch) in {wt}/tests/unittest.

Here is a semantic property the library is supposed to satisfy:

{prop}

Your task: produce TWO different, realistic source changes to the library headers (under include/eventpp) that each BREAK this property while the code still compiles and the existing unit test suite still passes. We are studying whether bugs that slip through the test suite can be detected by other means, so the changes should look like plausible maintenance edits / refactorings / "optimisations" a developer might make (not sabotage like deleting a whole function), and should need something specific to manifest: a particular interleaving, a fault at a particular point, a multi-step sequence of operations, an unusual input or configuration (policy, key type, argument kind), or two cooperating sites that each look fine alone. Do not choose changes that ordinary use would expose at once.{hint}

For each change i in (1,2):
 1. Start from a clean tree (git -C {wt} checkout -- . ).
 2. Make the edit. Save the diff as {wt}/_mut/m{{i}}/patch.diff (git -C {wt} diff > ...; paths relative to the repo root, applicable with `git apply`).
 3. Confirm the existing tests still build and pass with the change: 
      cmake -G Ninja -S {wt}/tests -B {wt}/_b -DCMAKE_BUILD_TYPE=RelWithDebInfo >/dev/null && cmake --build {wt}/_b --target unittest && {wt}/_b/unittest/unittest
    (first build takes a few minutes; incremental builds are faster; expected output ends with "All tests passed").  If a test fails, pick a different change.
 4. Write a small standalone demonstration program {wt}/_mut/m{{i}}/demo.cpp (plain main(), exit code 0 = property holds, non-zero = violated; print what was observed) that FAILS with your change and PASSES on the unchanged tree. Build it with: g++ -std=c++17 -O1 -g -pthread -I{wt}/include demo.cpp -o demo . Verify both directions yourself (with the patch applied: fails; after `git checkout -- .`: passes). If the failure needs a particular thread interleaving, make it deterministic where you can (e.g. by injecting a custom Threading policy / mutex / condition variable that yields at the right point, or by performing the second thread's action from inside a callback), otherwise loop enough iterations for it to fail reliably and say so.
 5. Write {wt}/_mut/m{{i}}/README.txt: which clause of the property is broken, why the existing tests do not notice, what is needed for it to manifest, and the exact commands you ran with their observed results.
Leave the worktree clean (git checkout -- .) at the end; keep the _mut directory (untracked) and you may leave _b. Report back a short summary of the two changes (file, function, one-line description, how it manifests) and whether every verification step succeeded. If you cannot find a second valid change after reasonable effort, deliver one and say so.''')
