#!/bin/bash
# eq4-intake.sh <area>: copy the four round-4 refactorings of one audit agent into selftest/patches/eqagents4 and run the area's checks on each
V=$(cd "$(dirname "$0")/.." && pwd)
A=$1
declare -A PR=( [A1]=C01,C02,C03,C10,C19 [A2]=C04,C03,C01,C12 [A3]=C05,C06,C07,C08,C09,C11,C13 [A4]=C05,C06,C07,C08,C09,C10,C11,C13
 [A5]=C14,C03,C10,C12,C04,C02 [A6]=C14,C05,C06,C07,C08,C09,C11 [A7]=C15,C16,C09 [A8]=C17,C18,C08,C20 [A9]=C12,C13,C08 [A10]=C02,C03,C12,C20,C04 )
mkdir -p $V/selftest/patches/eqagents4 /tmp/eq4
for e in e1 e2 e3 e4; do
  [ -f /tmp/wteq/$A/_eq/$e/patch.diff ] || continue
  cp /tmp/wteq/$A/_eq/$e/patch.diff $V/selftest/patches/eqagents4/$A-$e.diff
  [ -f /tmp/wteq/$A/_eq/$e/README.txt ] && cp /tmp/wteq/$A/_eq/$e/README.txt $V/selftest/patches/eqagents4/$A-$e.txt
  $V/bin/mutcheck --patch $V/selftest/patches/eqagents4/$A-$e.diff --props ${PR[$A]} > /tmp/eq4/$A-$e.log 2>&1
  echo "$A-$e: $(grep -E '^== C[0-9]+ exit=[^0]' /tmp/eq4/$A-$e.log | tr '\n' ' ')"
done
